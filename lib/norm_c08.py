"""norm_c08: refactoring-stable normal forms shared by the solver checks C08 / C09.

(1) Inliner — fact-level inlining of helper functions defined in the analysed tree.  A rule that reasons about
    the statements of an anchored function (tree walks + CFG reachability) must see the same program whether a block
    of that function lives in the function itself or in a private helper called from it ("extract helper" /
    "inline helper" refactorings).  `Inliner(facts).inline(fn, want)` returns a Function whose body *and* CFG have
    the bodies of the selected callees spliced in at their call sites:

      * statement-level calls  `helper(a, b);`                       -> { bindings; body }
      * value uses in simple statement positions, for callees whose only `return` is the last statement:
            `return helper(a);`  `x = helper(a);`  `T x = helper(a);` -> { bindings; body' }  stmt[<returned expression>]
      * pure expression helpers (body == `return <expr>;`, arguments without side effects) anywhere in an
        expression: the call node is replaced by the returned expression with the arguments substituted.

    Parameters bound to *simple* arguments (a variable, a literal, a member of *this, possibly under integer casts)
    are substituted directly, so that rules that compare declaration ids keep working unchanged; other arguments are
    bound by a synthetic declaration `const T& p = <arg>` that FnView.value()/alias resolution see like a hand-written
    named temporary.  Node ids, local declaration ids and CFG block ids of every inlined copy are renumbered, so one
    helper may be inlined at several sites.  Not inlined (the call stays, rules answer "not modelled" as before):
    virtual functions, recursion, callees with a `return` that is not the last statement, calls on another object
    than *this, callees without a body in the facts.

(2) Conditions — decision contexts: the list of (atom, truth) under which a node executes, with `switch` cases,
    `if`/`else if` chains, ternaries, negations and `&&` nesting reduced to the same form; `enum_cases` evaluates a
    context over the enumerators of one enum-typed selector.

(3) Affine index forms over never-written locals: `affine(view, n)` -> (decl id | None, offset).
"""
import copy
import itertools

import featlib
from featlib import Function, render
from mgfacts import strip, walk, kids

_fresh_decl = itertools.count(10 ** 8)

SIMPLE_LIT = ("Int", "Bool", "Float", "Null", "Char")


def _is_this_member(n):
    n = strip(n)
    return n.get("k") == "Member" and strip(n.get("b") or {"k": "This"}).get("k") == "This"


def _simple_arg(a):
    """a variable, literal or member of *this (under casts): may be substituted for the parameter directly"""
    s = strip(a)
    k = s.get("k")
    if k == "Ref" and s.get("dk") in ("local", "param", "global", "enum", "smember"):
        return True
    if k in SIMPLE_LIT:
        return True
    if _is_this_member(s):
        return True
    return False


def _has_effects(n):
    for x in walk(n):
        if x.get("k") in ("Assign", "Call", "MCall", "OpCall", "Construct", "TempObj", "New", "Delete", "Throw", "Lambda"):
            return True
        if x.get("k") == "Un" and x.get("op") in ("++", "--"):
            return True
    return False


def _pure_arg(a, depth=0):
    """an argument expression without side effects: variables, literals, members, subscripts, arithmetic, and copy /
    conversion constructions of such (a shared_ptr or scalar passed by value)"""
    a = strip(a)
    k = a.get("k")
    if depth > 8:
        return False
    if k in ("Ref", "This") or k in SIMPLE_LIT or k == "Str":
        return True
    if k == "Member":
        return a.get("b") is None or _pure_arg(a["b"], depth + 1)
    if k in ("Construct", "TempObj", "InitList"):
        return len(a.get("a", [])) <= 1 and all(_pure_arg(x, depth + 1) for x in a.get("a", []))
    if k == "Index":
        return _pure_arg(a["b"], depth + 1) and _pure_arg(a["idx"], depth + 1)
    if k == "Bin":
        return _pure_arg(a["lhs"], depth + 1) and _pure_arg(a["rhs"], depth + 1)
    if k == "Un" and a.get("op") in ("-", "+", "!", "~", "*", "&"):
        return _pure_arg(a["e"], depth + 1)
    if k == "Cond":
        return all(_pure_arg(a[x], depth + 1) for x in ("c", "then", "else"))
    if k == "MCall" and a.get("cconst") and not a.get("a"):
        return a.get("obj") is None or _pure_arg(a["obj"], depth + 1)      # const accessor without arguments
    return False


def _max_id(node):
    m = -1
    for x in walk(node):
        if isinstance(x.get("i"), int) and x["i"] > m:
            m = x["i"]
    return m


def _returns(body):
    return [x for x in walk(body) if x.get("k") == "Return"]


def _lambda_free_returns(body):
    """Return statements of the function itself (not those of lambdas defined inside)"""
    out = []

    def rec(n):
        for c in kids(n):
            if c.get("k") == "Lambda":
                continue
            if c.get("k") == "Return":
                out.append(c)
            rec(c)
    rec(body)
    return out


def _walk_no_lambda(n):
    for c in kids(n):
        if c.get("k") == "Lambda":
            continue
        yield c
        for x in _walk_no_lambda(c):
            yield x


class _Shaped:
    """a helper body in the tail-return form of Inliner.value_shape (same ids, same CFG)"""
    def __init__(self, stmts):
        self.body = {"k": "Block", "s": stmts}


class Inliner:
    def __init__(self, facts):
        self.facts = facts
        self.bydecl = {}
        for f in facts.functions:
            if f.tk != "pattern" and f.body is not None and f.d.get("decl") is not None:
                self.bydecl.setdefault(f.d["decl"], f)
        self.memo = {}
        self.log = []          # (caller qn, callee name, line, mode)

    # ---- eligibility --------------------------------------------------------------------------------
    @staticmethod
    def call_args(call):
        """arguments bound to the callee's parameters (the closure object of a lambda call is not one of them)"""
        if call.get("k") == "OpCall":
            return call.get("a", [])[1:]
        return call.get("a", [])

    def callee(self, call):
        if call.get("k") == "OpCall":
            # call of a lambda (closure(args)): the call operator is dumped as its own function
            if call.get("op") != "()" or not call.get("a"):
                return None
            f = self.bydecl.get(call.get("cdecl"))
            if f is None or f.name != "operator()" or f.cls != "<lambda>" or f.cfg is None or f.body is None or f.body.get("k") != "Block":
                return None
            if len(call["a"]) - 1 != len(f.params):
                return None
            return f
        if call.get("k") not in ("MCall", "Call"):
            return None
        if call.get("k") == "MCall":
            o = call.get("obj")
            if o is not None and strip(o).get("k") != "This":
                return None
        f = self.bydecl.get(call.get("cdecl"))
        if f is None or f.d.get("virtual") or f.cfg is None or f.body is None or f.body.get("k") != "Block":
            return None
        if f.d.get("ctor") or f.d.get("dtor"):
            return None
        if len(call.get("a", [])) != len(f.params):
            return None
        return f

    @staticmethod
    def tail_return_only(f):
        """(ok, return node or None): the only return statement of f, if any, is the last top-level statement"""
        rs = _lambda_free_returns(f.body)
        if not rs:
            return True, None
        st = f.body.get("s", [])
        if len(rs) == 1 and st and st[-1] is rs[0]:
            return True, rs[0]
        return False, None

    @staticmethod
    def early_returns_structured(f):
        """the body with `if(c) { A; return; } B` rewritten to `if(c) { A } else { B }` (recursively, also for
        `return <constant>;` whose value the caller ignores), and the ids of the removed return statements — or None if some
        return sits inside a loop / switch or carries an effect.  Only valid where the caller ignores the result."""
        rs = _lambda_free_returns(f.body)
        if any(r.get("e") is not None and _has_effects(r["e"]) for r in rs):
            return None
        dropped = set()
        fresh = [_max_id(f.body) + 1]       # ids of the synthetic else-blocks (expand() reserves room for them)

        def new_block_id():
            fresh[0] += 1
            return fresh[0] - 1

        def last_is_return(st):
            st = st if st.get("k") != "Block" else (st.get("s") or [None])[-1]
            return st is not None and st.get("k") == "Return"

        def strip_last_return(st):
            if st.get("k") == "Return":
                dropped.add(st["i"])
                return {"k": "Block", "i": st["i"], "l": st.get("l"), "s": []}
            out = dict(st)
            out["s"] = list(st["s"][:-1])
            dropped.add(st["s"][-1]["i"])
            return out

        def has_return(n):
            return any(x.get("k") == "Return" for x in walk(n))

        def rec(stmts):
            out = []
            for idx, st in enumerate(stmts):
                k = st.get("k")
                if k == "Return":
                    dropped.add(st["i"])
                    return out          # statements after a return are dead
                if k == "If" and has_return(st):
                    th, el = st.get("then"), st.get("else")
                    rest = stmts[idx + 1:]
                    if th is not None and last_is_return(th) and not has_return(strip_last_return(th)) and (el is None or not has_return(el)) :
                        new = dict(st)
                        new["then"] = strip_last_return(th)
                        tail = ([el] if el is not None else []) + rest
                        r2 = rec(tail)
                        if r2 is None:
                            return None
                        new["else"] = {"k": "Block", "i": new_block_id(), "l": st.get("l"), "s": r2, "synthetic_else": True} if r2 else None
                        out.append(new)
                        return out
                    if th is not None and th.get("k") == "Block" and not (el is not None and has_return(el)):
                        # returns nested deeper in the then-branch
                        return None
                    return None
                if has_return(st):
                    return None         # return inside a loop / switch / nested block
                out.append(st)
            return out
        body = rec(f.body.get("s", []))
        if body is None:
            return None
        return body, dropped

    @staticmethod
    def returns_in_tail_position(f):
        """every `return e;` of f (at least one, all with a value) is the last thing the function does on its path: not inside
        a loop, and followed in its block (and in the blocks around it) only by another `case` / `default` label or nothing.
        Then `x = f(..)` is f's body with each `return e` replaced by `x = e`."""
        rs = _lambda_free_returns(f.body)
        if not rs or any(r.get("e") is None for r in rs):
            return False
        parent = {}
        for x in walk(f.body):
            for c in kids(x):
                parent[id(c)] = x
        for r in rs:
            node = r
            while True:
                p = parent.get(id(node))
                if p is None:
                    break
                k = p.get("k")
                if k in ("For", "While", "Do", "ForRange", "Lambda", "Try"):
                    return False
                if k == "Block":
                    st = p.get("s", [])
                    pos = next((i for i, x in enumerate(st) if x is node), None)
                    if pos is None:
                        return False
                    if pos + 1 < len(st) and st[pos + 1].get("k") not in ("Case", "Default"):
                        return False
                node = p
        # all paths return: the last statement of the body is a return / an if-else or a switch with default that ends in returns
        def ends(st):
            k = st.get("k")
            if k == "Return":
                return True
            if k == "Block":
                return bool(st.get("s")) and ends(st["s"][-1])
            if k == "If":
                return st.get("else") is not None and ends(st["then"]) and ends(st["else"])
            if k == "Switch":
                b = st.get("body") or {}
                labels = [x for x in b.get("s", []) if x.get("k") in ("Case", "Default")]
                return any(x.get("k") == "Default" for x in labels) and bool(b.get("s")) and ends_case(b["s"][-1])
            return False

        def ends_case(st):
            if st.get("k") in ("Case", "Default"):
                return isinstance(st.get("s"), dict) and ends(st["s"])
            return ends(st)
        return bool(f.body.get("s")) and ends(f.body["s"][-1])

    @staticmethod
    def value_shape(f):
        """(statements, CFG element ids to drop) of a value-returning helper brought into a form whose returns sit in tail
        position, or None.  Two exact rewrites, the CFG keeps its own edges:
          * `loop { .. return v; .. } return v;` at the top level of the body, v one local variable: the returns inside
            the loop leave the loop and reach `return v` with v unchanged, i.e. they are `break`;
          * guard clauses: `if(c) { A; return a; } B` is `if(c) { A; return a; } else { B }` (and the mirrored form)."""
        stmts = list(f.body.get("s", []))
        drop = set()
        # -- returns of the result variable inside the last loop
        if len(stmts) >= 2 and stmts[-1].get("k") == "Return" and stmts[-1].get("e") is not None \
                and stmts[-2].get("k") in ("While", "For", "Do") and strip(stmts[-1]["e"]).get("k") == "Ref" \
                and strip(stmts[-1]["e"]).get("dk") in ("local", "param"):
            v = strip(stmts[-1]["e"])["d"]
            loop = copy.deepcopy(stmts[-2])
            ok = [True]
            hits = []

            def rec(n, inner):
                for c in kids(n):
                    k = c.get("k")
                    if k == "Lambda":
                        continue
                    if k == "Return":
                        e = c.get("e")
                        if inner or e is None or strip(e).get("k") != "Ref" or strip(e).get("d") != v:
                            ok[0] = False
                        else:
                            hits.append(c)
                        continue
                    rec(c, inner or k in ("While", "For", "Do", "ForRange", "Switch", "Try"))
            rec(loop, False)
            if ok[0] and hits:
                for r in hits:
                    rid, rl = r.get("i"), r.get("l")
                    drop.add(rid)
                    r.clear()
                    r.update({"k": "Break", "i": rid, "l": rl, "from_return": True})
                stmts[-2] = loop
        # -- guard clauses
        fresh = [_max_id(f.body) + 1]

        def new_block_id():
            fresh[0] += 1
            return fresh[0] - 1

        def has_return(n):
            return n is not None and any(x.get("k") == "Return" for x in ([n] + list(_walk_no_lambda(n))))

        def ends(st):
            if st is None:
                return False
            k = st.get("k")
            if k == "Return":
                return True
            if k == "Block":
                return bool(st.get("s")) and ends(st["s"][-1])
            if k == "If":
                return st.get("else") is not None and ends(st["then"]) and ends(st["else"])
            return False

        def as_list(st):
            if st is None:
                return []
            return list(st["s"]) if st.get("k") == "Block" and not st.get("inl") else [st]

        def nest(sts):
            out = []
            for idx, st in enumerate(sts):
                k = st.get("k")
                if k == "Block" and not st.get("inl") and has_return(st):
                    st = dict(st)
                    st["s"] = nest(st.get("s", []))
                elif k == "If" and has_return(st):
                    st = dict(st)
                    th, el = st.get("then"), st.get("else")
                    rest = sts[idx + 1:]
                    if rest and ends(th) and not ends(el):
                        st["then"] = {"k": "Block", "i": new_block_id(), "l": st.get("l"), "s": nest(as_list(th)), "synthetic_else": True}
                        st["else"] = {"k": "Block", "i": new_block_id(), "l": st.get("l"), "s": nest(as_list(el) + rest), "synthetic_else": True}
                        out.append(st)
                        return out
                    if rest and ends(el) and not ends(th):
                        st["else"] = {"k": "Block", "i": new_block_id(), "l": st.get("l"), "s": nest(as_list(el)), "synthetic_else": True}
                        st["then"] = {"k": "Block", "i": new_block_id(), "l": st.get("l"), "s": nest(as_list(th) + rest), "synthetic_else": True}
                        out.append(st)
                        return out
                    if th is not None:
                        st["then"] = {"k": "Block", "i": new_block_id(), "l": st.get("l"), "s": nest(as_list(th)), "synthetic_else": True}
                    if el is not None:
                        st["else"] = {"k": "Block", "i": new_block_id(), "l": st.get("l"), "s": nest(as_list(el)), "synthetic_else": True}
                out.append(st)
            return out
        stmts = nest(stmts)
        if fresh[0] - (_max_id(f.body) + 1) > 60:
            return None
        return stmts, drop

    @staticmethod
    def pure_expr(f):
        """the returned expression if the body of f is `return <expr>;` only"""
        st = f.body.get("s", [])
        if len(st) == 1 and st[0].get("k") == "Return" and st[0].get("e") is not None:
            return st[0]["e"]
        return None

    # ---- cloning ------------------------------------------------------------------------------------
    def _clone(self, node, off, dmap, subst, alloc):
        """deep copy with node ids shifted by off, local decl ids renamed through dmap, parameter references
        replaced: subst[d] = ('node', arg) -> the argument node itself (shared), ('local', new d, name)"""
        if isinstance(node, list):
            return [self._clone(x, off, dmap, subst, alloc) for x in node]
        if not isinstance(node, dict):
            return node
        k = node.get("k")
        if k == "Ref" and node.get("d") in subst:
            s = subst[node["d"]]
            if s[0] == "node":
                return self._fresh_copy(s[1], alloc)
            out = dict(node)
            out["dk"] = "local"
            out["d"] = s[1]
            if isinstance(out.get("i"), int):
                out["i"] += off
            return out
        out = {}
        for key, v in node.items():
            if key == "i" and isinstance(v, int):
                out[key] = v + off
            elif key == "d" and k in ("Ref", "Var") and v in dmap:
                out[key] = dmap[v]
            elif isinstance(v, (dict, list)):
                out[key] = self._clone(v, off, dmap, subst, alloc)
            else:
                out[key] = v
        return out

    def _fresh_copy(self, node, alloc):
        """deep copy of an argument expression with new node ids (one copy per use: parent links stay unique)"""
        if isinstance(node, list):
            return [self._fresh_copy(x, alloc) for x in node]
        if not isinstance(node, dict):
            return node
        out = {}
        for key, v in node.items():
            if key == "i" and isinstance(v, int):
                out[key] = alloc()
            elif isinstance(v, (dict, list)):
                out[key] = self._fresh_copy(v, alloc)
            else:
                out[key] = v
        return out

    # ---- main ---------------------------------------------------------------------------------------
    def inline(self, fn, want=None, depth=3, _stack=()):
        """-> Function with the selected helper calls inlined (fn itself if there is nothing to inline).
        want(call node, callee Function) -> bool selects the calls (default: all eligible ones)."""
        key = (id(fn), id(want), depth)
        if key in self.memo:
            return self.memo[key]
        res = self._inline(fn, want, depth, _stack)
        self.memo[key] = res
        return res

    def _inline(self, fn, want, depth, stack):
        if depth <= 0 or fn.body is None or fn.cfg is None:
            return fn
        me = fn.d.get("decl")
        # is there anything to do?  (cheap pre-scan on the original tree)
        cands = []
        for n in walk(fn.body):
            if n.get("k") in ("MCall", "Call", "OpCall"):
                c = self.callee(n)
                if c is not None and c.d.get("decl") != me and c.d.get("decl") not in stack and c.facts is fn.facts and (want is None or want(n, c)):
                    cands.append(n.get("i"))
        if not cands:
            return fn
        cands = set(cands)
        body = copy.deepcopy(fn.body)
        cfg = copy.deepcopy(fn.d["cfg"])
        st = {"next_id": max(_max_id(body), max([e for b in cfg["blocks"] for e in b["el"]] + [0])) + 1,
              "next_blk": max(b["id"] for b in cfg["blocks"]) + 1, "done": 0}
        blocks = {b["id"]: b for b in cfg["blocks"]}
        inits = fn.d.get("inits")

        def new_id():
            st["next_id"] += 1
            return st["next_id"] - 1

        def bind(call, cal):
            """-> (binding Decl nodes, subst map for the clone)"""
            decls, subst = [], {}
            written = set()
            for x in walk(cal.body):
                if x.get("k") == "Assign" and strip(x["lhs"]).get("k") == "Ref":
                    written.add(strip(x["lhs"])["d"])
                elif x.get("k") == "Un" and x.get("op") in ("++", "--") and strip(x["e"]).get("k") == "Ref":
                    written.add(strip(x["e"])["d"])
            for p, a in zip(cal.params, self.call_args(call)):
                if not p.get("n"):
                    continue
                ty = cal.type(p["t"])
                if _simple_arg(a) and p["d"] not in written:
                    subst[p["d"]] = ("node", strip(a) if strip(a).get("k") in ("Ref", "Member") else a)
                    continue
                nd = next(_fresh_decl)
                subst[p["d"]] = ("local", nd, p["n"])
                var = {"k": "Var", "n": p["n"], "d": nd, "t": p["t"], "l": call.get("l"), "init": a, "inl_param": True}
                if "&" in ty:
                    var["ref"] = True
                if ty.strip().startswith("const ") or p["d"] not in written:
                    var["const"] = True
                decls.append({"k": "Decl", "i": new_id(), "l": call.get("l"), "vars": [var]})
            return decls, subst

        def splice_cfg(call_id, decl_ids, cal, off, drop_ids, extra_after=()):
            """replace element call_id by: decl_ids, the callee's CFG, extra_after"""
            where = None
            for b in blocks.values():
                if call_id in b["el"]:
                    where = (b, b["el"].index(call_id))
                    break
            if where is None:
                return False
            B, p = where
            ccfg = cal.d["cfg"]
            base = st["next_blk"]
            st["next_blk"] += max(x["id"] for x in ccfg["blocks"]) + 2
            nb2 = st["next_blk"] - 1
            B2 = {"id": nb2, "el": list(extra_after) + B["el"][p + 1:], "succ": B.get("succ", [])}
            for key in ("term", "term_id", "cond", "noreturn"):
                if key in B:
                    B2[key] = B.pop(key)
            B["el"] = B["el"][:p] + list(decl_ids)
            B["succ"] = [base + ccfg["entry"]]
            blocks[nb2] = B2
            cbyid = {}
            for x in walk(cal.body):
                if "i" in x:
                    cbyid[x["i"]] = x
            for cb in ccfg["blocks"]:
                if cb["id"] == ccfg["exit"]:
                    continue
                leaves = bool(cb.get("noreturn")) or any((cbyid.get(e) or {}).get("k") == "Throw" for e in cb["el"])
                nbk = {"id": base + cb["id"], "el": [e + off for e in cb["el"] if e not in drop_ids],
                       "succ": [None if s is None else ((cfg["exit"] if leaves else nb2) if s == ccfg["exit"] else base + s) for s in cb.get("succ", [])]}
                for key in ("term", "noreturn"):
                    if key in cb:
                        nbk[key] = cb[key]
                for key in ("term_id", "cond", "label"):
                    if isinstance(cb.get(key), int):
                        nbk[key] = cb[key] + off
                blocks[nbk["id"]] = nbk
            return True

        def expand(call, cal, mode, target=None, pre_ids=(), shaped=None):
            """-> (block node with bindings + body, cloned returned expression or None)"""
            cal = self.inline(cal, want, depth - 1, stack + (me,))
            ok, ret = self.tail_return_only(cal if shaped is None else _Shaped(shaped[0]))
            dmap = {}
            for x in walk(cal.body):
                if x.get("k") == "Var" and "d" in x:
                    dmap[x["d"]] = next(_fresh_decl)
            decls, subst = bind(call, cal)
            off = st["next_id"]
            st["next_id"] += _max_id(cal.body) + 2 + 64      # + room for synthetic blocks of the early-return rewrite
            stmts = cal.body.get("s", [])
            drop = set()
            if shaped is not None:
                stmts, drop = list(shaped[0]), set(shaped[1])
            rexpr = None
            if mode == "multi":
                pass        # returns stay where they are and become assignments to the target (below)
            elif not ok and mode == "stmt":
                # early returns: `if(c) { A; return; } B` is `if(c) { A } else { B }` (the CFG keeps its own edges)
                stmts, drop = self.early_returns_structured(cal)
                drop = set(drop)
            elif ret is not None:
                stmts = stmts[:-1]
                drop.add(ret["i"])
                if ret.get("e") is not None:
                    rexpr = self._clone(ret["e"], off, dmap, subst, new_id)
            cloned = [self._clone(s, off, dmap, subst, new_id) for s in stmts]
            if mode == "multi":
                def to_assign(n):
                    if isinstance(n, list):
                        for x in n:
                            to_assign(x)
                        return
                    if not isinstance(n, dict):
                        return
                    if n.get("k") == "Lambda":
                        return
                    if n.get("k") == "Return":
                        e_ = n.get("e")
                        lhs = self._fresh_copy(target, new_id)
                        if "i" not in lhs:
                            lhs["i"] = new_id()
                        rid, rl = n.get("i"), n.get("l")
                        n.clear()
                        n.update({"k": "Assign", "i": rid, "l": rl, "op": "=", "lhs": lhs, "rhs": e_, "t": lhs.get("t"), "from_return": True})
                        return
                    for v_ in list(n.values()):
                        if isinstance(v_, (dict, list)):
                            to_assign(v_)
                to_assign(cloned)
            extra = []
            if rexpr is not None and mode == "stmt" and _has_effects(rexpr):
                cloned.append(rexpr)            # `return g(x);` of a helper whose value the caller ignores
            blk = {"k": "Block", "i": new_id(), "l": call.get("l"), "s": decls + cloned, "inl": cal.qn, "inl_name": cal.name}
            if pre_ids:
                for b_ in blocks.values():
                    for e_ in pre_ids:
                        if e_ in b_["el"]:
                            b_["el"].remove(e_)
            splice_cfg(call["i"], list(pre_ids) + [d["i"] for d in decls], cal, off, drop)
            self.log.append((fn.qn, cal.name, call.get("l"), mode))
            st["done"] += 1
            return blk, rexpr

        def try_stmt(s):
            """-> replacement statement list, or None"""
            if not isinstance(s, dict):
                return None
            k = s.get("k")
            c = strip(s) if k in ("MCall", "Call", "OpCall", "Cast") else None
            if c is not None and c.get("k") in ("MCall", "Call", "OpCall") and c.get("i") in cands:
                cal = self.callee(c)
                if cal is not None:
                    cal2 = self.inline(cal, want, depth - 1, stack + (me,))
                    if self.tail_return_only(cal2)[0] or self.early_returns_structured(cal2) is not None:
                        blk, _ = expand(c, cal, "stmt")
                        return [blk]
                return None
            slot = None
            if k == "Return" and s.get("e") is not None:
                slot = (s, "e")
            elif k == "Assign" and s.get("op") == "=" and not _has_effects(s["lhs"]):
                slot = (s, "rhs")
            elif k == "Decl" and len(s.get("vars", [])) == 1 and s["vars"][0].get("init") is not None:
                slot = (s["vars"][0], "init")
            if slot is not None:
                c = strip(slot[0][slot[1]])
                if c.get("k") in ("MCall", "Call", "OpCall") and c.get("i") in cands:
                    cal = self.callee(c)
                    if cal is None:
                        return None
                    cal2 = self.inline(cal, want, depth - 1, stack + (me,))
                    ok, ret = self.tail_return_only(cal2)
                    if self.pure_expr(cal2) is not None:
                        return None
                    if ok and ret is not None and ret.get("e") is not None:
                        blk, rexpr = expand(c, cal, "value")
                        slot[0][slot[1]] = rexpr
                        return [blk, s]
                    shaped = None
                    if not self.returns_in_tail_position(cal2):
                        # guard clauses / returns of the result variable inside a search loop: bring them into tail position
                        shaped = self.value_shape(cal2)
                        if shaped is not None:
                            sh = _Shaped(shaped[0])
                            ok, ret = self.tail_return_only(sh)
                            if ok and ret is not None and ret.get("e") is not None:
                                blk, rexpr = expand(c, cal, "value", shaped=shaped)
                                slot[0][slot[1]] = rexpr
                                return [blk, s]
                            if not self.returns_in_tail_position(sh):
                                shaped = None
                    if shaped is not None or self.returns_in_tail_position(cal2):
                        # several returns (switch cases, if / else): `x = f(..)` is the body with `return e` -> `x = e`
                        pre = []
                        if k == "Decl":
                            var = s["vars"][0]
                            target = {"k": "Ref", "t": var.get("t"), "n": var["n"], "d": var["d"], "dk": "local"}
                            var["init"] = None
                            var.pop("const", None)
                            pre = [s]
                            post = []
                            drop_el = []
                        elif k == "Assign":
                            target = s["lhs"]
                            post = []
                            drop_el = [s["i"]]
                        else:   # return f(..)
                            nd = next(_fresh_decl)
                            target = {"k": "Ref", "t": c.get("t"), "n": "result_of_" + cal.name, "d": nd, "dk": "local"}
                            pre = [{"k": "Decl", "i": new_id(), "l": s.get("l"), "vars": [{"k": "Var", "n": "result_of_" + cal.name, "d": nd, "t": c.get("t"), "l": s.get("l")}]}]
                            s["e"] = self._fresh_copy(target, new_id)
                            if "i" not in s["e"]:
                                s["e"]["i"] = new_id()
                            post = [s]
                            drop_el = []
                        blk, _ = expand(c, cal, "multi", target=target, pre_ids=[x["i"] for x in pre if x.get("k") == "Decl" and k == "Decl"], shaped=shaped)
                        for e_ in drop_el:
                            for b_ in blocks.values():
                                if e_ in b_["el"]:
                                    b_["el"].remove(e_)
                        return pre + [blk] + post
                    return None
            return None

        def rewrite(n):
            """in-place rewrite of the statement positions below n"""
            if not isinstance(n, dict):
                return
            k = n.get("k")
            if k == "Lambda":
                return
            if k == "Block":
                out = []
                for s in n.get("s", []):
                    r = try_stmt(s)
                    if r is None:
                        rewrite(s)
                        out.append(s)
                    else:
                        out.extend(r)
                n["s"] = out
                return
            for key in ("then", "else", "body"):
                s = n.get(key)
                if isinstance(s, dict) and s.get("k") != "Block":
                    r = try_stmt(s)
                    if r is not None:
                        n[key] = r[0] if len(r) == 1 else {"k": "Block", "i": new_id(), "l": s.get("l"), "s": r}
                        continue
                if isinstance(s, dict):
                    rewrite(s)
            if k in ("Case", "Default") and isinstance(n.get("s"), dict):
                s = n["s"]
                r = try_stmt(s)
                if r is not None:
                    n["s"] = r[0] if len(r) == 1 else {"k": "Block", "i": new_id(), "l": s.get("l"), "s": r}
                else:
                    rewrite(s)
            elif k in ("Switch", "Try", "OMP"):
                for c in kids(n):
                    rewrite(c)

        rewrite(body)

        # pure expression helpers anywhere else
        def subst_exprs(n):
            if not isinstance(n, dict):
                return
            for key, v in list(n.items()):
                if key in ("inl", "inl_name"):
                    continue
                if isinstance(v, dict):
                    r = expr_repl(v)
                    if r is not None:
                        n[key] = r
                        subst_exprs(r)
                    else:
                        subst_exprs(v)
                elif isinstance(v, list):
                    for idx, x in enumerate(v):
                        if isinstance(x, dict):
                            r = expr_repl(x)
                            if r is not None:
                                v[idx] = r
                                subst_exprs(r)
                            else:
                                subst_exprs(x)

        def expr_repl(c):
            if c.get("k") not in ("MCall", "Call", "OpCall") or c.get("i") not in cands:
                return None
            cal = self.callee(c)
            if cal is None:
                return None
            e = self.pure_expr(cal)
            if e is None or not all(_pure_arg(a) for a in self.call_args(c)):
                return None
            if any(x.get("k") in ("Assign", "Lambda", "New", "Delete", "Throw") or (x.get("k") == "Un" and x.get("op") in ("++", "--")) for x in walk(e)):
                return None
            subst = {}
            for p, a in zip(cal.params, self.call_args(c)):
                subst[p["d"]] = ("node", a)
            off = st["next_id"]
            st["next_id"] += _max_id(cal.body) + 2
            r = self._clone(e, off, {}, subst, new_id)
            # CFG: the call element is replaced by the interesting elements of the returned expression
            celems = [x for b in cal.d["cfg"]["blocks"] for x in b["el"]]
            ret_id = cal.body["s"][0]["i"]
            rep = [x + off for x in celems if x != ret_id]
            for b in blocks.values():
                if c["i"] in b["el"]:
                    p = b["el"].index(c["i"])
                    b["el"] = b["el"][:p] + rep + b["el"][p + 1:]
                    break
            self.log.append((fn.qn, cal.name, c.get("l"), "expr"))
            st["done"] += 1
            return r
        subst_exprs(body)
        if not st["done"]:
            return fn
        d2 = dict(fn.d)
        d2["body"] = body
        cfg["blocks"] = [blocks[b] for b in sorted(blocks)]
        d2["cfg"] = cfg
        d2["inlined"] = sorted({x[1] for x in self.log if x[0] == fn.qn})
        out = Function(fn.facts, d2)
        return out


# -------------------------------------------------------------------------------------------------
# decision contexts
# -------------------------------------------------------------------------------------------------

NEG = {"<": ">=", ">": "<=", "<=": ">", ">=": "<", "==": "!=", "!=": "=="}


def split_cond(c, truth=True, view=None):
    """condition node -> list of alternatives, each a list of (atom, truth): DNF over && / || / !;
    with a view, named conditions (`const bool adaptive = (_mode != Fixed);`) are resolved to what they name"""
    c = view.value(c) if view is not None else strip(c)
    k = c.get("k")
    if k in ("Construct", "TempObj") and len(c.get("a", [])) == 1 and view is not None:
        return split_cond(c["a"][0], truth, view)
    if k == "Un" and c.get("op") == "!":
        return split_cond(c["e"], not truth, view)
    if k == "Bin" and c.get("op") in ("&&", "||"):
        conj = (c["op"] == "&&") == truth
        L, R = split_cond(c["lhs"], truth, view), split_cond(c["rhs"], truth, view)
        if conj:
            return [a + b for a in L for b in R]
        return L + R
    return [[(c, truth)]]


def contexts(view, node):
    """decision contexts of a node: list of alternatives, each a list of (atom, truth); a `case X:` of
    `switch(sel)` contributes the atom ('case', sel node, [value nodes]) with truth True, `default:` the same with
    the values of all sibling cases and truth False.  Ternary operators on the way up are included."""
    alts = [[]]
    child = node
    p = view.parent.get(node.get("i"))
    while p is not None:
        k = p.get("k")
        if k in ("If", "Cond"):
            inthen = p.get("then") is not None and (p["then"] is child or child.get("i") == p["then"].get("i"))
            inelse = p.get("else") is not None and (p["else"] is child or child.get("i") == p["else"].get("i"))
            if inthen or inelse:
                new = split_cond(p.get("c") or {}, inthen, view)
                alts = [a + b for a in alts for b in new]
        elif k in ("Case", "Default"):
            sw = view.parent.get(p.get("i"))
            while sw is not None and sw.get("k") != "Switch":
                sw = view.parent.get(sw.get("i"))
            if sw is not None:
                sel = sw.get("c")
                if k == "Case":
                    alts = [a + [(("case", sel, [p.get("v")]), True)] for a in alts]
                else:
                    vals = [x.get("v") for x in walk(sw.get("body")) if x.get("k") == "Case"]
                    alts = [a + [(("case", sel, vals), False)] for a in alts]
        child, p = p, view.parent.get(p.get("i"))
    return alts


def enum_values(view, is_selector, alt, universe):
    """subset of `universe` (enumerator short names) that the selector can have under the context alternative alt;
    atoms that do not mention the selector are ignored.  Returns None if an atom on the selector is not understood."""
    poss = set(universe)

    def ename(n):
        n = view.value(n)
        if n.get("k") == "Ref" and n.get("dk") == "enum":
            return (n.get("qn") or n.get("n") or "").rsplit("::", 1)[-1]
        return None
    for atom, truth in alt:
        if isinstance(atom, tuple) and atom[0] == "case":
            if not is_selector(view.value(atom[1])):
                continue
            names = [ename(v) for v in atom[2]]
            if any(x is None for x in names):
                return None
            poss &= set(names) if truth else (set(universe) - set(names))
            continue
        a = strip(atom)
        if a.get("k") == "Bin" and a.get("op") in ("==", "!="):
            for x, y in ((a["lhs"], a["rhs"]), (a["rhs"], a["lhs"])):
                if is_selector(view.value(x)):
                    nm = ename(y)
                    if nm is None:
                        return None
                    eq = (a["op"] == "==") == truth
                    poss &= {nm} if eq else (set(universe) - {nm})
                    break
            continue
        if any(is_selector(x) for x in walk(a) if x.get("k") == "Member"):
            return None
    return poss


# -------------------------------------------------------------------------------------------------
# affine index forms
# -------------------------------------------------------------------------------------------------

def affine(view, n, depth=0):
    """(decl id or None, integer offset) if n == var + offset / constant, resolving never-written locals;
    None otherwise.  Casts are ignored (index arithmetic of the kernels is free of wrap-around by their own
    XASSERTs)."""
    n = strip(n)
    if depth > 12:
        return None
    k = n.get("k")
    if k == "Int":
        return (None, int(n["v"]))
    if k == "Ref":
        if n.get("dk") == "local" and view.is_const_local(n["d"]):
            r = affine(view, view.locals[n["d"]]["init"], depth + 1)
            if r is not None:
                return r
        if n.get("dk") in ("local", "param"):
            return (n["d"], 0)
        return None
    if k == "Bin" and n.get("op") in ("+", "-"):
        a, b = affine(view, n["lhs"], depth + 1), affine(view, n["rhs"], depth + 1)
        if a is None or b is None:
            return None
        if n["op"] == "+":
            if a[0] is None:
                return (b[0], a[1] + b[1])
            if b[0] is None:
                return (a[0], a[1] + b[1])
            return None
        if b[0] is None:
            return (a[0], a[1] - b[1])
        return None
    if k in ("Construct", "TempObj") and len(n.get("a", [])) == 1:
        return affine(view, n["a"][0], depth + 1)
    return None


# -------------------------------------------------------------------------------------------------
# pointer cursors as the index loops they are
# -------------------------------------------------------------------------------------------------

def _ptr_decompose(n):
    """pointer expression -> (base pointer node, integer offset node or None): B, B + e, B + e - c, &B[e]"""
    n = strip(n)
    k = n.get("k")
    if k == "Bin" and n.get("op") in ("+", "-"):
        r = _ptr_decompose(n["lhs"])
        if r is None:
            return None
        B, E = r
        rhs = n["rhs"]
        if E is None:
            if n["op"] == "-":
                return None
            return B, rhs
        return B, {"k": "Bin", "op": n["op"], "lhs": E, "rhs": rhs, "t": E.get("t"), "l": n.get("l")}
    if k == "Un" and n.get("op") == "&":
        e = strip(n["e"])
        if e.get("k") == "Index":
            return e["b"], e["idx"]
        return None
    if k in ("Ref", "MCall", "Member", "Cond"):
        return n, None
    return None


def cursors_to_indices(fn):
    """-> Function in which lock-step pointer cursors are rewritten as one index variable:

        const IT* ci = col + rp[i];  const DT* av = val + rp[i];              IT K = rp[i];
        for(; *ci < i; ++ci, ++av) d += *av * out[*ci];             ==>       for(; col[K] < i; ++K) d += val[K] * out[col[K]];
        out[i] = (b[i] - d) / *av;                                            out[i] = (b[i] - d) / val[K];

    A cursor is a pointer local initialised with `base + offset` (or `&base[offset]`) whose only writes are unit steps in
    the increment (or as trailing statements of the body) of ONE loop; all cursors stepped by that loop must start at the
    same offset expression and move in the same direction.  `*p`, `p[c]` become `base[K]`, `base[K + c]`; a comparison
    `p != base + e` / `p < base + e` becomes `K != e` / `K < e`.  Any other use of a cursor leaves the function untouched.
    Only the statement tree is rewritten (the analyses that use this form do not use the CFG)."""
    if fn.body is None:
        return fn
    from mgfacts import FnView
    view = FnView(fn)
    body = None
    groups = []        # (loop id, [cursor decl ids], step)
    for loop in walk(fn.body):
        if loop.get("k") not in ("For", "While"):
            continue
        steps = []

        def comma(n):
            n = strip(n)
            if n.get("k") == "Bin" and n.get("op") == ",":
                return comma(n["lhs"]) + comma(n["rhs"])
            return [n]
        if loop.get("k") == "For" and loop.get("inc") is not None:
            steps = comma(loop["inc"])
            where = "inc"
        else:
            b = loop.get("body") or {}
            st = b.get("s", []) if b.get("k") == "Block" else [b]
            def unit_step(x):
                x = strip(x)
                if x.get("k") == "Un" and x.get("op") in ("++", "--") and strip(x["e"]).get("k") == "Ref":
                    return True
                return x.get("k") == "Assign" and x.get("op") in ("+=", "-=") and strip(x["lhs"]).get("k") == "Ref" and strip(x["rhs"]).get("k") == "Int" and int(strip(x["rhs"])["v"]) == 1
            while st and unit_step(st[-1]) and len(steps) < 4:
                steps.insert(0, strip(st[-1]))
                st = st[:-1]
            where = "tail"
        curs = []
        ok = True
        for s_ in steps:
            d = sgn = None
            if s_.get("k") == "Un" and s_.get("op") in ("++", "--") and strip(s_["e"]).get("k") == "Ref":
                d, sgn = strip(s_["e"])["d"], (1 if s_["op"] == "++" else -1)
            elif s_.get("k") == "Assign" and s_.get("op") in ("+=", "-=") and strip(s_["lhs"]).get("k") == "Ref" and strip(s_["rhs"]).get("k") == "Int" and int(strip(s_["rhs"])["v"]) == 1:
                d, sgn = strip(s_["lhs"])["d"], (1 if s_["op"] == "+=" else -1)
            var = view.locals.get(d) if d is not None else None
            if var is None or "*" not in fn.type(var.get("t")) or var.get("init") is None:
                if where == "inc":
                    ok = False
                continue
            if len(view.writes.get(d, [])) != 1:
                ok = False
                continue
            curs.append((d, sgn, s_))
        if where == "tail":
            curs = [c for c in curs]       # non-pointer trailing steps (an index) are simply not cursors
            if len(curs) != len([s_ for s_ in steps]):
                # mixed tail (e.g. `++k;` of an index loop): only all-pointer tails are rewritten
                if curs:
                    ok = False
        if ok and curs and len({c[1] for c in curs}) == 1:
            groups.append((loop, curs, where))
    if not groups:
        return fn
    import copy as _copy
    d2 = dict(fn.d)
    body = _copy.deepcopy(fn.body)
    byid = {}
    parent = {}
    for x in walk(body):
        if "i" in x:
            byid[x["i"]] = x
        for c in kids(x):
            if "i" in c:
                parent[c["i"]] = x
    nid = [_max_id(body) + 1]

    def new_id():
        nid[0] += 1
        return nid[0] - 1
    done = 0
    for loop0, curs, where in groups:
        loop = byid.get(loop0.get("i"))
        if loop is None:
            continue
        decomp = {}
        for d, sgn, s_ in curs:
            r = _ptr_decompose(view.locals[d]["init"])
            if r is None:
                decomp = None
                break
            decomp[d] = r
        if not decomp:
            continue
        offs = {render(E) if E is not None else "0" for B, E in decomp.values()}
        if len(offs) != 1:
            continue
        d0 = curs[0][0]
        E0 = decomp[d0][1] or {"k": "Int", "v": "0", "i": new_id()}
        K = next(_fresh_decl)
        ktype = E0.get("t")
        kname = "k_" + view.locals[d0]["n"]

        def kref():
            return {"k": "Ref", "i": new_id(), "t": ktype, "n": kname, "d": K, "dk": "local"}
        cds = set(decomp)
        # every use of a cursor must be one of the rewritable forms
        uses = [x for x in walk(body) if x.get("k") == "Ref" and x.get("d") in cds]
        plan = []
        bad = False
        endptrs = set()
        step_ids = {s_["i"] for d, sgn, s_ in curs}
        for u in uses:
            p = parent.get(u.get("i"))
            while p is not None and p.get("k") == "Cast":
                u, p = p, parent.get(p.get("i"))
            if p is None:
                bad = True
                break
            B = decomp[strip(u)["d"]][0]
            if p.get("i") in step_ids:
                continue
            if p.get("k") == "Un" and p.get("op") == "*":
                plan.append((p, {"k": "Index", "i": p.get("i"), "l": p.get("l"), "t": p.get("t"), "b": _copy.deepcopy(B), "idx": kref()}))
            elif p.get("k") == "Index" and strip(p["b"]) is strip(u):
                plan.append((p, {"k": "Index", "i": p.get("i"), "l": p.get("l"), "t": p.get("t"), "b": _copy.deepcopy(B),
                                 "idx": {"k": "Bin", "i": new_id(), "op": "+", "lhs": kref(), "rhs": p["idx"], "t": ktype}}))
            elif p.get("k") == "Bin" and p.get("op") in ("<", ">", "<=", ">=", "!=", "=="):
                other = p["rhs"] if strip(p["lhs"]) is strip(u) else p["lhs"]
                ov = strip(other)
                if ov.get("k") == "Ref" and ov.get("dk") == "local" and view.is_const_local(ov["d"]):
                    ov = strip(view.locals[ov["d"]]["init"])
                r = _ptr_decompose(ov)
                if r is None or render(r[0]) != render(B):
                    bad = True
                    break
                if strip(other).get("k") == "Ref" and strip(other).get("dk") == "local":
                    endptrs.add(strip(other)["d"])
                E1 = r[1] or {"k": "Int", "v": "0", "i": new_id()}
                newc = dict(p)
                if strip(p["lhs"]) is strip(u):
                    newc["lhs"], newc["rhs"] = kref(), _copy.deepcopy(E1)
                else:
                    newc["lhs"], newc["rhs"] = _copy.deepcopy(E1), kref()
                plan.append((p, newc))
            else:
                bad = True
                break
        if bad:
            continue
        # apply: replace nodes in place (dict identity is kept, contents swapped)
        for old, new in plan:
            old.clear()
            old.update(new)
        # steps: first becomes ++K / --K, the others vanish
        first = True
        for d, sgn, s_ in curs:
            node = byid.get(s_["i"])
            if first:
                node.clear()
                node.update({"k": "Un", "i": s_["i"], "l": s_.get("l"), "t": ktype, "op": "++" if sgn > 0 else "--", "e": kref()})
                first = False
            else:
                node.clear()
                node.update({"k": "Int", "i": s_["i"], "v": "0", "l": s_.get("l")})
        if where == "inc":
            # comma of (++K, 0, ...) -> ++K
            def first_un(n):
                n = strip(n)
                if n.get("k") == "Bin" and n.get("op") == ",":
                    return first_un(n["lhs"]) or first_un(n["rhs"])
                return n if n.get("k") == "Un" else None
            loop["inc"] = first_un(loop["inc"])
        else:
            b = loop.get("body")
            if b.get("k") == "Block":
                b["s"] = [x for x in b["s"] if not (strip(x).get("k") == "Int")]
        # declarations: the first cursor's declaration becomes `K = E0`, the others vanish

        def fix_decls(n):
            for key in ("s",):
                lst = n.get(key)
                if isinstance(lst, list):
                    out = []
                    for st in lst:
                        if st.get("k") == "Decl":
                            vs = []
                            for v in st.get("vars", []):
                                if v.get("d") == d0:
                                    vs.append({"k": "Var", "n": kname, "d": K, "t": ktype, "l": v.get("l"), "init": _copy.deepcopy(E0)})
                                elif v.get("d") in cds:
                                    continue
                                else:
                                    vs.append(v)
                            if not vs:
                                continue
                            st["vars"] = vs
                        out.append(st)
                    n[key] = out
            if n.get("k") == "For" and isinstance(n.get("init"), dict) and n["init"].get("k") == "Decl":
                vs = []
                for v in n["init"].get("vars", []):
                    if v.get("d") == d0:
                        vs.append({"k": "Var", "n": kname, "d": K, "t": ktype, "l": v.get("l"), "init": _copy.deepcopy(E0)})
                    elif v.get("d") not in cds:
                        vs.append(v)
                n["init"]["vars"] = vs
                if not vs:
                    n["init"] = None
            for c in kids(n):
                fix_decls(c)
        fix_decls(body)
        # end pointers that only served the rewritten comparisons
        live = {x.get("d") for x in walk(body) if x.get("k") == "Ref"}
        cds = {d for d in endptrs if d not in live}
        d0 = None
        if cds:
            fix_decls(body)
        done += 1
    if not done:
        return fn
    # deep-copied sub-expressions share node ids: renumber duplicates
    seen = set()
    for x in walk(body):
        if "i" in x:
            if x["i"] in seen:
                x["i"] = new_id()
            seen.add(x["i"])
    d2["body"] = body
    d2["cursors_normalised"] = done
    return Function(fn.facts, d2)


# -------------------------------------------------------------------------------------------------
# a guard in front of a call that repeats the callee's own early-out
# -------------------------------------------------------------------------------------------------

def _subject(n, view=None):
    """text of the object a presence / range test is about: smart-pointer wrappers (`.get()`, operator bool, *p) removed,
    named constants resolved"""
    n = view.value(n) if view is not None else strip(n)
    while True:
        if view is not None:
            n = view.value(n)
        if n.get("k") == "MCall" and n.get("n") in ("get", "operator bool") and n.get("obj") is not None and not n.get("a"):
            n = strip(n["obj"])
        elif n.get("k") in ("Construct", "TempObj") and len(n.get("a", [])) == 1:
            n = strip(n["a"][0])
        else:
            break
    return render(n)


def guard_nf(view, c, truth=True):
    """normal form of a simple guard: ('null', subject, is_null) | ('range', subject, lo, hi) with integer bounds (None =
    unbounded); None for anything else.  view may be None (no resolution of named constants)."""
    c = view.value(c) if view is not None else strip(c)
    k = c.get("k")
    if k == "Un" and c.get("op") == "!":
        return guard_nf(view, c["e"], not truth)
    if k in ("Construct", "TempObj") and len(c.get("a", [])) == 1:
        return guard_nf(view, c["a"][0], truth)
    if k == "MCall" and c.get("n") == "operator bool":
        return ("null", _subject(c, view), not truth)
    if (k == "Bin" or (k == "OpCall" and len(c.get("a", [])) == 2)) and c.get("op") in ("==", "!="):
        l_, r_ = (c["lhs"], c["rhs"]) if k == "Bin" else (c["a"][0], c["a"][1])
        for x, y in ((l_, r_), (r_, l_)):
            yv = strip(y)
            while yv.get("k") in ("Construct", "TempObj") and len(yv.get("a", [])) == 1:
                yv = strip(yv["a"][0])
            if yv.get("k") == "Null":
                return ("null", _subject(x, view), (c["op"] == "==") == truth)
    if k == "Bin" and c.get("op") in ("<", "<=", ">", ">="):
        for x, y, op in ((c["lhs"], c["rhs"], c["op"]), (c["rhs"], c["lhs"], {"<": ">", ">": "<", "<=": ">=", ">=": "<="}[c["op"]])):
            yv = view.value(y) if view is not None else strip(y)
            if yv.get("k") == "Int":
                v = int(yv["v"])
                if not truth:
                    op = NEG[op]
                lo, hi = {"<": (None, v - 1), "<=": (None, v), ">": (v + 1, None), ">=": (v, None)}[op]
                return ("range", _subject(x, view), lo, hi)
    if k in ("Ref", "Member", "MCall") and truth is not None:
        # a pointer / smart pointer used as a condition
        return ("null", _subject(c, view), not truth) if k != "MCall" or c.get("n") in ("get",) else None
    return None


def nf_negate(nf):
    if nf is None:
        return None
    if nf[0] == "null":
        return ("null", nf[1], not nf[2])
    lo, hi = nf[2], nf[3]
    if lo is None and hi is not None:
        return ("range", nf[1], hi + 1, None)
    if hi is None and lo is not None:
        return ("range", nf[1], None, lo - 1)
    return None


def callee_early_outs(callee):
    """[(condition node, ...)] of the leading `if(C) return;` statements of a function (after leading declarations are NOT
    skipped: the early-out must come first)"""
    out = []
    for st in callee.body.get("s", []):
        if st.get("k") == "If" and st.get("else") is None:
            t = st.get("then") or {}
            ts = t.get("s", []) if t.get("k") == "Block" else [t]
            if len(ts) == 1 and ts[0].get("k") == "Return" and (ts[0].get("e") is None or not _has_effects(ts[0]["e"])):
                out.append(st["c"])
                continue
        break
    return out


def callee_guarded_ifs(view, bydecl):
    """ids of `if(G) callee(args);` statements (no else, nothing else in the branch) whose guard G is the negation of one of
    the callee's own leading early-outs `if(C) return;` (with the arguments substituted): skipping the call there is the
    same as making it.  -> {if node id: call node}"""
    out = {}
    for n in walk(view.fn.body):
        if n.get("k") != "If" or n.get("else") is not None:
            continue
        t = n.get("then") or {}
        ts = t.get("s", []) if t.get("k") == "Block" else [t]
        if len(ts) != 1:
            continue
        call = strip(ts[0])
        if call.get("k") == "Assign" and call.get("op") == "=":
            call = strip(call["rhs"])
        if call.get("k") not in ("MCall", "Call"):
            continue
        cal = bydecl.get(call.get("cdecl"))
        if cal is None or cal.body is None or len(call.get("a", [])) != len(cal.params):
            continue
        g = guard_nf(view, n.get("c") or {})
        if g is None:
            continue
        sub = {p["d"]: a for p, a in zip(cal.params, call.get("a", []))}

        def bind(x):
            if isinstance(x, list):
                return [bind(y) for y in x]
            if not isinstance(x, dict):
                return x
            if x.get("k") == "Ref" and x.get("d") in sub:
                return view.value(sub[x["d"]])
            return {k2: bind(v2) for k2, v2 in x.items()}
        for c in callee_early_outs(cal):
            e = guard_nf(None, bind(c))
            if e is not None and nf_negate(e) == g:
                out[n["i"]] = call
                break
    return out


def without_skip_edges(fn, view, if_ids):
    """Function whose CFG lacks the edge that skips the then-branch of the given if statements"""
    if not if_ids:
        return fn
    cfg = copy.deepcopy(fn.d["cfg"])
    hit = 0
    for b in cfg["blocks"]:
        if b.get("term") == "IfStmt" and b.get("term_id") in if_ids and len(b.get("succ", [])) == 2:
            b["succ"] = [b["succ"][0], None]
            hit += 1
    if not hit:
        return fn
    d2 = dict(fn.d)
    d2["cfg"] = cfg
    return Function(fn.facts, d2)


# -------------------------------------------------------------------------------------------------
# a range-for over a small local table is the sequence of its iterations
# -------------------------------------------------------------------------------------------------

def unroll_const_range_for(fn, max_elems=4):
    """-> Function in which `for(auto& x : table)` over a never-written local array / initializer list with k <= max_elems
    elements `T table[k] = {e0, e1, ...}` is replaced by k copies of the loop body, copy j with `x` bound to ej (statement
    tree and CFG).  A two-entry table walked by a loop and the same two statements written out are the same program;
    rules that enumerate paths or resolve what `x` denotes need the latter form."""
    if fn.body is None or fn.cfg is None:
        return fn
    from mgfacts import FnView
    view = FnView(fn)
    cands = []
    for n in walk(fn.body):
        if n.get("k") != "ForRange" or not isinstance(n.get("var"), dict):
            continue
        r = view.value(n.get("range") or {})
        if r.get("k") != "InitList" or not (1 <= len(r.get("a", [])) <= max_elems):
            continue
        if view.writes.get(n["var"].get("d")):
            continue
        if any(x.get("k") == "ForRange" for x in walk(n.get("body") or {})):
            continue
        cands.append((n, r["a"]))
    if not cands:
        return fn
    body = copy.deepcopy(fn.body)
    cfg = copy.deepcopy(fn.d["cfg"])
    blocks = {b["id"]: b for b in cfg["blocks"]}
    byid = {x["i"]: x for x in walk(body) if "i" in x}
    parent = {}
    for x in walk(body):
        for c in kids(x):
            if "i" in c:
                parent[c["i"]] = x
    nid = [max(_max_id(body), max([e for b in cfg["blocks"] for e in b["el"]] + [0])) + 1]
    nblk = [max(blocks) + 1]

    def new_id():
        nid[0] += 1
        return nid[0] - 1

    def fresh(node):
        if isinstance(node, list):
            return [fresh(x) for x in node]
        if not isinstance(node, dict):
            return node
        return {k: (new_id() if k == "i" and isinstance(v, int) else fresh(v)) for k, v in node.items()}
    done = 0
    for n0, elems in cands:
        loop = byid.get(n0["i"])
        H = next((b for b in blocks.values() if b.get("term") == "CXXForRangeStmt" and b.get("term_id") == n0["i"]), None)
        if loop is None or H is None or len(H.get("succ", [])) != 2 or H["succ"][0] is None or H["succ"][1] is None:
            continue
        B0, X = H["succ"]
        # body blocks: reachable from B0 without passing H
        bset, todo = set(), [B0]
        while todo:
            b = todo.pop()
            if b in bset or b == H["id"] or b == cfg["exit"] or b not in blocks:
                continue
            bset.add(b)
            todo += [s for s in blocks[b].get("succ", []) if s is not None]
        if X in bset:
            continue
        lbody = loop.get("body") or {"k": "Block", "s": []}
        var = loop["var"]
        local_decls = {x["d"] for x in walk(lbody) if x.get("k") == "Var" and "d" in x}
        copies_tree = []
        entries = []
        maxi = _max_id(lbody)
        mini_blocks = {b: blocks[b] for b in bset}
        for j, el in enumerate(elems):
            off = nid[0]
            nid[0] += maxi + 2
            dmap = {d: next(_fresh_decl) for d in local_decls}
            vd = next(_fresh_decl)
            dmap[var["d"]] = vd

            def clone(x):
                if isinstance(x, list):
                    return [clone(y) for y in x]
                if not isinstance(x, dict):
                    return x
                out = {}
                for k2, v2 in x.items():
                    if k2 == "i" and isinstance(v2, int):
                        out[k2] = v2 + off
                    elif k2 == "d" and x.get("k") in ("Ref", "Var") and v2 in dmap:
                        out[k2] = dmap[v2]
                    else:
                        out[k2] = clone(v2) if isinstance(v2, (dict, list)) else v2
                return out
            decl = {"k": "Decl", "i": new_id(), "l": loop.get("l"), "vars": [
                {"k": "Var", "n": "%s_%d" % (var.get("n"), j), "d": vd, "t": var.get("t"), "l": loop.get("l"), "ref": True, "const": True, "init": fresh(el), "unrolled": True}]}
            cb = clone(lbody)
            copies_tree.append({"k": "Block", "i": new_id(), "l": loop.get("l"), "s": [decl] + (cb.get("s", []) if cb.get("k") == "Block" else [cb]), "iteration": j})
            base = nblk[0]
            nblk[0] += max(bset) + 2
            entries.append((base, off, decl["i"]))
        # CFG copies
        for j, (base, off, decl_id) in enumerate(entries):
            nxt = (entries[j + 1][0] + B0) if j + 1 < len(entries) else X
            for b in bset:
                ob = blocks[b]
                nb = {"id": base + b, "el": ([decl_id] if b == B0 else []) + [e + off if e in byid and _in(byid[e], lbody) else e for e in ob["el"]],
                      "succ": [None if s is None else (nxt if s == H["id"] else (base + s if s in bset else s)) for s in ob.get("succ", [])]}
                for key in ("term", "noreturn"):
                    if key in ob:
                        nb[key] = ob[key]
                for key in ("term_id", "cond", "label"):
                    if isinstance(ob.get(key), int):
                        nb[key] = ob[key] + off if ob[key] in byid and _in(byid[ob[key]], lbody) else ob[key]
                blocks[nb["id"]] = nb
        for b in bset:
            del blocks[b]
        H.pop("term", None)
        H.pop("term_id", None)
        H.pop("cond", None)
        H["succ"] = [entries[0][0] + B0]
        # tree
        newnode = {"k": "Block", "i": loop["i"], "l": loop.get("l"), "s": copies_tree, "unrolled": len(elems)}
        loop.clear()
        loop.update(newnode)
        done += 1
    if not done:
        return fn
    d2 = dict(fn.d)
    d2["body"] = body
    cfg["blocks"] = [blocks[b] for b in sorted(blocks)]
    d2["cfg"] = cfg
    return Function(fn.facts, d2)


def _in(node, root, _cache={}):
    key = id(root)
    if key not in _cache or _cache[key][0] is not root:
        _cache.clear()
        _cache[key] = (root, {id(x) for x in walk(root)})
    return id(node) in _cache[key][1]


# -------------------------------------------------------------------------------------------------
# factories forward every parameter
# -------------------------------------------------------------------------------------------------

def factory_forwarding(view, ctors):
    """analyse a factory function `new_x(p1, ..., pn) { return std::make_shared<T>(a1, ..., am); }` (also `new T(...)`,
    `T(...)`): -> list of (kind, text) problems and a description.
    kind 'dropped': a parameter of the factory is not used at all; 'slot': an argument that is a plain parameter is received by
    a constructor parameter of another name; 'unknown': not decidable (no construction found / constructor not identified).
    ctors: candidate constructor Functions of the constructed class."""
    f = view.fn
    sites = []
    for n in walk(f.body):
        if n.get("k") == "Call" and (n.get("callee") or "").endswith("make_shared"):
            sites.append(n)
        elif n.get("k") in ("New",) and n.get("a") is not None:
            sites.append(n)
    if not sites:
        sites = [n for n in walk(f.body) if n.get("k") in ("Construct", "TempObj") and len(n.get("a", [])) >= 1 and any(c.cls == (n.get("ccls") or "") for c in ctors)]
    if len(sites) != 1:
        return [("unknown", "%d construction sites of the product found" % len(sites))], ""
    site = sites[0]
    args = site.get("a", [])
    pds = {p["d"] for p in f.params}

    def params_in(n, depth=0):
        """parameters an expression is computed from, through never-written locals"""
        out = set()
        for x in walk(n or {}):
            if x.get("k") == "Ref" and x.get("d") in pds:
                out.add(x["d"])
            elif x.get("k") == "Ref" and x.get("dk") == "local" and view.is_const_local(x["d"]) and depth < 6:
                out |= params_in(view.locals[x["d"]]["init"], depth + 1)
        return out
    # a parameter is forwarded if it flows into the construction, or into a call on the product (a setter after construction)
    forwarded = set()
    for a in args:
        forwarded |= params_in(a)
    product = {d for d, var in view.locals.items() if var.get("init") is not None and any(x is site or x.get("i") == site.get("i") for x in walk(var["init"]))}
    other_use = set()
    for x in walk(f.body):
        if x.get("k") in ("MCall", "Call", "OpCall", "Construct", "TempObj") and x is not site:
            recv = x.get("obj")
            on_product = recv is not None and any(y.get("k") == "Ref" and y.get("d") in product for y in walk(recv))
            ps = set()
            for a in x.get("a", []):
                ps |= params_in(a)
            if on_product:
                forwarded |= ps
            elif not (x.get("callee") or "").endswith("FEAT::assertion") and not any(y is x for a in args for y in walk(a)):
                other_use |= ps
    problems = []
    for p in f.params:
        if not p.get("n") or p["d"] in forwarded:
            continue
        if p["d"] in other_use:
            problems.append(("unknown", "parameter `%s` does not reach the construction of the product but is handed to another call, which is not modelled" % p["n"]))
        else:
            problems.append(("dropped", "parameter `%s` does not reach the product: it is built without it (the constructor's default / a constant takes its place)" % p["n"]))
    def arg_param(a):
        av = view.value(a)
        while av.get("k") in ("Construct", "TempObj") and len(av.get("a", [])) == 1:
            av = view.value(av["a"][0])
        if av.get("k") == "Call" and (av.get("callee") or "").endswith(("std::move", "std::forward")) and av.get("a"):
            av = view.value(av["a"][0])
        return av if av.get("k") == "Ref" and av.get("dk") == "param" else None
    norm = lambda s_: (s_ or "").strip("_").lower()
    cands = [c for c in ctors if len(c.params) >= len(args)]
    exact = [c for c in ctors if len(c.params) == len(args)]
    pool = exact or cands
    if not pool:
        return problems + [("unknown", "no constructor with >= %d parameters found" % len(args))], render(site)[:120]
    # overloads of equal arity: the one whose parameter names agree best with the arguments is the one overload resolution
    # picks in every case of interest (same-named slots have the same types)

    def score(c):
        return sum(1 for k, a in enumerate(args) if arg_param(a) is not None and k < len(c.params) and norm(arg_param(a).get("n")) == norm(c.params[k]["n"]))
    pool = sorted(pool, key=lambda c: (-score(c), len(c.params)))
    ctor = pool[0]
    for k, a in enumerate(args):
        av = view.value(a)
        while av.get("k") in ("Construct", "TempObj") and len(av.get("a", [])) == 1:
            av = view.value(av["a"][0])
        if av.get("k") == "Call" and (av.get("callee") or "").endswith(("std::move", "std::forward")) and av.get("a"):
            av = view.value(av["a"][0])
        if av.get("k") == "Ref" and av.get("dk") == "param" and k < len(ctor.params):
            pn, cn = av.get("n"), ctor.params[k]["n"]
            if cn and norm(pn) != norm(cn) and norm(pn) not in norm(cn) and norm(cn) not in norm(pn):
                # a differently named slot is only suspicious if a slot of the argument's own name exists elsewhere
                if any(norm(c2["n"]) == norm(pn) for c2 in ctor.params):
                    problems.append(("slot", "argument %d `%s` is received by constructor parameter `%s`, while the constructor has a parameter `%s` at another position" % (k + 1, pn, cn, pn)))
    return problems, "%s -> %s(%s)" % (render(site)[:60], ctor.name, ", ".join(p["n"] for p in ctor.params))


# -------------------------------------------------------------------------------------------------
# fall-through between non-empty cases of a switch
# -------------------------------------------------------------------------------------------------

def switch_fallthroughs(body):
    """[(switch node, label node of the case that is left, label node of the case that is entered)] for every place where
    control falls from a NON-EMPTY case group into the next label (`case a: case b:` — an empty group — is a shared label,
    not a fall-through).  Works on the statement tree only (also for uninstantiated templates)."""
    out = []

    def ends(st):
        """control cannot leave statement st by falling off its end"""
        if st is None:
            return False
        k = st.get("k")
        if k in ("Break", "Return", "Continue", "Throw"):
            return True
        if k == "Assign" and st.get("from_return"):
            return True         # `return e;` of an inlined helper (Inliner, mode 'multi'): control leaves the switch here
        if k in ("Call", "MCall") and (st.get("noreturn") or (st.get("callee") or "").endswith("FEAT::abortion")):
            return True
        if k == "Block":
            return bool(st.get("s")) and ends(st["s"][-1])
        if k == "If":
            return st.get("else") is not None and ends(st.get("then")) and ends(st["else"])
        if k in ("Case", "Default"):
            return isinstance(st.get("s"), dict) and ends(st["s"])
        return False
    for sw in walk(body):
        if sw.get("k") != "Switch":
            continue
        b = sw.get("body") or {}
        seq = b.get("s", []) if b.get("k") == "Block" else []
        cur_label, group = None, []
        for st in seq:
            if st.get("k") in ("Case", "Default"):
                if cur_label is not None:
                    stmts = group + ([cur_label["s"]] if isinstance(cur_label.get("s"), dict) and cur_label["s"].get("k") not in ("Case", "Default") else [])
                    nonempty = bool(group) or (isinstance(cur_label.get("s"), dict) and cur_label["s"].get("k") not in ("Case", "Default"))
                    last = group[-1] if group else cur_label
                    if nonempty and not ends(last):
                        out.append((sw, cur_label, st))
                # nested labels `case a: case b: stmt` are one label node with a label as sub-statement
                cur_label, group = st, []
            else:
                group.append(st)
    return out
