"""norm_c04: normal forms for the element-wise kernels of kernel/lafem/arch (used by C04; loop forms also by C03).

* fuse_while():   `T v(lo); while(v < hi) { body; ++v; }` and `T v(lo); for(; v < hi; ++v)` are the for loop they spell;
* loop_form():    one induction over [lo, hi) in any of its spellings - `v < hi` / `v != hi` / `hi > v` / `v <= hi - 1`, `++v` / `v++` / `v += 1`
                  / `v = v + 1`, several cursors advanced in lock step (`++px, ++py`), pointer cursors (`for(p = x; p != x + size;
                  ++p)`), and the reversed induction `for(v = hi; v > lo; --v)` (the body then addresses element v - 1);
* fold_continue(): `if(c) continue; rest` in a loop body is `if(!c) { rest }`;
* decision_leaves(): the top-level decision structure of a kernel body as a list of (literals, statements) - if / else-if
                  chains, early `return` instead of else, nested ifs, negated tests with swapped branches are the same leaves;
* alias_value():  three-valued value of a branch condition under an aliasing pattern of the array parameters (pointer
                  equalities, !, &&, ||, bool locals); `size == 0` shortcuts are recognised as such;
* partitions():   the aliasing patterns (set partitions) of the array parameters;
* inline_helpers(): statement-level inlining of helpers defined under kernel/lafem (arguments - arrays, scalars, lambdas -
                  substituted for the parameters, lambda calls beta-reduced), `if constexpr` folded, std::fill/copy as loops.
Unrecognised constructs raise lafem_roles.Unknown (the caller answers analysis-incomplete).
"""
from featlib import walk, render
from lafem_roles import Unknown, strip, is_zero, stmts


def _step(inc, general=False):
    """increment expression -> {decl id: +1 | -1} (lock-step comma chains allowed) or None; with general=True a variable may
    also advance by an arbitrary expression: {decl id: ('by', node)} for `v += e` / `v = v + e`"""
    inc = strip(inc) if inc is not None else None
    if inc is None:
        return None
    k = inc.get("k")
    if k == "Bin" and inc.get("op") == ",":
        a, b = _step(inc["lhs"], general), _step(inc["rhs"], general)
        if a is None or b is None or set(a) & set(b):
            return None
        a.update(b)
        return a
    if k == "Un" and inc.get("op") in ("++", "--"):
        e = strip(inc["e"])
        if e.get("k") == "Ref":
            return {e["d"]: 1 if inc["op"] == "++" else -1}
        return None
    if k == "Assign":
        t = strip(inc["lhs"])
        if t.get("k") != "Ref":
            return None
        r = strip(inc["rhs"])
        if inc.get("op") in ("+=", "-=") and r.get("k") == "Int" and int(r["v"]) == 1:
            return {t["d"]: 1 if inc["op"] == "+=" else -1}
        if inc.get("op") == "=" and r.get("k") == "Bin" and r.get("op") in ("+", "-"):
            x1, x2 = strip(r["lhs"]), strip(r["rhs"])
            if r["op"] == "+" and x1.get("k") == "Int":
                x1, x2 = x2, x1
            if x1.get("k") == "Ref" and x1.get("d") == t["d"] and x2.get("k") == "Int" and int(x2["v"]) == 1:
                return {t["d"]: 1 if r["op"] == "+" else -1}
            if general and r["op"] == "+":
                if not (x1.get("k") == "Ref" and x1.get("d") == t["d"]):
                    x1, x2 = x2, x1
                if x1.get("k") == "Ref" and x1.get("d") == t["d"] and not _mentions(x2, t["d"]):
                    return {t["d"]: ("by", x2)}
        if general and inc.get("op") == "+=" and not _mentions(r, t["d"]):
            return {t["d"]: ("by", r)}
    return None


def _mentions(n, d):
    return any(y.get("k") == "Ref" and y.get("d") == d for y in walk(n))


def fuse_while(sts):
    """statement list -> statement list in which `Decl v; while(c(v)) {...; step(v);}` and `Decl v; for(; c(v); step(v))`
    are replaced by the equivalent (synthetic) For node"""
    sts = list(sts)
    out = []
    for s in sts:
        k = s.get("k")
        cand = None
        if k == "While" and s.get("c") is not None:
            body = s["body"].get("s", []) if s.get("body") is not None and s["body"].get("k") == "Block" else [s.get("body")]
            body = [b for b in body if b is not None]
            if body and _step(body[-1]) and not any(y.get("k") == "Continue" for y in walk(s["body"])):
                cand = (s["c"], body[-1], {"k": "Block", "s": body[:-1], "l": s.get("l")})
        elif k == "For" and s.get("init") is None and s.get("c") is not None and s.get("inc") is not None and _step(s["inc"]):
            cand = (s["c"], s["inc"], s["body"])
        if cand is not None:
            c, inc, body = cand
            step = _step(inc)
            cvars = [y["d"] for y in walk(c) if y.get("k") == "Ref" and y.get("d") in step]
            # the declarations of the stepped variables: trailing statements of `out` (nothing between mentions them)
            decl_vars, take = [], []
            for j in range(len(out) - 1, -1, -1):
                p = out[j]
                if p.get("k") == "Decl" and all(v.get("d") in step and v.get("init") is not None for v in p.get("vars", [])):
                    decl_vars = list(p["vars"]) + decl_vars
                    take.append(j)
                    continue
                if any(_mentions(p, d) for d in step):
                    break
            if cvars and {v["d"] for v in decl_vars} == set(step):
                for j in take:
                    out.pop(j)
                out.append({"k": "For", "i": s.get("i"), "l": s.get("l"), "init": {"k": "Decl", "vars": decl_vars, "l": s.get("l")},
                            "c": c, "inc": inc, "body": body, "synthetic": True})
                continue
        out.append(s)
    return out


def fold_continue(sts):
    """loop body `if(c) continue; rest...` -> `if(!c) { rest... }` (early continue <-> nested if)"""
    sts = list(sts)
    for k, s in enumerate(sts):
        if s.get("k") == "If" and s.get("else") is None and [x.get("k") for x in stmts(s["then"])] == ["Continue"] and k + 1 < len(sts):
            rest = fold_continue(sts[k + 1:])
            return sts[:k] + [{"k": "If", "i": s.get("i"), "l": s.get("l"), "c": {"k": "Un", "op": "!", "e": s["c"], "l": s.get("l")},
                               "then": {"k": "Block", "s": rest, "l": s.get("l")}, "else": None, "synthetic": True}]
    return sts


def loop_form(n, cursors=False):
    """For node -> dict(var, lo, hi, hi_off, down, others={d: lo}, cursors={d: (start or None, step node)}) for one induction by
    steps of one, else None.
    up:   v runs lo, lo+1, ..., hi-1            (`v < hi` | `v != hi` | `hi > v` | `hi != v` | `v <= hi - 1`)
    down: v runs hi, hi-1, ..., lo+1            (`v > lo` | `v != lo` | `lo < v`): the body sees v-1 in [lo, hi)
    others: further variables declared in the header and advanced by one in lock step (pointer cursors);
    cursors (only with cursors=True): running positions advanced by a loop-invariant amount in the header (`pos += stride`),
    declared in the header (start given) or in front of the loop (start None: the caller takes their initialiser); in
    iteration k of an up loop such a variable holds start + k*step"""
    if n.get("k") != "For":
        return None
    init, c, inc = n.get("init"), n.get("c"), n.get("inc")
    if init is None or c is None or inc is None or init.get("k") != "Decl" or not init.get("vars"):
        return None
    step = _step(inc, general=cursors)
    if not step:
        return None
    vars_ = {v["d"]: v for v in init["vars"]}
    run = {d: st for d, st in step.items() if isinstance(st, tuple) or d not in vars_}
    if run and not cursors:
        return None
    for d in run:
        del step[d]
    if not step or set(vars_) - set(run) != set(step) or any(v.get("init") is None for v in vars_.values()):
        return None
    if len(set(step.values())) != 1:
        return None
    down = list(step.values())[0] < 0
    c = strip(c)
    if c.get("k") != "Bin" or c.get("op") not in ("<", ">", "!=", "<=", ">="):
        return None
    l, r, op = strip(c["lhs"]), strip(c["rhs"]), c["op"]
    if not (l.get("k") == "Ref" and l.get("d") in vars_):
        l, r = r, l
        op = {"<": ">", ">": "<", "!=": "!=", "<=": ">=", ">=": "<="}[op]
    if not (l.get("k") == "Ref" and l.get("d") in vars_) or any(_mentions(r, d) for d in vars_):
        return None
    if (not down and op not in ("<", "!=", "<=")) or (down and op not in (">", "!=")):
        return None
    hi_off = 1 if op == "<=" else 0          # `v <= e` is `v < e + 1`
    d = l["d"]
    if d not in step:
        return None
    body = n.get("body")
    # the induction variables are not written in the body
    for y in walk(body):
        if y.get("k") == "Assign" and strip(y["lhs"]).get("k") == "Ref" and strip(y["lhs"]).get("d") in vars_:
            return None
        if y.get("k") == "Un" and y.get("op") in ("++", "--") and strip(y["e"]).get("k") == "Ref" and strip(y["e"]).get("d") in vars_:
            return None
    start = strip(vars_[d]["init"])
    others = {d2: strip(v["init"]) for d2, v in vars_.items() if d2 != d and d2 not in run}
    curs = {}
    for d2, st in run.items():
        stn = st[1] if isinstance(st, tuple) else {"k": "Int", "v": str(st)}
        if any(_mentions(stn, dd) for dd in list(vars_) + list(run)) or _mentions(r, d2):
            return None
        for y in walk(body):
            if (y.get("k") == "Assign" and strip(y["lhs"]).get("k") == "Ref" and strip(y["lhs"]).get("d") == d2) or \
               (y.get("k") == "Un" and y.get("op") in ("++", "--", "&") and strip(y["e"]).get("k") == "Ref" and strip(y["e"]).get("d") == d2):
                return None
        curs[d2] = (strip(vars_[d2]["init"]) if d2 in vars_ else None, stn)
    if down:
        if curs:
            return None
        return {"var": d, "lo": r, "hi": start, "hi_off": 0, "down": True, "others": others, "cursors": curs, "vars": vars_}
    return {"var": d, "lo": start, "hi": r, "hi_off": hi_off, "down": False, "others": others, "cursors": curs, "vars": vars_}


def decision_leaves(body, limit=64):
    """top-level decision structure of a function body -> [(literals, statements)], literals = [(condition node, polarity)].
    `if(c) A else B`, `if(c) { A; return; } B`, chains and nesting give the same leaves."""
    out = []

    def go(sts, lits, acc):
        if len(out) > limit:
            raise Unknown("more than %d decision leaves" % limit)
        for idx, s in enumerate(sts):
            if s.get("k") == "If":
                rest = sts[idx + 1:]
                c = strip(s["c"])
                neg = False
                while c.get("k") == "Un" and c.get("op") == "!":
                    neg = not neg
                    c = strip(c["e"])
                if c.get("k") == "Bin" and c.get("op") in ("&&", "||"):
                    # if(A && B) T else E  =  if(A) { if(B) T else E } else E ;  if(A || B) T else E  =  if(A) T else { if(B) T else E }
                    T, E = s.get("then"), s.get("else")
                    if neg:
                        T, E = E, T
                    inner = {"k": "If", "l": s.get("l"), "c": c["rhs"], "then": T, "else": E}
                    if c["op"] == "&&":
                        outer = {"k": "If", "l": s.get("l"), "c": c["lhs"], "then": inner, "else": E}
                    else:
                        outer = {"k": "If", "l": s.get("l"), "c": c["lhs"], "then": T, "else": inner}
                    go([outer] + rest, lits, list(acc))
                    return
                go((stmts(s["then"]) if s.get("then") is not None else []) + rest, lits + [(s["c"], True)], list(acc))
                go((stmts(s["else"]) if s.get("else") is not None else []) + rest, lits + [(s["c"], False)], list(acc))
                return
            if s.get("k") in ("Switch", "Try", "Goto", "Label", "Do"):
                raise Unknown("%s statement at line %s" % (s["k"], s.get("l")))
            acc.append(s)
            if s.get("k") == "Return":
                break
        out.append((lits, acc))
    go(list(body), [], [])
    return out


def partitions(items):
    """all set partitions of items, the discrete one first; each as a list of blocks (lists, in parameter order)"""
    items = list(items)
    if not items:
        return [[]]
    res = []

    def rec(i, blocks):
        if i == len(items):
            res.append([list(b) for b in blocks])
            return
        for b in blocks:
            b.append(items[i])
            rec(i + 1, blocks)
            b.pop()
        blocks.append([items[i]])
        rec(i + 1, blocks)
        blocks.pop()
    rec(0, [])
    res.sort(key=lambda p: (-len(p), [tuple(b) for b in p]))
    return res


def pattern_label(p):
    multi = [b for b in p if len(b) > 1]
    return "general" if not multi else ",".join("==".join(b) for b in multi)


EMPTY, NONEMPTY = "empty", "nonempty"


def alias_value(cond, loc, ptr_params, pattern, size_name="size"):
    """value of a branch condition under an aliasing pattern: True | False | EMPTY | NONEMPTY (a test of size against 0) |
    None (not an aliasing test).  ptr_params: decl id -> name of the array parameters."""
    rep = {}
    for b in pattern:
        for x in b:
            rep[x] = b[0]

    def neg(v):
        return {True: False, False: True, EMPTY: NONEMPTY, NONEMPTY: EMPTY}.get(v)

    def ev(n, depth=0):
        n = loc.resolve(n)
        if n is None or depth > 20:
            return None
        k = n.get("k")
        if k == "Bool":
            return bool(n["v"])
        if k == "Un" and n.get("op") == "!":
            return neg(ev(n["e"], depth + 1))
        if k == "Bin" and n.get("op") in ("&&", "||"):
            a, b = ev(n["lhs"], depth + 1), ev(n["rhs"], depth + 1)
            dom = n["op"] == "||"
            if a is dom or b is dom:
                return dom
            if a is (not dom) and b is (not dom):
                return not dom
            if a is (not dom):
                return b
            if b is (not dom):
                return a
            return None
        if k == "Bin" and n.get("op") in ("==", "!=", "<", ">", "<=", ">="):
            a, b = loc.resolve(n["lhs"]), loc.resolve(n["rhs"])
            if n["op"] in ("==", "!="):
                if a.get("k") == "Ref" and b.get("k") == "Ref" and a.get("d") in ptr_params and b.get("d") in ptr_params:
                    same = rep[ptr_params[a["d"]]] == rep[ptr_params[b["d"]]]
                    return same == (n["op"] == "==")
                for x, y in ((a, b), (b, a)):
                    if y.get("k") == "Bool":
                        v = ev(x, depth + 1)
                        return v if (bool(y["v"]) == (n["op"] == "==")) else neg(v)
            # size against a literal
            op = n["op"]
            if b.get("k") == "Ref" and b.get("dk") == "param" and b.get("n") == size_name:
                a, b = b, a
                op = {"<": ">", ">": "<", "<=": ">=", ">=": "<=", "==": "==", "!=": "!="}[op]
            if a.get("k") == "Ref" and a.get("dk") == "param" and a.get("n") == size_name and b.get("k") == "Int":
                v = int(b["v"])
                if (op, v) in (("==", 0), ("<", 1), ("<=", 0)):
                    return EMPTY
                if (op, v) in (("!=", 0), (">", 0), (">=", 1)):
                    return NONEMPTY
            return None
        if k == "Ref" and n.get("dk") == "param" and n.get("n") == size_name:
            return NONEMPTY
        return None
    return ev(cond)


PURE_CALLS = ("FEAT::Math::abs", "FEAT::Math::eps", "FEAT::Math::sqr", "FEAT::Math::sqrt", "FEAT::Math::min", "FEAT::Math::max",
              "FEAT::Math::tiny", "FEAT::Math::huge", "std::abs", "std::fabs", "std::numeric_limits::epsilon", "std::numeric_limits::min")


def scalar_guard(cond, loc, scalar_params):
    """a branch condition over the scalar parameters only (scalar_params: decl id -> name) ->
         ('eq', name, value)   the condition is `name == value` (value a number)
         ('ne', name, value)   the condition is `name != value`
         ('region', text)      any other side-effect free test of scalar parameters / constants (|a| < tol, a > 0, ...)
       None if the condition reads anything else."""
    from lafem_roles import const_value, strip_targs
    n = loc.resolve(cond)
    neg = False
    while n is not None and n.get("k") == "Un" and n.get("op") == "!":
        neg = not neg
        n = loc.resolve(n["e"])
    if n is None:
        return None
    if n.get("k") == "Bin" and n.get("op") in ("==", "!="):
        a, b = loc.resolve(n["lhs"]), loc.resolve(n["rhs"])
        for x, y in ((a, b), (b, a)):
            if x.get("k") == "Ref" and x.get("d") in scalar_params:
                v = const_value(loc, y)
                if v is not None:
                    eq = (n["op"] == "==") != neg
                    return ("eq" if eq else "ne", scalar_params[x["d"]], v)
    for y in walk(n):
        k = y.get("k")
        if k == "Ref":
            if y.get("d") in scalar_params or "v" in y or y.get("dk") in ("enum", "func", "tparam"):
                continue
            r = loc.resolve(y)
            if r is not y and r.get("k") != "Ref":
                if scalar_guard_pure(r, loc, scalar_params):
                    continue
            return None
        if k in ("Call",):
            if strip_targs(y.get("callee", "")) not in PURE_CALLS:
                return None
        elif k in ("MCall", "OpCall", "Assign", "Index", "Member", "Lambda", "New", "Delete") or (k == "Un" and y.get("op") in ("++", "--", "*", "&")):
            return None
    return ("region", ("!" if neg else "") + render(n))


def scalar_guard_pure(n, loc, scalar_params):
    return scalar_guard(n, loc, scalar_params) is not None


def array_units(fn, loc, call, blocked_classes):
    """a library array routine (MemoryPool::set_memory / copy / convert: `count` elements of the pointee type) called with value
    arrays of LAFEM containers -> (units of the pointer arguments, unit of the count, description) where a unit is
    'scalar' (pod perspective of a blocked container, or any array of a scalar container), 'block' (native perspective of a
    blocked container), 'const' (literal count) or None (not modelled).  Pointer arguments may carry an offset (`p + k`)."""
    from lafem_roles import accessor, const_value, strip_targs
    pn, args = call.get("pn", []), call.get("a", [])
    if len(pn) != len(args) or "count" not in pn:
        return None
    ptr_units, desc = [], []
    for slot, a in zip(pn, args):
        if slot == "count":
            continue
        r = loc.resolve(a)
        while r.get("k") == "Bin" and r.get("op") in ("+", "-"):
            r = loc.resolve(r["lhs"])
        acc = accessor(loc, r)
        if acc is None or acc["name"] not in ("val", "elements"):
            continue
        blocked = strip_targs(acc["cls"]) in blocked_classes
        u = "scalar" if (not blocked or acc["persp"] == "pod") else "block"
        ptr_units.append(u)
        desc.append("%s.%s<%s>()" % (acc["obj"], acc["name"], acc["persp"] or ("native" if blocked else "-")))
    if not ptr_units:
        return None
    cnt = args[pn.index("count")]
    cu = None
    if const_value(loc, cnt) is not None:
        cu, cdesc = "const", render(cnt)
    else:
        acc = accessor(loc, cnt)
        if acc is not None and acc["name"] in ("used_elements", "size", "allocated_elements", "rows", "columns"):
            blocked = strip_targs(acc["cls"]) in blocked_classes
            cu = "scalar" if (not blocked or acc["persp"] == "pod") else "block"
            cdesc = "%s.%s<%s>()" % (acc["obj"], acc["name"], acc["persp"] or ("native" if blocked else "-"))
        else:
            cdesc = render(cnt)[:60]
    return ptr_units, cu, "%s with count %s" % (", ".join(desc), cdesc)


# =====================================================================================================
# helper inlining on the statement trees (helpers with status/values, lambdas bound to parameters), `if constexpr`
# folding and standard algorithms as the loops they stand for -> a synthetic Function the kernel rules can read
# =====================================================================================================
import copy as _copy
import itertools as _itertools

_fresh = _itertools.count(10 ** 9)


def subst(node, mapping, rename=None):
    """deep copy of a fact tree in which every Ref to a decl id in `mapping` is replaced by (a copy of) mapping[d] and
    local decl ids are renamed by `rename` (decl id -> fresh decl id)"""
    rename = rename or {}
    if isinstance(node, list):
        return [subst(x, mapping, rename) for x in node]
    if not isinstance(node, dict):
        return node
    if node.get("k") == "Ref" and node.get("d") in mapping:
        return _copy.deepcopy(mapping[node["d"]])
    out = {}
    for k, v in node.items():
        out[k] = subst(v, mapping, rename) if isinstance(v, (dict, list)) else v
    if out.get("k") in ("Ref", "Var") and out.get("d") in rename:
        out["d"] = rename[out["d"]]
    return out


def _written_decls(body):
    w = set()
    for y in walk(body):
        k = y.get("k")
        if k == "Assign" and strip(y["lhs"]).get("k") == "Ref":
            w.add(strip(y["lhs"])["d"])
        elif k == "Un" and y.get("op") in ("++", "--", "&") and strip(y["e"]).get("k") == "Ref":
            w.add(strip(y["e"])["d"])
    return w


def fold_constexpr(sts):
    """`if constexpr` with a literal condition (instantiated templates) -> the statements of the live branch"""
    out = []
    for s in sts:
        if s.get("k") == "If" and s.get("constexpr") and strip(s["c"]).get("k") == "Bool":
            br = s.get("then") if strip(s["c"])["v"] else s.get("else")
            if br is not None and br.get("k") != "Null_":
                out.extend(fold_constexpr(stmts(br)))
            continue
        out.append(s)
    return out


def algorithm_loop(s):
    """expression statement that calls std::fill / std::fill_n / std::copy / std::copy_n -> the (synthetic) for loop it stands for"""
    if s.get("k") != "Call" or s.get("callee") not in ("std::fill", "std::fill_n", "std::copy", "std::copy_n") or len(s.get("a", [])) != 3:
        return None
    a = s["a"]
    d = next(_fresh)
    l = s.get("l")
    t = {"k": "Ref", "n": "_k", "d": d, "dk": "local", "l": l}
    if s["callee"] == "std::fill":
        cnt, tgt, val = {"k": "Bin", "op": "-", "lhs": a[1], "rhs": a[0], "l": l}, a[0], a[2]
    elif s["callee"] == "std::fill_n":
        cnt, tgt, val = a[1], a[0], a[2]
    elif s["callee"] == "std::copy":
        cnt, tgt, val = {"k": "Bin", "op": "-", "lhs": a[1], "rhs": a[0], "l": l}, a[2], {"k": "Index", "b": a[0], "idx": dict(t), "l": l}
    else:
        cnt, tgt, val = a[1], a[2], {"k": "Index", "b": a[0], "idx": dict(t), "l": l}
    return {"k": "For", "l": l, "i": s.get("i"), "synthetic": True,
            "init": {"k": "Decl", "l": l, "vars": [{"k": "Var", "n": "_k", "d": d, "l": l, "init": {"k": "Int", "v": "0", "l": l}}]},
            "c": {"k": "Bin", "op": "<", "lhs": dict(t), "rhs": cnt, "l": l},
            "inc": {"k": "Un", "op": "++", "e": dict(t), "l": l},
            "body": {"k": "Block", "l": l, "s": [{"k": "Assign", "op": "=", "lhs": {"k": "Index", "b": tgt, "idx": dict(t), "l": l}, "rhs": val, "l": l}]}}


def inline_helpers(fn, max_depth=3):
    """-> a Function whose body has (a) calls to helpers defined under kernel/lafem inlined as statements (parameters replaced by
    the argument expressions - arrays, scalars, lambdas -; locals renamed; a value-returning helper must end in its only
    return), (b) calls of lambdas beta-reduced (single-return lambdas), (c) `if constexpr` folded, (d) std::fill/copy as loops.
    Returns fn itself when nothing changes.  Helpers that write their parameters, generic lambdas (only the pattern is
    dumped) and recursive helpers are left alone - the caller's rule then reports the call as not modelled."""
    import featlib
    prog = {}
    for f in fn.facts.functions:
        if f.tk != "pattern" and f.body is not None and f.d.get("decl") is not None:
            prog.setdefault(f.d["decl"], f)
    changed = [False]

    def callee_of(c, stack):
        if c.get("k") != "Call" or c.get("noreturn"):
            return None
        f = prog.get(c.get("cdecl"))
        if f is None or f is fn or f in stack or "/kernel/lafem/" not in (f.file or "") or len(stack) >= max_depth:
            return None
        if len(f.params) != len(c.get("a", [])) or f.d.get("virtual"):
            return None
        if _written_decls(f.body) & {p["d"] for p in f.params}:
            return None
        body = fold_constexpr(stmts(f.body))
        rets = [y for y in walk({"k": "Block", "s": body}, prune=lambda x: x.get("k") == "Lambda") if y.get("k") == "Return"]
        if len(rets) > 1 or (rets and rets[0] is not body[-1]):
            return None
        for a in c["a"]:
            if any(y.get("k") == "Assign" or (y.get("k") == "Un" and y.get("op") in ("++", "--")) for y in walk(a, prune=lambda x: x.get("k") == "Lambda")):
                return None
        return f

    def beta(n):
        """calls of lambdas: `[..](T p){ return e; }(a)` -> e[p := a]"""
        if isinstance(n, list):
            return [beta(x) for x in n]
        if not isinstance(n, dict):
            return n
        n = {k: (beta(v) if isinstance(v, (dict, list)) else v) for k, v in n.items()}
        if n.get("k") == "OpCall" and n.get("op") == "()" and n.get("a") and strip(n["a"][0]).get("k") == "Lambda":
            lam = strip(n["a"][0])
            op = prog.get(lam.get("op_decl"))
            b = stmts(lam.get("body"))
            if op is not None and len(b) == 1 and b[0].get("k") == "Return" and b[0].get("e") is not None and len(op.params) == len(n["a"]) - 1:
                changed[0] = True
                return beta(subst(b[0]["e"], {p["d"]: a for p, a in zip(op.params, n["a"][1:])}))
        return n

    def expand(sts, stack):
        out = []
        for s in fold_constexpr(sts):
            k = s.get("k")
            if k == "Block":
                out.extend(expand(s.get("s", []), stack))
                continue
            if k in ("For", "While", "Do", "ForRange") and s.get("body") is not None:
                s = dict(s)
                s["body"] = {"k": "Block", "l": s["body"].get("l"), "s": expand(stmts(s["body"]), stack)}
                out.append(s)
                continue
            if k == "If":
                s = dict(s)
                for br in ("then", "else"):
                    if s.get(br) is not None and s[br].get("k") != "Null_":
                        s[br] = {"k": "Block", "l": s[br].get("l"), "s": expand(stmts(s[br]), stack)}
                    elif s.get(br) is not None:
                        s[br] = None
                out.append(s)
                continue
            alg = algorithm_loop(s)
            if alg is not None:
                changed[0] = True
                out.append(alg)
                continue
            # one inlinable call inside a simple statement
            calls = [y for y in walk(s, prune=lambda x: x.get("k") == "Lambda") if y.get("k") == "Call" and callee_of(y, stack) is not None]
            if len(calls) == 1 and k in ("Return", "Decl", "Assign", "Call"):
                c = calls[0]
                f = callee_of(c, stack)
                body = fold_constexpr(stmts(f.body))
                rename = {y["d"]: next(_fresh) for y in walk({"k": "Block", "s": body}) if y.get("k") == "Var"}
                mapping = {p["d"]: a for p, a in zip(f.params, c["a"])}
                body = [beta(subst(b, mapping, rename)) for b in body]
                ret = body[-1] if body and body[-1].get("k") == "Return" else None
                pre = body[:-1] if ret is not None else body
                if s is c or (k == "Call" and strip(s) is c):
                    rest = []
                elif ret is not None and ret.get("e") is not None:
                    def repl(n):
                        if n is c:
                            return ret["e"]
                        if isinstance(n, dict):
                            return {kk: (repl(v) if isinstance(v, dict) else [repl(x) for x in v] if isinstance(v, list) else v) for kk, v in n.items()}
                        return n
                    rest = [repl(s)]
                else:
                    out.append(s)
                    continue
                changed[0] = True
                out.extend(expand(pre, stack + [f]))
                out.extend(rest)
                continue
            out.append(s)
        return out

    n_constexpr = sum(1 for y in walk(fn.body) if y.get("k") == "If" and y.get("constexpr"))
    body = beta(expand(stmts(fn.body), [fn]))
    if not changed[0] and not n_constexpr:
        return fn
    d2 = dict(fn.d)
    d2["body"] = {"k": "Block", "l": fn.body.get("l"), "s": body}
    d2.pop("cfg", None)
    d2["inlined"] = True
    return featlib.Function(fn.facts, d2)
