"""mgmodel: resolved view of the MultiGrid helper functions (C09).

Resolves, inside one function of Solver::MultiGrid, which *level* an object belongs to and which
*role* it plays, reading the member names of MultiGridHierarchy::LevelInfo (vec_rhs, vec_sol,
vec_def, vec_cor, vec_tmp) and the accessor names of MultiGridLevelBase (get_system_matrix,
get_system_filter, get_transfer_operator, get_smoother_pre/post/peak, get_coarse_solver), and turns
every statement that touches a level object into a normalised event.
"""
from mgfacts import FnView, strip, walk, kids
from featlib import render

VEC_FIELDS = ("rhs", "sol", "def", "cor", "tmp")
SMOOTHER_GETTERS = {"get_smoother_pre": "pre", "get_smoother_post": "post", "get_smoother_peak": "peak",
                    "get_coarse_solver": "coarse"}
HELPERS = ("_apply_rest", "_apply_prol", "_apply_smooth_peak", "_apply_smooth_def", "_apply_coarse",
           "_apply_cycle_v", "_apply_cycle_f", "_apply_cycle_w")
# number of parameters of the modelled helpers; an overload with another arity (a forwarding sibling) is not the event
HELPER_ARITY = {"_apply_rest": 2, "_apply_prol": 2, "_apply_smooth_peak": 1, "_apply_smooth_def": 2, "_apply_coarse": 0,
                "_apply_cycle_v": 0, "_apply_cycle_f": 0, "_apply_cycle_w": 0}


def is_this_member(n, name=None):
    n = strip(n)
    return n.get("k") == "Member" and strip(n.get("b") or {}).get("k") == "This" and (name is None or n.get("n") == name)


class MGView(FnView):
    """FnView + level/role resolution"""

    def __init__(self, fn, derived=None):
        super().__init__(fn)
        self.unknown = []       # constructs that could not be resolved (-> analysis incomplete)
        # members of the solver that cache a value computed from its configuration fields:
        # name -> (MGView of the defining function, defining expression); such a member denotes what it caches
        # (whether the cache is kept coherent is decided by rule E8.config-cache)
        self.derived = derived or {}

    # ---- level expressions ----------------------------------------------------------------------
    def is_last(self, n):
        """min(_crs_level, hierarchy->size_physical()): the coarsest level present on this process"""
        n = self.value(n)
        if n.get("k") == "Call" and n.get("callee", "").endswith("Math::min") and len(n.get("a", [])) == 2:
            a, b = [self.value(x) for x in n["a"]]
            for x, y in ((a, b), (b, a)):
                if is_this_member(x, "_crs_level") and y.get("k") == "MCall" and y.get("n") == "size_physical":
                    return True
        return False

    def level(self, n):
        """normal form of a level index expression: ('top',k) | ('crs',k) | ('last',k) | ('abs',k) | ('v', decl, k) | None"""
        n = self.value(n)
        k = n.get("k")
        if is_this_member(n) and n.get("n") in self.derived and getattr(self, "_in_derived", 0) < 3:
            dv, dexpr = self.derived[n["n"]]
            dv._in_derived = getattr(self, "_in_derived", 0) + 1
            try:
                return dv.level(dexpr)
            finally:
                dv._in_derived = 0
        if is_this_member(n, "_top_level"):
            return ("top", 0)
        if is_this_member(n, "_crs_level"):
            return ("crs", 0)
        if self.is_last(n):
            return ("last", 0)
        if k == "Int":
            return ("abs", int(n["v"]))       # a literal is an absolute level index
        if k == "Ref" and n.get("dk") in ("local", "param"):
            return ("v", n["d"], 0)
        if k == "Bin" and n.get("op") in ("+", "-"):
            l, r = self.value(n["lhs"]), self.value(n["rhs"])
            if r.get("k") == "Int":
                b = self.level(l)
                if b is not None:
                    off = int(r["v"]) * (1 if n["op"] == "+" else -1)
                    return b[:-1] + (b[-1] + off,)
            if l.get("k") == "Int" and n["op"] == "+":
                b = self.level(r)
                if b is not None:
                    return b[:-1] + (b[-1] + int(l["v"]),)
        return None

    def level_name(self, lv):
        if lv is None:
            return "?"
        if lv[0] == "v":
            d = lv[1]
            nm = (self.locals.get(d) or self.params.get(d) or {}).get("n", "v%d" % d)
            return nm + ("%+d" % lv[2] if lv[2] else "")
        if lv[0] == "abs":
            return "%d" % lv[1]
        return lv[0] + ("%+d" % lv[1] if lv[1] else "")

    # ---- objects ----------------------------------------------------------------------------------
    def obj(self, n, depth=0):
        """('lvl',L) | ('lvlptr',L) | ('vec',L,field) | ('mat',L) | ('fil',L) | ('tra',L) | ('smo',L,kind)
        | ('param',name) | None"""
        if depth > 12 or not isinstance(n, dict):
            return None
        n = strip(n)
        k = n.get("k")
        if k == "Ref":
            if n.get("dk") == "param":
                return ("param", n["n"])
            if n.get("dk") == "local":
                v = self.locals.get(n["d"])
                if v is None or self.writes.get(n["d"]) or v.get("init") is None:
                    return None
                return self.obj(v["init"], depth + 1)
            return None
        if k == "Member":
            b = n.get("b")
            nm = n.get("n", "")
            if b is not None and strip(b).get("k") != "This":
                o = self.obj(b, depth + 1)
                if o and o[0] == "lvl":
                    if nm.startswith("vec_") and nm[4:] in VEC_FIELDS:
                        return ("vec", o[1], nm[4:])
                    if nm == "level":
                        return ("lvlptr", o[1])
                    return ("lvlfield", o[1], nm)
            return None
        if k == "MCall":
            nm = n.get("n")
            if nm == "_get_level_info" and len(n.get("a", [])) == 1:
                return ("lvl", self.level(n["a"][0]))
            o = self.obj(n.get("obj"), depth + 1) if n.get("obj") is not None else None
            if o and o[0] == "lvlptr":
                if nm == "get_system_matrix":
                    return ("mat", o[1])
                if nm == "get_system_filter":
                    return ("fil", o[1])
                if nm == "get_transfer_operator":
                    return ("tra", o[1])
                if nm in SMOOTHER_GETTERS:
                    return ("smo", o[1], SMOOTHER_GETTERS[nm])
            if nm == "get" and o is not None:
                return o
            return None
        if k == "OpCall" and n.get("op") in ("->", "*") and n.get("a"):
            return self.obj(n["a"][0], depth + 1)
        if k == "Un" and n.get("op") in ("*", "&"):
            return self.obj(n["e"], depth + 1)
        if k in ("Construct", "TempObj") and len(n.get("a", [])) == 1:
            # copy / move construction of a handle (shared_ptr passed or stored by value) denotes the same object
            return self.obj(n["a"][0], depth + 1)
        if k == "Call" and n.get("callee", "").endswith("std::move") and len(n.get("a", [])) == 1:
            return self.obj(n["a"][0], depth + 1)
        return None

    def mentions_level_obj(self, n):
        for x in walk(n):
            if x.get("k") in ("Ref", "Member", "MCall"):
                o = self.obj(x)
                if o is not None and o[0] in ("vec", "mat", "fil", "tra", "smo", "lvl", "lvlptr"):
                    return True
        return False

    def role(self, n):
        """short role text of an operand: 'def@i', 'sol@i+1', 'param:vec_def', '?'"""
        o = self.obj(n)
        if o is None:
            return "?"
        if o[0] == "vec":
            return "%s@%s" % (o[2], self.level_name(o[1]))
        if o[0] == "param":
            return "param:" + o[1]
        if o[0] == "smo":
            return "%s-smoother@%s" % (o[2], self.level_name(o[1]))
        return "%s@%s" % (o[0], self.level_name(o[1]))


def args_by_name(call):
    pn = call.get("pn") or []
    a = call.get("a") or []
    return {pn[i] if i < len(pn) else "#%d" % i: a[i] for i in range(len(a))}


def neg_of(view, n):
    """if n is `-x` return x (value-resolved), else None"""
    n = view.value(n)
    if n.get("k") == "Un" and n.get("op") == "-" and not n.get("post"):
        return view.value(n["e"])
    if n.get("k") == "OpCall" and n.get("op") == "-" and len(n.get("a", [])) == 1:
        return view.value(n["a"][0])
    return None


def is_one(view, n):
    n = view.value(n)
    return n.get("k") in ("Int", "Float") and float(n.get("v")) == 1.0


def classify(view, sid):
    """event of the statement with id sid, or None if it does not touch level objects.
    Events are dicts: kind + operands (resolved objects) + 'n' (node)."""
    n = view.byid.get(sid)
    if n is None:
        return None
    k = n.get("k")
    if k == "MCall":
        nm = n.get("n")
        recv = view.obj(n.get("obj")) if n.get("obj") is not None else None
        thisrecv = n.get("obj") is None or strip(n.get("obj")).get("k") == "This"
        av = args_by_name(n)
        if thisrecv and nm in HELPERS and len(n.get("a", [])) != HELPER_ARITY[nm]:
            return {"kind": "unknown", "n": n, "why": "call of the overload %s/%d, which is not the modelled helper" % (nm, len(n.get("a", [])))}
        if thisrecv and nm in HELPERS:
            a = n.get("a", [])
            ev = {"kind": "helper", "helper": nm, "n": n}
            if nm == "_apply_coarse":
                return ev
            ev["level"] = view.level(a[0]) if a else None
            if a and ev["level"] is None:
                o0 = view.obj(a[0])
                if o0 is not None and o0[0] == "lvl":
                    ev["level"] = o0[1]       # sibling overload taking the LevelInfo object of the level
            ev["level_node"] = a[0] if a else None
            if nm in ("_apply_rest", "_apply_prol"):
                f = view.value(a[1]) if len(a) > 1 else {}
                ev["flag"] = f.get("v") if f.get("k") == "Bool" else None
                ev["flag_node"] = a[1] if len(a) > 1 else None
            if nm == "_apply_smooth_def":
                ev["smoother"] = view.obj(a[1]) if len(a) > 1 else None
                ev["smoother_node"] = a[1] if len(a) > 1 else None
            return ev
        if thisrecv and nm not in HELPERS and nm not in ("name",):
            # an unmodelled member function may do any part of the work (extracted private helper)
            return {"kind": "unknown", "n": n, "why": "call of the member function %s(), whose effect on the level vectors is not modelled" % nm}
        if recv is None:
            # copy of a level vector into a parameter etc. is caught below through the operands
            if nm in ("copy",) and n.get("obj") is not None and any(view.obj(x) for x in n.get("a", [])[:1]):
                return {"kind": "copy", "dst": None, "src": view.obj(n["a"][0]), "n": n, "dst_node": n["obj"], "src_node": n["a"][0]}
            if view.mentions_level_obj(n) and nm not in ("_get_level_info",):
                return {"kind": "unknown", "n": n, "why": "call %s on an unresolved receiver with level operands" % nm}
            return None
        rk = recv[0]
        if rk in ("lvl", "lvlptr"):
            return None     # accessor calls on the level object itself are resolved by obj()
        if rk in ("smo",) or (rk == "param" and nm == "apply" and "vec_cor" in av):
            if nm == "apply" and "vec_cor" in av and "vec_def" in av:
                return {"kind": "smooth", "smoother": recv, "cor": view.obj(av["vec_cor"]), "def": view.obj(av["vec_def"]),
                        "n": n, "cor_node": av["vec_cor"], "def_node": av["vec_def"]}
            if nm in ("name", "operator bool", "get"):
                return None
            return {"kind": "unknown", "n": n, "why": "smoother method %s" % nm}
        if rk == "mat":
            if nm == "apply" and len(n.get("a", [])) == 4 and set(av) >= {"r", "x", "y", "alpha"}:
                return {"kind": "defect", "mat": recv, "r": view.obj(av["r"]), "x": view.obj(av["x"]), "y": view.obj(av["y"]),
                        "alpha": av["alpha"], "n": n, "nodes": av}
            if nm == "apply" and len(n.get("a", [])) == 2 and set(av) >= {"r", "x"}:
                return {"kind": "matvec", "mat": recv, "r": view.obj(av["r"]), "x": view.obj(av["x"]), "n": n, "nodes": av}
            return {"kind": "unknown", "n": n, "why": "system matrix method %s/%d" % (nm, len(n.get("a", [])))}
        if rk == "fil":
            if nm in ("filter_def", "filter_cor") and len(n.get("a", [])) == 1:
                return {"kind": nm, "fil": recv, "vec": view.obj(n["a"][0]), "n": n, "vec_node": n["a"][0]}
            return {"kind": "unknown", "n": n, "why": "system filter method %s" % nm}
        if rk == "tra":
            if nm == "is_ghost":
                return None
            if nm in ("rest", "prol") and set(av) >= {"vec_fine", "vec_coarse"}:
                return {"kind": nm, "tra": recv, "fine": view.obj(av["vec_fine"]), "coarse": view.obj(av["vec_coarse"]), "n": n, "nodes": av}
            if nm in ("rest_send", "prol_recv") and len(n.get("a", [])) == 1:
                return {"kind": nm, "tra": recv, "fine": view.obj(n["a"][0]), "n": n, "nodes": {"vec_fine": n["a"][0]}}
            return {"kind": "unknown", "n": n, "why": "transfer method %s" % nm}
        if rk == "vec" or rk == "param":
            a = n.get("a", [])
            if nm == "axpy" and len(a) == 2:
                return {"kind": "axpy", "dst": recv, "src": view.obj(a[0]), "alpha": a[1], "n": n, "src_node": a[0]}
            if nm == "scale" and len(a) == 2 and rk == "vec":
                # dst := alpha * src  (overwrites dst)
                return {"kind": "scale", "dst": recv, "src": view.obj(a[0]), "alpha": a[1], "n": n, "src_node": a[0]}
            if nm == "copy" and len(a) >= 1:
                return {"kind": "copy", "dst": recv, "src": view.obj(a[0]), "n": n, "dst_node": n["obj"], "src_node": a[0]}
            if nm == "format" and rk == "vec":
                z = view.value(a[0]) if a else {"k": "Int", "v": "0"}
                zero = z.get("k") in ("Int", "Float") and float(z["v"]) == 0.0
                return {"kind": "format", "dst": recv, "n": n, "zero": zero}
            if nm == "dot" and len(a) == 1:
                return {"kind": "dot", "a": recv, "b": view.obj(a[0]), "n": n}
            if rk == "param" and not view.mentions_level_obj(n):
                return None
            return {"kind": "unknown", "n": n, "why": "vector method %s on %s" % (nm, view.role(n.get("obj")))}
        return None
    if k in ("Call", "Construct", "TempObj", "OpCall"):
        if n.get("callee", "").endswith("FEAT::assertion") or k == "OpCall":
            return None
        # a free function receiving a level vector is outside the model
        for a in n.get("a", []):
            o = view.obj(a)
            if o is not None and o[0] in ("vec", "lvl", "lvlptr", "mat", "fil", "tra"):
                return {"kind": "unknown", "n": n, "why": "level object passed to %s" % n.get("callee")}
        return None
    return None
