"""norm_c01: normalisation helpers that make rules refactoring-stable (written for checks/c01.py, generic).

  * InlinedFunction      a Function-like view of a function in which calls to small repository helpers are
                         replaced by the callee's body with the parameters bound (statement-level calls become an
                         inline Block, `return E;` helpers are substituted at expression level); bounded depth,
                         non-recursive, non-virtual, only free/static functions and members called on *this.
  * formulas             tiny propositional layer: T/F/atom/not/and/or, evaluation, satisfiability by enumeration,
                         `decide()` with universally quantified atoms and side constraints.
  * CondNF               condition -> formula: looks through const locals, `!`, &&, ||, ternaries, comparisons with
                         bool literals; comparison atoms are canonical (`a >= b` = not(a < b), `a > b` = (b < a),
                         `a != b` = not(a == b), every test of an unsigned/integral expression against zero
                         (`e == 0`, `e != 0`, `e > 0`, `e < 1`, `!e`, `e`) is the one atom z(e)), so De Morgan,
                         negated conditions with swapped branches and early return <-> if/else give equal formulas.
  * Flow                 abstract interpreter over the structured statement tree: a state maps tags to formulas
                         ("execution is here and <tag> holds"); If splits on the condition formula, abrupt exits
                         (return / throw / noreturn call) end the state, inlined helper bodies return to their call
                         site.  Used for path conditions (`reach`), "r still undefined", "last definition is X".
"""
import itertools

from featlib import walk, render, children

# --------------------------------------------------------------------------------------------------
# formulas
# --------------------------------------------------------------------------------------------------

T = ("T",)
F = ("F",)


def f_atom(key):
    return ("atom", key)


def f_not(a):
    if a == T:
        return F
    if a == F:
        return T
    if a[0] == "not":
        return a[1]
    return ("not", a)


def f_and(*xs):
    out = []
    for x in xs:
        if x == F:
            return F
        if x == T or x in out:
            continue
        if f_not(x) in out:
            return F
        out.append(x)
    if not out:
        return T
    r = out[0]
    for x in out[1:]:
        r = ("and", r, x)
    return r


def f_or(*xs):
    out = []
    for x in xs:
        if x == T:
            return T
        if x == F or x in out:
            continue
        if f_not(x) in out:
            return T
        out.append(x)
    if not out:
        return F
    r = out[0]
    for x in out[1:]:
        r = ("or", r, x)
    return r


def f_atoms(f, acc=None):
    acc = set() if acc is None else acc
    st = [f]
    while st:
        x = st.pop()
        if x[0] == "atom":
            acc.add(x[1])
        elif x[0] == "not":
            st.append(x[1])
        elif x[0] in ("and", "or"):
            st.append(x[1])
            st.append(x[2])
    return acc


def f_eval(f, env):
    k = f[0]
    if k == "T":
        return True
    if k == "F":
        return False
    if k == "atom":
        return env[f[1]]
    if k == "not":
        return not f_eval(f[1], env)
    if k == "and":
        return f_eval(f[1], env) and f_eval(f[2], env)
    return f_eval(f[1], env) or f_eval(f[2], env)


MAX_ATOMS = 16


def f_sat(f, constraint=T, fixed=None):
    """-> a satisfying assignment (dict atom -> bool) of f and constraint, or None.  `fixed` pre-assigns atoms."""
    fixed = dict(fixed or {})
    if f == F:
        return None
    g = f_and(f, constraint)
    free = sorted((a for a in f_atoms(g) if a not in fixed), key=repr)
    if len(free) > MAX_ATOMS:
        raise TooManyAtoms(len(free))
    for vals in itertools.product((False, True), repeat=len(free)):
        env = dict(fixed)
        env.update(zip(free, vals))
        if f_eval(g, env):
            return env
    return None


class TooManyAtoms(Exception):
    pass


def decide(f, constraint=T, universal=()):
    """('unsat', None): f is unsatisfiable under the constraint;
    ('sat', w): for EVERY admissible valuation of the `universal` atoms there is a model (w = one of them);
    ('depends', w): models exist only for some valuations of the universal atoms (w = a model)."""
    uni = sorted((a for a in f_atoms(f_and(f, constraint)) if a in set(universal)), key=repr)
    some, every = None, True
    for vals in itertools.product((False, True), repeat=len(uni)):
        fx = dict(zip(uni, vals))
        if f_sat(constraint, fixed=fx) is None:
            continue                      # valuation excluded by the side constraint
        w = f_sat(f, constraint, fixed=fx)
        if w is None:
            every = False
        elif some is None:
            some = w
    if some is None:
        return ("unsat", None)
    return ("sat" if every else "depends", some)


def f_str(f, name=lambda k: str(k)):
    k = f[0]
    if k in ("T", "F"):
        return "true" if k == "T" else "false"
    if k == "atom":
        return name(f[1])
    if k == "not":
        return "!(%s)" % f_str(f[1], name)
    return "(%s %s %s)" % (f_str(f[1], name), "&&" if k == "and" else "||", f_str(f[2], name))


# --------------------------------------------------------------------------------------------------
# helper inlining on the fact tree
# --------------------------------------------------------------------------------------------------

_fresh = itertools.count(1000000)


def _assigned_decls(fn):
    out = set()
    for n in fn.nodes():
        k = n.get("k")
        if k == "Assign":
            l = n.get("lhs")
            if l and l.get("k") == "Ref":
                out.add(l.get("d"))
        elif k == "Un" and n.get("op") in ("++", "--", "&"):
            e = n.get("e")
            if e and e.get("k") == "Ref":
                out.add(e.get("d"))
    return out


STMT_SLOTS = ("then", "else", "body")


class InlinedFunction:
    """Function-like object (same attribute/method surface as featlib.Function as far as the rules use it) whose
    body is a private copy of fn's body with helper calls inlined.

    allow(call_node, callee_function) -> bool selects the calls to inline (the caller supplies the policy: which
    callees are 'helpers' and which are modelled primitives).  `inlined` lists (callee, call) pairs, `refused`
    lists (call, callee, reason) for calls the policy allowed but the inliner could not model."""

    def __init__(self, fn, bydecl, allow, max_depth=3):
        self.orig = fn
        self.facts = fn.facts
        self.qn, self.full, self.name, self.cls = fn.qn, fn.full, fn.name, fn.cls
        self.file, self.line, self.end, self.tk = fn.file, fn.line, fn.end, fn.tk
        self.params = fn.params
        self._bydecl = bydecl
        self._allow = allow
        self._max_depth = max_depth
        self.inlined = []
        self.refused = []
        self._assigned = {}
        self._hoisted_calls = set()
        self._replace = {}
        self.body = self._copy(fn.body, {}, {}, 0, (fn.d.get("decl"),), False) if fn.body is not None else None
        self.d = dict(fn.d)
        self.d["body"] = self.body
        self._byid = None

    # ---- Function surface -------------------------------------------------------------------------
    @property
    def loc(self):
        return self.orig.loc

    @property
    def cfg(self):
        return self.orig.cfg          # valid for the statements of the outer function only

    def type(self, tid):
        return self.orig.type(tid)

    def ntype(self, n):
        return self.orig.type(n.get("t"))

    def nodes(self):
        yield from walk(self.body)

    def by_id(self, i):
        if self._byid is None:
            self._byid = {n["i"]: n for n in self.nodes() if "i" in n}
        return self._byid.get(i)

    def calls(self, callee_re=None, name=None):
        import re
        for n in self.nodes():
            if n.get("k") in ("Call", "MCall", "OpCall", "Construct", "TempObj"):
                if callee_re is not None and not re.search(callee_re, n.get("callee", "")):
                    continue
                if name is not None and n.get("callee", "").rsplit("::", 1)[-1] != name:
                    continue
                yield n

    def param(self, name):
        return self.orig.param(name)

    def __repr__(self):
        return "<Inlined %r +%d>" % (self.orig, len(self.inlined))

    # ---- copying ----------------------------------------------------------------------------------
    def _callee_of(self, n, depth, stack):
        """-> (callee, reason): callee Function if call node n is to be inlined"""
        if n.get("k") not in ("Call", "MCall"):
            return None, None
        callee = self._bydecl.get(n.get("cdecl"))
        if callee is None or callee.body is None:
            return None, None
        if n.get("k") == "MCall" and not (n.get("obj") is None or n["obj"].get("k") == "This"):
            return None, None
        if not self._allow(n, callee):
            return None, None
        if callee.d.get("virtual"):
            return None, "virtual"
        if callee.d.get("decl") in stack:
            return None, "recursive"
        if depth >= self._max_depth:
            return None, "inlining depth"
        if len(n.get("a", [])) != len(callee.params):
            return None, "argument count"
        return callee, None

    def _assigned_in(self, callee):
        k = callee.d.get("decl")
        if k not in self._assigned:
            self._assigned[k] = _assigned_decls(callee)
        return self._assigned[k]

    def _inline_env(self, n, callee, subst, dmap, depth, stack, fresh_ids):
        """bind the callee's parameters to the (copied) arguments of call n; -> (subst', dmap', prologue decls)"""
        args = [self._copy(a, subst, dmap, depth, stack, fresh_ids) for a in n.get("a", [])]
        asg = self._assigned_in(callee)
        s2, d2, pro = {}, {}, []
        for p, a in zip(callee.params, args):
            if p["d"] in asg:
                nd = next(_fresh)
                d2[p["d"]] = nd
                pro.append({"k": "Decl", "i": next(_fresh), "l": n.get("l"), "inl_param": True,
                            "vars": [{"k": "Var", "i": next(_fresh), "l": n.get("l"), "n": p["n"], "d": nd, "t": p["t"], "init": a}]})
            else:
                s2[p["d"]] = a
        return s2, d2, pro

    def _copy(self, n, subst, dmap, depth, stack, fresh_ids, in_stmt=False):
        if not isinstance(n, dict):
            return n
        if id(n) in self._replace:
            return dict(self._replace[id(n)])
        k = n.get("k")
        if k == "Ref":
            d = n.get("d")
            if d in subst:
                return self._recopy(subst[d])
            if d in dmap:
                m = dict(n)
                m["d"] = dmap[d]
                m["dk"] = "local"
                if fresh_ids:
                    m["i"] = next(_fresh)
                return m
        # expression-level inlining of `return E;` helpers
        callee, why = self._callee_of(n, depth, stack)
        if callee is not None:
            st = callee.body.get("s", []) if callee.body.get("k") == "Block" else []
            if len(st) == 1 and st[0].get("k") == "Return" and st[0].get("e") is not None and not (self._assigned_in(callee) & {p["d"] for p in callee.params}):
                s2, d2, _ = self._inline_env(n, callee, subst, dmap, depth, stack, fresh_ids)
                self.inlined.append((callee, n))
                e = self._copy(st[0]["e"], s2, d2, depth + 1, stack + (callee.d.get("decl"),), True)
                if isinstance(e, dict):
                    e = dict(e)
                    e.setdefault("inl_expr", callee.full)
                return e
            if not in_stmt and id(n) not in self._hoisted_calls:
                self.refused.append((n, callee, "value-returning helper whose body is more than one return statement"))
        elif why and not in_stmt:
            self.refused.append((n, self._bydecl.get(n.get("cdecl")), why))
        out = {}
        for key, v in n.items():
            if key == "i" and fresh_ids:
                out[key] = next(_fresh)
            elif key == "d" and k == "Var" and fresh_ids:
                nd = next(_fresh)
                dmap[v] = nd
                out[key] = nd
            elif key == "s" and isinstance(v, list):
                seq = []
                for x in v:
                    seq.extend(self._hoisted(x, subst, dmap, depth, stack, fresh_ids))
                    seq.append(self._stmt(x, subst, dmap, depth, stack, fresh_ids))
                out[key] = seq
            elif key in STMT_SLOTS and isinstance(v, dict):
                hs = self._hoisted(v, subst, dmap, depth, stack, fresh_ids)
                sv = self._stmt(v, subst, dmap, depth, stack, fresh_ids)
                out[key] = {"k": "Block", "i": next(_fresh), "l": v.get("l"), "s": hs + [sv]} if hs else sv
            elif key == "s" and isinstance(v, dict):
                out[key] = self._stmt(v, subst, dmap, depth, stack, fresh_ids)
            elif isinstance(v, dict) and "k" in v:
                out[key] = self._copy(v, subst, dmap, depth, stack, fresh_ids)
            elif isinstance(v, list):
                out[key] = [self._copy(x, subst, dmap, depth, stack, fresh_ids) if isinstance(x, dict) else x for x in v]
            else:
                out[key] = v
        if k == "Return" and fresh_ids:
            out["k"] = "InlReturn"
        return out

    def _recopy(self, n):
        """fresh copy of an already copied argument expression (one copy per use of the parameter)"""
        if not isinstance(n, dict):
            return n
        out = {}
        for key, v in n.items():
            if key == "i":
                out[key] = next(_fresh)
            elif isinstance(v, dict):
                out[key] = self._recopy(v)
            elif isinstance(v, list):
                out[key] = [self._recopy(x) if isinstance(x, dict) else x for x in v]
            else:
                out[key] = v
        return out

    SIMPLE_STMT = ("Decl", "Assign", "Call", "MCall", "OpCall", "Return", "Un", "Bin", "Construct", "TempObj")

    @staticmethod
    def _unconditional(root):
        """nodes of an expression that are evaluated whenever the expression is (not the right operand of && / ||, not an
        arm of ?:, not a lambda body)"""
        st = [root]
        while st:
            x = st.pop()
            if not isinstance(x, dict):
                continue
            yield x
            k = x.get("k")
            if k == "Lambda":
                continue
            if k == "Bin" and x.get("op") in ("&&", "||"):
                st.append(x.get("lhs"))
                continue
            if k == "Cond":
                st.append(x.get("c"))
                continue
            st.extend(reversed(list(children(x))))

    def _patch_returns(self, node, ret_d, ret_t, name):
        """InlReturn(e) of THIS inline frame -> { $ret = e; InlReturn }"""
        def fix(x):
            if isinstance(x, dict) and x.get("k") == "InlReturn" and x.get("e") is not None:
                asg = {"k": "Assign", "i": next(_fresh), "l": x.get("l"), "t": ret_t, "op": "=",
                       "lhs": {"k": "Ref", "i": next(_fresh), "l": x.get("l"), "t": ret_t, "n": name, "d": ret_d, "dk": "local"}, "rhs": x["e"]}
                return {"k": "Block", "i": next(_fresh), "l": x.get("l"), "s": [asg, {"k": "InlReturn", "i": next(_fresh), "l": x.get("l")}]}
            if isinstance(x, dict):
                self._patch_returns(x, ret_d, ret_t, name)
            return x
        if not isinstance(node, dict) or node.get("k") == "Lambda":
            return
        for key in ("s",) + STMT_SLOTS:
            v = node.get(key)
            if isinstance(v, list):
                node[key] = [x if (isinstance(x, dict) and x.get("inl") is not None) else fix(x) for x in v]
            elif isinstance(v, dict) and v.get("inl") is None:
                node[key] = fix(v)

    def _hoisted(self, x, subst, dmap, depth, stack, fresh_ids):
        """value-returning helpers with a real body that are called unconditionally inside the simple statement x or in the
        condition of the if/switch statement x: their bodies are placed (parameters bound) as inline blocks in front of x and
        the call is replaced by a local that holds the returned value - `T $h = E;` as the last statement of the block when the
        helper ends in its only `return E;` (single-assignment local: looked through by resolution), otherwise `T $h;` assigned
        at every return ('inl_value' marks such a block).  `if (helper_that_tests_and_performs(r, y, alpha)) return;` thus
        becomes the helper's statements followed by a test of its return value."""
        if not isinstance(x, dict):
            return []
        if x.get("k") in self.SIMPLE_STMT:
            roots = [x]
        elif x.get("k") == "If":
            roots = [x.get("init"), x.get("c")]
        elif x.get("k") == "Switch":
            roots = [x.get("c")]
        else:
            return []
        out = []
        for root in roots:
            for n in self._unconditional(root):
                if n is x and x.get("k") in ("Call", "MCall"):
                    continue                 # the statement itself: _stmt
                callee, why = self._callee_of(n, depth, stack)
                if callee is None:
                    continue
                st = callee.body.get("s", []) if callee.body.get("k") == "Block" else []
                if len(st) == 1 and st[0].get("k") == "Return":
                    continue                 # substituted at expression level
                s2, d2, pro = self._inline_env(n, callee, subst, dmap, depth, stack, fresh_ids)
                self.inlined.append((callee, n))
                self._hoisted_calls.add(id(n))
                body = self._copy(callee.body, s2, d2, depth + 1, stack + (callee.d.get("decl"),), True)
                if not (isinstance(body, dict) and body.get("k") == "Block"):
                    body = {"k": "Block", "i": next(_fresh), "l": n.get("l"), "s": [body]}
                stmts = body.get("s", [])
                rd, rt, nm = next(_fresh), callee.d.get("ret"), "$" + (callee.name or "ret")
                rets = [y for y in walk(body, prune=lambda y: y.get("k") == "Lambda" or (y is not body and y.get("inl") is not None)) if y.get("k") == "InlReturn"]
                pre = []
                if len(rets) == 1 and stmts and stmts[-1] is rets[0] and rets[0].get("e") is not None:
                    stmts[-1] = {"k": "Decl", "i": next(_fresh), "l": rets[0].get("l"), "inl_ret": True,
                                 "vars": [{"k": "Var", "i": next(_fresh), "l": rets[0].get("l"), "n": nm, "d": rd, "t": rt, "init": rets[0]["e"], "const": True}]}
                else:
                    pre = [{"k": "Decl", "i": next(_fresh), "l": n.get("l"), "inl_ret": True,
                            "vars": [{"k": "Var", "i": next(_fresh), "l": n.get("l"), "n": nm, "d": rd, "t": rt}]}]
                    self._patch_returns(body, rd, rt, nm)
                    stmts = body.get("s", [])
                self._replace[id(n)] = {"k": "Ref", "i": next(_fresh), "l": n.get("l"), "t": rt, "n": nm, "d": rd, "dk": "local", "inl_value_of": callee.full}
                out.extend(pre)
                out.append({"k": "Block", "i": next(_fresh), "l": n.get("l"), "inl": callee.full, "inl_decl": callee.d.get("decl"), "inl_value": True,
                            "call": n, "s": pro + stmts})
        return out

    def _stmt(self, n, subst, dmap, depth, stack, fresh_ids):
        """copy of a node in statement position: a call whose value is discarded may become an inline Block"""
        callee, why = self._callee_of(n, depth, stack) if isinstance(n, dict) else (None, None)
        if callee is None:
            if why and isinstance(n, dict):
                self.refused.append((n, self._bydecl.get(n.get("cdecl")), why))
            return self._copy(n, subst, dmap, depth, stack, fresh_ids, in_stmt=True)
        s2, d2, pro = self._inline_env(n, callee, subst, dmap, depth, stack, fresh_ids)
        self.inlined.append((callee, n))
        body = self._copy(callee.body, s2, d2, depth + 1, stack + (callee.d.get("decl"),), True)
        stmts = body.get("s", []) if isinstance(body, dict) and body.get("k") == "Block" else [body]
        return {"k": "Block", "i": next(_fresh), "l": n.get("l"), "inl": callee.full, "inl_decl": callee.d.get("decl"),
                "call": n, "s": pro + stmts}


# --------------------------------------------------------------------------------------------------
# condition normal form
# --------------------------------------------------------------------------------------------------

def _impure(n):
    for x in walk(n):
        k = x.get("k")
        if k == "Assign" or (k == "Un" and x.get("op") in ("++", "--")):
            return True
        if k in ("New", "Delete", "Throw", "Lambda"):
            return True
    return False


_uniq = itertools.count(1)


class CondNF:
    """condition -> formula.  `resolve(node)` looks through single-assignment locals (FnInfo.resolve of the rule
    module); `is_zero_const(node)` says whether a node is the constant 0; `unsigned(node)` whether an expression has an
    unsigned integral type.  atom_info[key] = dict(kind='z'|'lt'|'eq'|'bool'|'opaque', nodes...) lets the rule
    interpret the atoms it cares about."""

    def __init__(self, fn, resolve, const_value):
        self.fn = fn
        self.resolve = resolve
        self.const_value = const_value       # node -> float | None
        self.atom_info = {}
        self.env = {}                        # decl id of a tracked (assigned) bool local -> formula "here and v is true" (set by Flow)

    def _strip(self, n):
        n = self.resolve(n)
        while n is not None and ((n.get("k") == "Cast" and n.get("e") is not None) or
                                 (n.get("k") in ("Construct", "TempObj") and len(n.get("a", [])) == 1 and "Vector" not in (n.get("callee") or ""))):
            inner = n.get("e") if n.get("k") == "Cast" else n["a"][0]
            n = self.resolve(inner)
        return n

    def _unsigned(self, n):
        t = self.fn.ntype(n) if n is not None else ""
        return bool(t) and ("unsigned" in t or "Index" in t or "size_t" in t) and "*" not in t

    def _integral(self, n):
        t = (self.fn.ntype(n) if n is not None else "").replace("const ", "").strip()
        return self._unsigned(n) or t in ("int", "long", "short", "long long", "char")

    def _key(self, n):
        n = self._strip(n)
        return render(n)

    def _mk(self, key, **info):
        if key not in self.atom_info:
            self.atom_info[key] = info
        return f_atom(key)

    def zero_test(self, e):
        e = self._strip(e)
        return self._mk(("z", render(e)), kind="z", e=e)

    def formula(self, n, depth=0):
        if n is None or depth > 30:
            return self._opaque(n)
        n = self.resolve(n)
        k = n.get("k")
        if k == "Ref" and n.get("d") in self.env:
            return self.env[n["d"]]
        if k == "Bool":
            return T if n.get("v") in (True, 1, "1", "true") else F
        if k == "Int":
            return F if str(n.get("v")) == "0" else T
        if k == "Cast" and n.get("e") is not None:
            return self.formula(n["e"], depth + 1)
        if k == "Un" and n.get("op") == "!":
            return f_not(self.formula(n["e"], depth + 1))
        if k == "Bin" and n.get("op") == "&&":
            return f_and(self.formula(n["lhs"], depth + 1), self.formula(n["rhs"], depth + 1))
        if k == "Bin" and n.get("op") == "||":
            return f_or(self.formula(n["lhs"], depth + 1), self.formula(n["rhs"], depth + 1))
        if k == "Cond":
            c = self.formula(n["c"], depth + 1)
            return f_or(f_and(c, self.formula(n["then"], depth + 1)), f_and(f_not(c), self.formula(n["else"], depth + 1)))
        if _impure(n):
            return self._mk(("opaque", next(_uniq), render(n)[:80]), kind="opaque", e=n)
        if k == "Bin" and n.get("op") in ("==", "!=", "<", "<=", ">", ">="):
            return self._compare(n, depth)
        if k == "OpCall" and n.get("op") in ("==", "!=", "<", "<=", ">", ">=") and len(n.get("a", [])) == 2:
            return self._compare({"k": "Bin", "op": n["op"], "lhs": n["a"][0], "rhs": n["a"][1]}, depth)
        # a value in boolean context
        t = (self.fn.ntype(n) or "").replace("const ", "").strip()
        if t == "bool" or t == "_Bool":
            return self._mk(("bool", render(n)), kind="bool", e=n)
        if self._integral(n):
            return f_not(self.zero_test(n))
        return self._opaque(n)

    def _opaque(self, n):
        return self._mk(("opaque", render(n) if n is not None else next(_uniq)), kind="opaque", e=n)

    def _compare(self, n, depth):
        op = n["op"]
        a, b = self._strip(n["lhs"]), self._strip(n["rhs"])
        ca, cb = self.const_value(a), self.const_value(b)
        # comparison with a bool literal
        for x, y in ((a, b), (b, a)):
            if y.get("k") == "Bool" and op in ("==", "!="):
                f = self.formula(x, depth + 1)
                pos = (y.get("v") in (True, 1, "1", "true")) == (op == "==")
                return f if pos else f_not(f)
        if ca is not None and cb is not None:
            v = {"==": ca == cb, "!=": ca != cb, "<": ca < cb, "<=": ca <= cb, ">": ca > cb, ">=": ca >= cb}[op]
            return T if v else F
        # tests against zero / one of integral expressions
        if cb is not None and ca is None:
            e, c, o = a, cb, op
        elif ca is not None and cb is None:
            e, c, o = b, ca, {"<": ">", ">": "<", "<=": ">=", ">=": "<="}.get(op, op)
        else:
            e = None
        if e is not None:
            z = None
            if c == 0:
                if o == "==":
                    z = True
                elif o == "!=":
                    z = False
                elif self._unsigned(e) and o in ("<=",):
                    z = True
                elif self._unsigned(e) and o in (">",):
                    z = False
                elif self._unsigned(e) and o == ">=":
                    return T
                elif self._unsigned(e) and o == "<":
                    return F
            elif c == 1 and self._unsigned(e):
                if o == "<":
                    z = True
                elif o == ">=":
                    z = False
            if z is not None:
                at = self.zero_test(e)
                return at if z else f_not(at)
        ra, rb = render(a), render(b)
        if op in ("==", "!="):
            l, r = sorted((ra, rb))
            at = self._mk(("eq", l, r), kind="eq", a=a, b=b)
            return at if op == "==" else f_not(at)
        if op == "<":
            return self._mk(("lt", ra, rb), kind="lt", a=a, b=b)
        if op == ">":
            return self._mk(("lt", rb, ra), kind="lt", a=b, b=a)
        if op == "<=":
            return f_not(self._mk(("lt", rb, ra), kind="lt", a=b, b=a))
        return f_not(self._mk(("lt", ra, rb), kind="lt", a=a, b=b))       # >=

    def exclusions(self):
        """side constraints between the atoms seen so far: lt(a,b) and lt(b,a) exclude each other, eq(a,b) excludes both"""
        cs = []
        keys = list(self.atom_info)
        for k in keys:
            if k[0] == "lt":
                rk = ("lt", k[2], k[1])
                if rk in self.atom_info and repr(k) < repr(rk):
                    cs.append(f_not(f_and(f_atom(k), f_atom(rk))))
                l, r = sorted((k[1], k[2]))
                ek = ("eq", l, r)
                if ek in self.atom_info:
                    cs.append(f_not(f_and(f_atom(k), f_atom(ek))))
        return f_and(*cs) if cs else T


# --------------------------------------------------------------------------------------------------
# flow of tagged formulas over the structured tree
# --------------------------------------------------------------------------------------------------

LOOPS = ("For", "While", "Do", "ForRange")


class Flow:
    """State = dict tag -> formula.  on_simple(node, state) -> state is called for every simple statement (expression
    statement, declaration, condition expression, return value); the returned state replaces the current one.
    Results: exits = [(node | None, state)] (None = falling off the end), reach[id(node)] = state['reach'] at the
    statement (every statement, condition and inline block), in_loop = ids of statements inside a loop."""

    def __init__(self, cnf, tags=("reach",), on_simple=None):
        self.cnf = cnf
        self.tags = tuple(tags)
        self.on_simple = on_simple
        self.exits = []
        self.reach = {}
        self._frames = []
        self._breaks = []
        self.unmodelled = []       # constructs approximated conservatively

    def bottom(self):
        return {t: F for t in self.tags}

    def conj(self, st, f):
        return {t: f_and(v, f) for t, v in st.items()}

    def join(self, a, b):
        return {t: f_or(a.get(t, F), b.get(t, F)) for t in set(a) | set(b)}

    def run(self, body, init=None):
        st = init or {t: (T if t == "reach" else F) for t in self.tags}
        self._find_flags(body)
        st = self.flow(body, st)
        self.exits.append((None, st))
        self.cnf.env = {}
        return st

    # ---- bool bookkeeping flags: `bool done(false); if (c) { ...; done = true; } if (!done) { ... }` -----------------
    def _find_flags(self, body):
        """locals of type bool whose only modifications are statement-level assignments `v = <expr>`: their value is
        tracked as a formula (state tag ('$', decl)), so tests of the flag are path conditions, not opaque atoms"""
        decls, assigns, other = {}, {}, set()
        parent = {}
        for n in walk(body, prune=lambda y: y.get("k") == "Lambda"):
            for c in children(n):
                parent[id(c)] = n
        for n in walk(body, prune=lambda y: y.get("k") == "Lambda"):
            k = n.get("k")
            if k == "Var" and (self.cnf.fn.ntype(n) or "").replace("const ", "").strip() in ("bool", "_Bool") and not n.get("ref"):
                decls[n["d"]] = n
            elif k == "Assign" and (n.get("lhs") or {}).get("k") == "Ref":
                d = n["lhs"].get("d")
                if n.get("op") == "=" and (parent.get(id(n)) or {}).get("k") in ("Block", "If", "For", "While", "Do", "Case", "Default"):
                    assigns.setdefault(d, []).append(n)
                else:
                    other.add(d)
            elif k == "Un" and n.get("op") in ("++", "--", "&") and (n.get("e") or {}).get("k") == "Ref":
                other.add(n["e"].get("d"))
            elif k in ("Call", "MCall", "Construct", "TempObj"):
                pts = n.get("pt", [])
                for i, a in enumerate(n.get("a", [])):
                    if a.get("k") == "Ref" and i < len(pts):
                        t = self.cnf.fn.type(pts[i]).strip()
                        if "&" in t and not t.startswith("const "):
                            other.add(a.get("d"))
        self.flags = {d for d in decls if d in assigns and d not in other}
        self._flag_assign = {id(a): d for d, lst in assigns.items() if d in self.flags for a in lst}

    def _flags_in(self, st):
        self.cnf.env = {d: st.get(("$", d), F) for d in getattr(self, "flags", ())}

    def _flag_effects(self, n, st):
        """declarations / assignments of tracked flags inside the simple statement n"""
        if not getattr(self, "flags", None):
            return st
        if n.get("k") == "Decl":
            for v in n.get("vars", []):
                if v.get("d") in self.flags:
                    self._flags_in(st)
                    val = self.cnf.formula(v["init"]) if v.get("init") is not None else self.cnf._opaque(v)
                    st = dict(st)
                    st[("$", v["d"])] = f_and(st.get("reach", T), val)
        elif id(n) in self._flag_assign:
            self._flags_in(st)
            st = dict(st)
            st[("$", self._flag_assign[id(n)])] = f_and(st.get("reach", T), self.cnf.formula(n["rhs"]))
        return st

    def _record(self, n, st):
        for x in walk(n, prune=lambda y: y.get("k") == "Lambda"):
            self.reach.setdefault(id(x), st.get("reach", T))

    def simple(self, n, st):
        if n is None:
            return st
        self._record(n, st)
        if self.on_simple is not None:
            st = self.on_simple(n, st)
        st = self._flag_effects(n, st)
        for x in walk(n, prune=lambda y: y.get("k") == "Lambda"):
            if x.get("noreturn") and x.get("k") in ("Call", "MCall"):
                return self.bottom()
        return st

    def flow(self, n, st):
        if n is None:
            return st
        k = n.get("k")
        self.reach.setdefault(id(n), st.get("reach", T))
        if k == "Block":
            frame = n.get("inl") is not None
            if frame:
                self._frames.append([])
            for s in n.get("s", []):
                st = self.flow(s, st)
            if frame:
                for r in self._frames.pop():
                    st = self.join(st, r)
            return st
        if k == "If":
            self._flags_in(st)
            c = self.cnf.formula(n.get("c"))
            st = self.simple(n.get("c"), st)
            if n.get("init") is not None:
                st = self.simple(n["init"], st)
            a = self.flow(n.get("then"), self.conj(st, c))
            b = self.flow(n.get("else"), self.conj(st, f_not(c)))
            return self.join(a, b)
        if k in LOOPS:
            if k != "Do":
                for key in ("init", "range", "c"):
                    if isinstance(n.get(key), dict):
                        st = self.simple(n[key], st)
            L = self.cnf._mk(("loop", n.get("i"), n.get("l")), kind="loop", e=n)
            self._breaks.append([])
            inner = self.flow(n.get("body"), self.conj(st, L))
            if isinstance(n.get("inc"), dict):
                inner = self.simple(n["inc"], inner)
            for b in self._breaks.pop():
                inner = self.join(inner, b)
            return self.join(st, inner)
        if k == "Switch":
            st = self.simple(n.get("c"), st)
            self._breaks.append([])
            self._switch_in = getattr(self, "_switch_in", [])
            self._switch_in.append((st, [False]))
            inner = self.flow(n.get("body"), self.bottom())
            sin, has_default = self._switch_in.pop()
            for b in self._breaks.pop():
                inner = self.join(inner, b)
            return inner if has_default[0] else self.join(sin, inner)
        if k in ("Case", "Default"):
            sw = getattr(self, "_switch_in", None)
            if sw:
                sin, has_default = sw[-1]
                if k == "Default":
                    has_default[0] = True
                sel = self.cnf._mk(("case", n.get("i"), n.get("l")), kind="case", e=n)
                st = self.join(st, self.conj(sin, sel))
            s = n.get("s")
            return self.flow(s, st) if isinstance(s, dict) else st
        if k == "Return":
            st = self.simple(n.get("e"), st) if n.get("e") is not None else st
            self.exits.append((n, st))
            return self.bottom()
        if k == "InlReturn":
            st = self.simple(n.get("e"), st) if n.get("e") is not None else st
            if self._frames:
                self._frames[-1].append(st)
            else:
                self.exits.append((n, st))
            return self.bottom()
        if k in ("Break", "Continue"):
            if k == "Break" and self._breaks:
                self._breaks[-1].append(st)
            return self.bottom()
        if k == "Throw":
            self._record(n, st)
            return self.bottom()
        if k == "Try":
            out = self.flow(n.get("body"), st)
            for h in n.get("handlers", []) or []:
                out = self.join(out, self.flow(h, st))
            return out
        if k == "OMP":
            return self.flow(n.get("body"), st)
        if k == "Cond":
            # statement-level ternary: c ? a : b
            self._flags_in(st)
            c = self.cnf.formula(n.get("c"))
            st = self.simple(n.get("c"), st)
            return self.join(self.simple(n.get("then"), self.conj(st, c)), self.simple(n.get("else"), self.conj(st, f_not(c))))
        return self.simple(n, st)
