"""norm_c13: normalisation helpers written for round 5 (behaviour-preserving refactorings) of the C13 / C18 checks.

Nothing here knows about a property; the helpers turn refactored forms of the same computation into one normal form:

  * Poly          - integer polynomials over named atoms: `boff + i*bs + k` == `k + bs*i + boff`
  * KernelModel   - array kernels (pointer parameters + index arithmetic): every element access `p[e]` / `*p` / `*p++` is resolved to
                    (array parameter, polynomial offset) through hoisted base pointers (`T* b = buf + boff`, `&buf[boff]`),
                    running cursors (`b += bs` once per iteration == `b0 + bs*i`, also across a perfect loop nest), const scalar
                    locals, for / while counting loops (up or down, `<` `!=` `<=` `>`), pointer-range loops (`for(p = b; p != e; ++p)`),
                    and std::fill / fill_n / copy / copy_n as the loops they stand for.  Loop counters are named after the extent
                    they range over, so that the *set of cells* touched is independent of names, loop form and iteration order.
  * path_exits    - enumeration of the CFG paths of a small function under a user-supplied atom valuation of the branch conditions
                    (negation, De Morgan and short-circuit nesting are handled by the CFG itself; early return == nested if),
                    with a symbolic environment of the locals assigned on the path (ternary == if/else assignment == named temporary).
  * return_expr   - the value a small helper returns as ONE expression tree (early returns folded into conditional expressions), for
                    inlining a callee into the caller's normal form with its parameters bound.
  * loop_range    - (variable, start, bound, step) of a counting loop in any of the for / while spellings.
"""
import featlib
from featlib import walk, render, is_call
import dfl
from dfl import strip_targs, callee_name


# =====================================================================================================
# polynomials
# =====================================================================================================

class Poly:
    """sum of integer multiples of monomials; a monomial is a sorted tuple of atom names"""
    __slots__ = ("t",)

    def __init__(self, t=None):
        self.t = {m: c for m, c in (t or {}).items() if c != 0}

    @staticmethod
    def const(c):
        return Poly({(): int(c)})

    @staticmethod
    def atom(a):
        return Poly({(a,): 1})

    def __add__(self, o):
        t = dict(self.t)
        for m, c in o.t.items():
            t[m] = t.get(m, 0) + c
        return Poly(t)

    def __neg__(self):
        return Poly({m: -c for m, c in self.t.items()})

    def __sub__(self, o):
        return self + (-o)

    def __mul__(self, o):
        t = {}
        for m1, c1 in self.t.items():
            for m2, c2 in o.t.items():
                m = tuple(sorted(m1 + m2))
                t[m] = t.get(m, 0) + c1 * c2
        return Poly(t)

    def __eq__(self, o):
        return isinstance(o, Poly) and self.t == o.t

    def __hash__(self):
        return hash(self.key())

    def is_const(self):
        return all(m == () for m in self.t)

    def const_value(self):
        return self.t.get((), 0) if self.is_const() else None

    def atoms(self):
        return {a for m in self.t for a in m}

    def unknown(self):
        return any(a.startswith("?") or "?" in a for a in self.atoms())

    def key(self):
        if not self.t:
            return "0"
        parts = []
        for m in sorted(self.t, key=lambda m_: (len(m_), m_)):
            c = self.t[m]
            body = "*".join(m)
            if not m:
                parts.append(str(c))
            elif c == 1:
                parts.append(body)
            elif c == -1:
                parts.append("-" + body)
            else:
                parts.append("%d*%s" % (c, body))
        return "+".join(parts).replace("+-", "-")

    __repr__ = key


# =====================================================================================================
# counting loops
# =====================================================================================================

def _strip(x):
    while x is not None and (x.get("k") == "Cast" or (x.get("k") in ("Construct", "TempObj") and len(x.get("a", [])) == 1 and not x.get("callee", "").startswith("FEAT::"))):
        x = x.get("e") if x.get("k") == "Cast" else x["a"][0]
    return x


def _mods_of(fn):
    """decl id -> list of nodes that modify the variable (assignments of any kind, ++ / --)"""
    out = {}
    for n in fn.nodes():
        if n.get("k") == "Assign" and n["lhs"].get("k") == "Ref" and n["lhs"].get("dk") == "local":
            out.setdefault(n["lhs"]["d"], []).append(n)
        elif n.get("k") == "Un" and n.get("op") in ("++", "--") and n["e"].get("k") == "Ref" and n["e"].get("dk") == "local":
            out.setdefault(n["e"]["d"], []).append(n)
    return out


def _step_of(mod):
    """(sign, step expression | None for 1) of  ++v  v++  --v  v--  v += s  v -= s  v = v + s  v = s + v  v = v - s ; None if not of this form"""
    if mod.get("k") == "Un":
        return (1 if mod["op"] == "++" else -1, None)
    op = mod.get("op")
    d = mod["lhs"].get("d")
    if op == "+=":
        return (1, mod["rhs"])
    if op == "-=":
        return (-1, mod["rhs"])
    if op == "=":
        r = _strip(mod["rhs"])
        if r is not None and r.get("k") == "Bin" and r.get("op") in ("+", "-"):
            a, b = _strip(r["lhs"]), _strip(r["rhs"])
            if a.get("k") == "Ref" and a.get("d") == d:
                return (1 if r["op"] == "+" else -1, r["rhs"])
            if r["op"] == "+" and b.get("k") == "Ref" and b.get("d") == d:
                return (1, r["lhs"])
    return None


def loop_range(fn, L, par=None, mods=None):
    """counting loop in any spelling -> dict(var=decl id, start=init expression node, bound=bound expression node, cmp='<'|'<='|'!='|'>'|'>=',
    sign=+1|-1, mod=the modification node) or None.
      for(T i(a); i < E; ++i)      T i = a; while(i < E) { ...; ++i; }      for(i = a; E > i; i++)      for(T i(n); i > 0; --i)
    Only unit steps; the variable has exactly one modification (besides an assignment in the for-init), executed once per iteration."""
    if L.get("k") not in ("For", "While"):
        return None
    par = par if par is not None else dfl.parents(fn)
    mods = mods if mods is not None else _mods_of(fn)
    c = _strip(L.get("c"))
    if c is None or c.get("k") != "Bin" or c.get("op") not in ("<", "<=", "!=", ">", ">="):
        return None
    lhs, rhs, op = _strip(c["lhs"]), _strip(c["rhs"]), c["op"]
    flip = {"<": ">", ">": "<", "<=": ">=", ">=": "<=", "!=": "!="}

    def own_mods(d):
        return [m for m in mods.get(d, []) if any(a is L for a, s in dfl.enclosing_stmt_chain(par, m))]
    cands = []
    for v, e, o in ((lhs, c["rhs"], op), (rhs, c["lhs"], flip[op])):
        if v is not None and v.get("k") == "Ref" and v.get("dk") == "local" and own_mods(v["d"]):
            cands.append((v["d"], e, o))
    if len(cands) != 1:
        return None
    d, bound, op = cands[0]
    start = None
    init_assign = None
    ini = L.get("init")
    if ini is not None and ini.get("k") == "Decl":
        for v in ini.get("vars", []):
            if v["d"] == d:
                start = v.get("init")
    elif ini is not None and ini.get("k") == "Assign" and ini.get("op") == "=" and ini["lhs"].get("k") == "Ref" and ini["lhs"].get("d") == d:
        start, init_assign = ini["rhs"], ini
    ms = [m for m in mods.get(d, []) if m is not init_assign]
    if len(ms) != 1:
        return None
    mod = ms[0]
    st = _step_of(mod)
    if st is None or st[1] is not None:
        if st is None:
            return None
        s = _strip(st[1])
        if not (s.get("k") == "Int" and str(s.get("v")) == "1"):
            return None
    sign = st[0]
    if start is None:
        # declared before the loop, at the same loop nesting level
        dn = None
        for n in fn.nodes():
            if n.get("k") == "Var" and n.get("d") == d:
                dn = n
        if dn is None or dn.get("init") is None:
            return None
        if [id(x) for x in dfl.enclosing_loops(fn, par, dn)] != [id(x) for x in dfl.enclosing_loops(fn, par, L)]:
            return None
        start = dn["init"]
    if not once_per_iteration(fn, par, L, mod):
        return None
    if (sign > 0 and op not in ("<", "<=", "!=")) or (sign < 0 and op not in (">", ">=", "!=")):
        return None
    return {"var": d, "start": start, "bound": bound, "cmp": op, "sign": sign, "mod": mod}


def once_per_iteration(fn, par, L, mod):
    """the node is executed exactly once in every completed iteration of loop L: it sits in the increment expression, or in an
    unconditional position of the body (only blocks / expressions between it and the body) while no `continue` of L can skip it"""
    chain = dfl.enclosing_stmt_chain(par, mod)
    for node, slot in chain:
        if node is L:
            if slot == "inc":
                return True
            if slot != "body":
                return False
            conts = [x for x in walk(L.get("body")) if x.get("k") == "Continue" and _jump_loop(par, x) is L]
            return not conts
        k = node.get("k")
        if k in ("If", "Cond", "Switch", "Case", "Default", "For", "While", "Do", "ForRange", "Try", "Lambda"):
            return False
        if k == "Bin" and node.get("op") in ("&&", "||") and slot == "rhs":
            return False
    return False


def running_counter(fn, par, L, d, use, rs=None):
    """T r(a); <loop L> { ... use(r) ...; r += S; }  — a local that is modified exactly once, by `+= S` / `++`, once per iteration of loop L (any loop kind, also a
    range-for), declared at the nesting level of L.  Returns dict(start=init node, step=S node | None for 1, phase=0 if `use` sees the value before this
    iteration's update, 1 after) — then r == a + (iteration number + phase) * S at `use` provided S does not change — or None."""
    mods = _mods_of(fn).get(d, [])
    if len(mods) != 1:
        return None
    st = _step_of(mods[0])
    if st is None or st[0] < 0:
        return None
    if not any(node is L for node, sl in dfl.enclosing_stmt_chain(par, mods[0])) or not once_per_iteration(fn, par, L, mods[0]):
        return None
    la = loops_around(par, mods[0])
    if not la or la[-1] is not L:
        return None            # updated in a nested loop: not once per iteration of L
    var = None
    for n in fn.nodes():
        if n.get("k") == "Var" and n.get("d") == d:
            var = n
    if var is None or var.get("init") is None:
        return None
    if [id(x) for x in dfl.enclosing_loops(fn, par, var)] != [id(x) for x in dfl.enclosing_loops(fn, par, L)]:
        return None
    ph = KernelModel._phase(_PhaseOnly(par), use, L, mods[0])
    if ph is None:
        return None
    return {"start": var["init"], "step": st[1], "phase": ph, "mod": mods[0]}


class _PhaseOnly:
    def __init__(self, par):
        self.par = par


def loops_around(par, n):
    """enclosing loops (outermost first) whose every iteration evaluates n: n sits in the body, the condition or the increment"""
    out = []
    cur = n
    while id(cur) in par:
        cur, slot = par[id(cur)]
        if cur.get("k") in ("For", "While", "Do", "ForRange") and slot in ("body", "c", "inc"):
            out.append(cur)
    return out[::-1]


def _jump_loop(par, n):
    cur = n
    while id(cur) in par:
        cur, slot = par[id(cur)]
        if cur.get("k") in ("For", "While", "Do", "ForRange"):
            return cur
    return None


# =====================================================================================================
# array kernels
# =====================================================================================================

ALGO_FILL = ("std::fill_n", "std::fill")
ALGO_COPY = ("std::copy_n", "std::copy")


class KernelModel:
    """symbolic addresses of the element accesses of a kernel whose arrays are pointer parameters"""

    def __init__(self, fn):
        self.fn = fn
        self.par = dfl.parents(fn)
        self.mods = _mods_of(fn)
        self.vars = {}
        for n in fn.nodes():
            if n.get("k") == "Var":
                self.vars[n["d"]] = n
        self.addr_taken = set()
        for n in fn.nodes():
            if n.get("k") == "Un" and n.get("op") == "&" and n["e"].get("k") == "Ref" and n["e"].get("dk") == "local":
                self.addr_taken.add(n["e"]["d"])
            elif is_call(n):
                for a, pn_, pt_ in dfl.call_args_with_params(n, fn):
                    if pt_ is not None and dfl.is_nonconst_ref(pt_) and a.get("k") == "Ref" and a.get("dk") == "local":
                        self.addr_taken.add(a["d"])
        self.ptr_params = {p["d"]: p["n"] for p in fn.params if fn.type(p["t"]).strip().endswith("*")}
        self.loops = {}          # id(L) -> info dict | None
        self.ind = {}            # decl id -> (L, info) of the loop whose induction variable it is
        self.notes = []          # constructs that are not modelled (strings)
        self._busy = set()
        self._pending = {}
        order = [n for n in fn.nodes() if n.get("k") in ("For", "While", "Do", "ForRange")]
        for L in order:          # pre-order: outer loops first
            self._analyse_loop(L)
        self._find_cursors()

    # ---- loops ---------------------------------------------------------------------------------------
    def _analyse_loop(self, L):
        lr = loop_range(self.fn, L, self.par, self.mods)
        self.loops[id(L)] = None
        if lr is None:
            return
        d = lr["var"]
        # the variable is not used after the loop in a way this model would mis-evaluate: uses outside the loop yield 'unknown' (see val)
        a = self.val(lr["start"])
        self._pending[d] = (L, a)           # the loop's own init clause may use the start value (for(T* e = p + n; p != e; ++p))
        try:
            e = self.val(lr["bound"])
        finally:
            self._pending.pop(d, None)
        if a is None or e is None or a[0] != e[0]:
            return
        if a[0] is not None and (a[0].startswith("?")):
            return
        sign, op = lr["sign"], lr["cmp"]
        if sign > 0:
            T = e[1] - a[1] + (Poly.const(1) if op == "<=" else Poly())
        else:
            T = a[1] - e[1] + (Poly.const(1) if op == ">=" else Poly())
        if T.unknown():
            return
        name = "#" + T.key()
        outer = [self.loops.get(id(x)) for x in dfl.enclosing_loops(self.fn, self.par, L)]
        while any(o is not None and o["counter"] == name for o in outer):
            name += "'"
        u = Poly.atom(name)
        # value of the variable in terms of the canonical counter u in [0, T): ascending a + u; descending a - (T-1-u)
        base = a[1] if sign > 0 else a[1] - T + Poly.const(1)
        info = {"L": L, "counter": name, "T": T, "sign": sign, "var": d, "arr": a[0], "base": base, "start": a[1], "mod": lr["mod"], "cursors": {}}
        self.loops[id(L)] = info
        self.ind[d] = (L, info, "primary")

    def _find_cursors(self):
        """secondary induction variables: exactly one modification, by a loop-invariant step, once per iteration of a recognised loop"""
        for d, ms in self.mods.items():
            if d in self.ind or d in self.addr_taken or len(ms) != 1 or d not in self.vars or self.vars[d].get("init") is None:
                continue
            mod = ms[0]
            st = _step_of(mod)
            if st is None:
                continue
            loops = loops_around(self.par, mod)
            if not loops:
                continue
            L = loops[-1]
            info = self.loops.get(id(L))
            if info is None or not once_per_iteration(self.fn, self.par, L, mod):
                continue
            dn = self.vars[d]
            dl = dfl.enclosing_loops(self.fn, self.par, dn)
            if [id(x) for x in dl] != [id(x) for x in loops[:len(dl)]]:
                continue
            chain = loops[len(dl):]          # loops between the declaration and the modification (outermost first); L is the last
            ok = True
            for j, Lj in enumerate(chain):
                ij = self.loops.get(id(Lj))
                if ij is None:
                    ok = False
                    break
                if len(chain) > 1:
                    # a running cursor over a loop nest has a closed form only if the nest is perfect: no early exits, inner extents invariant
                    if any(x.get("k") in ("Break", "Continue", "Return") for x in walk(Lj.get("body"))):
                        ok = False
                    if j > 0:
                        if any(a_.startswith("#") for a_ in ij["T"].atoms()):
                            ok = False
                        if not once_per_iteration(self.fn, self.par, chain[j - 1], Lj):
                            ok = False
            if not ok:
                continue
            self.ind[d] = (L, {"chain": chain, "sign": st[0], "step": st[1], "mod": mod, "decl": dn}, "cursor")

    def _iter_number(self, info):
        """number of completed iterations at the start of the current one, in terms of the canonical counter"""
        u = Poly.atom(info["counter"])
        return u if info["sign"] > 0 else info["T"] - Poly.const(1) - u

    def _phase(self, use, L, mod):
        """0: the use sees the value before this iteration's modification, 1: after it, None: not decidable"""
        chain_m = dfl.enclosing_stmt_chain(self.par, mod)
        if any(node is L and slot == "inc" for node, slot in chain_m):
            return 0
        if use is mod:
            return 0 if (mod.get("k") == "Un" and mod.get("post")) else 1

        def top_stmt(n):
            body = L.get("body")
            prev = n
            for node, slot in dfl.enclosing_stmt_chain(self.par, n):
                if node is body or node is L:
                    if node is L:
                        return ("L", slot, prev)
                    return ("body", node.get("s", []).index(prev) if node.get("k") == "Block" and prev in node.get("s", []) else 0, prev)
                prev = node
            return None
        tm, tu = top_stmt(mod), top_stmt(use)
        if tm is None or tu is None:
            return None
        if tu[0] == "L":
            return 0 if tu[1] == "c" else None
        if tm[0] == "L":
            return 0
        if tu[1] < tm[1]:
            return 0
        if tu[1] > tm[1]:
            return 1
        return None

    # ---- values --------------------------------------------------------------------------------------
    def val(self, n, use=None):
        """(array name | None, Poly): pointer into an array parameter with element offset, or an integer value; unknown parts are '?' atoms"""
        n = _strip(n)
        if n is None:
            return (None, Poly.atom("?"))
        use = use if use is not None else n
        k = n.get("k")
        if k == "Int":
            return (None, Poly.const(int(n["v"])))
        if k == "Bool":
            return (None, Poly.const(1 if n.get("v") else 0))
        if k == "Ref":
            dk = n.get("dk")
            if dk == "param":
                if n.get("d") in self.ptr_params:
                    return (n["n"], Poly())
                return (None, Poly.atom(n["n"]))
            if dk == "local":
                return self._local(n, use)
            if n.get("v") is not None:
                try:
                    return (None, Poly.const(int(n["v"])))
                except (TypeError, ValueError):
                    pass
            return (None, Poly.atom(n.get("qn") or n.get("n")))
        if k == "Bin" and n.get("op") in ("+", "-", "*"):
            a, b = self.val(n["lhs"], use), self.val(n["rhs"], use)
            op = n["op"]
            if op == "*":
                if a[0] is None and b[0] is None:
                    return (None, a[1] * b[1])
            elif op == "+":
                if a[0] is None or b[0] is None:
                    return (a[0] or b[0], a[1] + b[1])
            else:
                if b[0] is None:
                    return (a[0], a[1] - b[1])
                if a[0] == b[0]:
                    return (None, a[1] - b[1])
            return (None, Poly.atom("?" + render(n)[:40]))
        if k == "Bin" and n.get("op") in ("/", "%", "<<", ">>"):
            a, b = self.val(n["lhs"], use), self.val(n["rhs"], use)
            if a[0] is None and b[0] is None and not a[1].unknown() and not b[1].unknown():
                return (None, Poly.atom("[%s%s%s]" % (a[1].key(), n["op"], b[1].key())))
            return (None, Poly.atom("?" + render(n)[:40]))
        if k == "Un":
            op = n.get("op")
            if op == "&":
                e = _strip(n["e"])
                if e.get("k") == "Index":
                    b, i = self.val(e["b"], use), self.val(e["idx"], use)
                    if i[0] is None:
                        return (b[0], b[1] + i[1])
                if e.get("k") == "Un" and e.get("op") == "*":
                    return self.val(e["e"], use)
            if op == "-":
                a = self.val(n["e"], use)
                if a[0] is None:
                    return (None, -a[1])
            if op == "+":
                return self.val(n["e"], use)
            if op in ("++", "--") and n["e"].get("k") == "Ref" and n["e"].get("dk") == "local":
                return self._local(n["e"], n)
            if op == "*":
                a = self.addr(n)
                if a is not None:
                    return (None, Poly.atom("%s[%s]" % (a[0], a[1].key())))
        if k == "Index":
            a = self.addr(n)
            if a is not None:
                return (None, Poly.atom("%s[%s]" % (a[0], a[1].key())))
        if k == "SizeOf":
            return (None, Poly.atom(render(n)))
        if k == "Member" and (n.get("b") is None or n["b"].get("k") == "This"):
            return (None, Poly.atom("[this.%s]" % n.get("n")))
        if k == "MCall" and n.get("cconst") and not self.fn.ntype(n).strip().endswith("*"):
            # value of a const accessor (loop bound, size): an opaque but stable quantity if its receiver and arguments are
            o = n.get("obj")
            parts = []
            ok = True
            for x in ([o] if o is not None and o.get("k") != "This" else []) + list(n.get("a", [])):
                xs = _strip(x)
                if xs is not None and xs.get("k") == "Ref" and (xs.get("dk") == "param" or (xs.get("dk") == "local" and not self.mods.get(xs.get("d")) and xs.get("d") not in self.addr_taken)):
                    parts.append(xs.get("n"))
                elif xs is not None and xs.get("k") == "Member" and (xs.get("b") is None or xs["b"].get("k") == "This"):
                    parts.append("this." + xs.get("n"))
                else:
                    v = self.val(x, use)
                    if v[0] is not None or v[1].unknown():
                        ok = False
                    parts.append(v[1].key())
            if ok:
                return (None, Poly.atom("[%s:%s]" % (callee_name(n), ",".join(parts))))
        return (None, Poly.atom("?" + render(n)[:40]))

    def _local(self, ref, use):
        d = ref["d"]
        unk = (None, Poly.atom("?" + ref.get("n", "v")))
        if d in self._busy or d in self.addr_taken:
            return unk
        if d in self._pending:
            L0, a0 = self._pending[d]
            if any(node is L0 and slot == "init" for node, slot in dfl.enclosing_stmt_chain(self.par, use)):
                return a0
            return unk
        if d in self.ind:
            L, info, what = self.ind[d]
            if what == "primary":
                slots = [s for node, s in dfl.enclosing_stmt_chain(self.par, use) if node is L]
                if slots == ["init"]:
                    return (info["arr"], info["start"])
                if not slots:
                    return unk          # used outside its loop
                ph = self._phase(use, L, info["mod"])
                if ph is None:
                    return unk
                v = info["base"] + Poly.atom(info["counter"])
                if ph:
                    v = v + Poly.const(info["sign"])
                return (info["arr"], v)
            # cursor
            chain = info["chain"]
            if not any(node is L for node, s in dfl.enclosing_stmt_chain(self.par, use)):
                return unk
            ph = self._phase(use, L, info["mod"])
            if ph is None:
                return unk
            self._busy.add(d)
            try:
                w0 = self.val(info["decl"]["init"], info["decl"]["init"])
                step = (None, Poly.const(1)) if info["step"] is None else self.val(info["step"], info["mod"])
            finally:
                self._busy.discard(d)
            if step[0] is not None or step[1].unknown() or any(a_.startswith("#") for a_ in step[1].atoms()):
                return unk
            count = Poly()
            for Lj in chain:
                ij = self.loops[id(Lj)]
                count = count * ij["T"] + self._iter_number(ij)
            if ph:
                count = count + Poly.const(1)
            off = step[1] * count
            return (w0[0], w0[1] + (off if info["sign"] > 0 else -off))
        v = self.vars.get(d)
        if v is None or v.get("init") is None or self.mods.get(d):
            return unk
        self._busy.add(d)
        try:
            return self.val(v["init"], v["init"])
        finally:
            self._busy.discard(d)

    def addr(self, n):
        """(array, Poly) of an element access  b[e]  /  *p ; None if the base is not a pointer into an array parameter"""
        if n.get("k") == "Index":
            b, i = self.val(n["b"], n), self.val(n["idx"], n)
            if b[0] is None or i[0] is not None:
                return None
            return (b[0], b[1] + i[1])
        if n.get("k") == "Un" and n.get("op") == "*":
            b = self.val(n["e"], n)
            if b[0] is None:
                return None
            return b
        return None

    def expand(self, n, depth=0):
        """nodes of an expression with never-modified scalar locals replaced by their initialisers (named temporaries)"""
        out = []
        for x in walk(n):
            out.append(x)
            if x.get("k") == "Ref" and x.get("dk") == "local" and depth < 8:
                d = x["d"]
                v = self.vars.get(d)
                if v is not None and v.get("init") is not None and not self.mods.get(d) and d not in self.addr_taken and d not in self.ind \
                        and not self.fn.type(v.get("t")).strip().endswith("*"):
                    out.extend(self.expand(v["init"], depth + 1))
        return out

    # ---- accesses --------------------------------------------------------------------------------------
    def accesses(self):
        """[(array, offset key, 'store'|'load', op, node, rhs node|None)] + self.notes for constructs that are not modelled"""
        out = []
        lhs_ids = set()
        fn = self.fn
        for n in fn.nodes():
            k = n.get("k")
            if k == "Assign" and n["lhs"].get("k") in ("Index", "Un") and (n["lhs"].get("k") == "Index" or n["lhs"].get("op") == "*"):
                a = self.addr(n["lhs"])
                lhs_ids.add(id(n["lhs"]))
                if a is None:
                    self.notes.append((n.get("l"), "store through %s, whose base is not understood" % render(n["lhs"])[:50]))
                    continue
                out.append((a[0], a[1].key(), "store", n.get("op"), n, n["rhs"]))
            elif k == "Un" and n.get("op") in ("++", "--") and n["e"].get("k") in ("Index", "Un") and (n["e"].get("k") == "Index" or n["e"].get("op") == "*"):
                a = self.addr(n["e"])
                lhs_ids.add(id(n["e"]))
                if a is not None:
                    out.append((a[0], a[1].key(), "store", n["op"], n, None))
        for n in fn.nodes():
            k = n.get("k")
            if id(n) in lhs_ids:
                continue
            if k == "Index" or (k == "Un" and n.get("op") == "*"):
                pr = self.par.get(id(n))
                if pr is not None and pr[0].get("k") == "Un" and pr[0].get("op") == "&":
                    continue            # &b[e]: address computation, no access
                a = self.addr(n)
                if a is None:
                    if k == "Index" or self.val(n["e"], n)[0] is not None:
                        self.notes.append((n.get("l"), "element access %s not understood" % render(n)[:50]))
                    continue
                out.append((a[0], a[1].key(), "load", None, n, None))
        for n in fn.nodes():
            if n.get("k") != "Call":
                continue
            cal = strip_targs(n.get("callee", "") or "")
            args = n.get("a", [])
            if cal in ALGO_FILL + ALGO_COPY:
                vals = [self.val(a, n) for a in args]
                cname = None
                if cal in ("std::fill_n", "std::copy_n") and len(args) == 3 and vals[1][0] is None and not vals[1][1].unknown():
                    cname, first, rest = "#" + vals[1][1].key(), vals[0], (vals[2] if cal == "std::copy_n" else None)
                elif cal in ("std::fill", "std::copy") and len(args) == 3 and vals[0][0] is not None and vals[0][0] == vals[1][0] and not (vals[1][1] - vals[0][1]).unknown():
                    cname, first, rest = "#" + (vals[1][1] - vals[0][1]).key(), vals[0], (vals[2] if cal == "std::copy" else None)
                if cname is not None and first[0] is not None and (rest is None or rest[0] is not None):
                    u = Poly.atom(cname)
                    if cal in ALGO_FILL:
                        out.append((first[0], (first[1] + u).key(), "store", "=", n, args[2]))
                    else:
                        out.append((first[0], (first[1] + u).key(), "load", None, n, None))
                        out.append((rest[0], (rest[1] + u).key(), "store", "=", n, {"k": "Index", "b": args[0], "idx": {"k": "Int", "v": "0"}, "l": n.get("l")}))
                    continue
            hit = [a for a in args if self.val(a, n)[0] is not None]
            if hit:
                self.notes.append((n.get("l"), "%s receives a pointer into '%s' and is not modelled" % (render(n)[:50], self.val(hit[0], n)[0])))
        for n in fn.nodes():
            if n.get("k") in ("Do", "ForRange") or (n.get("k") in ("For", "While") and self.loops.get(id(n)) is None):
                self.notes.append((n.get("l"), "loop '%s' is not a recognised counting loop" % render(n)[:50]))
        return out


# =====================================================================================================
# path enumeration with condition atoms and a symbolic environment
# =====================================================================================================

def cond_formula(c, atom, env, resolve=None, depth=0):
    """boolean structure of a condition over user atoms: ('atom', name, truth) | ('not', f) | ('and', f, g) | ('or', f, g) | ('const', b) | None.
    atom(node, env) -> (name, truth-when-the-condition-holds) | None decides the leaves; resolve(node, env) looks through named bool locals."""
    if c is None or depth > 16:
        return None
    if resolve is not None:
        c = resolve(c, env)
    c = _strip(c)
    if c is None:
        return None
    k = c.get("k")
    if k == "Bool":
        return ("const", bool(c.get("v")))
    at = atom(c, env)
    if at is not None:
        return ("atom", at[0], at[1])
    if k == "Un" and c.get("op") == "!":
        f = cond_formula(c["e"], atom, env, resolve, depth + 1)
        return None if f is None else ("not", f)
    if k == "Bin" and c.get("op") in ("&&", "||"):
        f, g = cond_formula(c["lhs"], atom, env, resolve, depth + 1), cond_formula(c["rhs"], atom, env, resolve, depth + 1)
        return None if f is None or g is None else ("and" if c["op"] == "&&" else "or", f, g)
    return None


def formula_atoms(f, out=None):
    out = [] if out is None else out
    if f[0] == "atom":
        if f[1] not in out:
            out.append(f[1])
    elif f[0] != "const":
        for g in f[1:]:
            formula_atoms(g, out)
    return out


def formula_eval(f, val):
    t = f[0]
    if t == "const":
        return f[1]
    if t == "atom":
        return val[f[1]] == f[2]
    if t == "not":
        return not formula_eval(f[1], val)
    if t == "and":
        return formula_eval(f[1], val) and formula_eval(f[2], val)
    return formula_eval(f[1], val) or formula_eval(f[2], val)


def path_exits(fn, atom, on_stmt=None, resolve=None, max_paths=4000):
    """Enumerate the acyclic CFG paths entry -> normal exit / return.
    atom(cond node, env) -> (name, truth-when-the-condition-holds) | None: valuation of an atomic branch condition.  The CFG already splits
    the && / || / ?: written in a branch condition; conditions held in named bool locals (`const bool single = a || b; if(single)`) are
    expanded through resolve(node, env) and decided as boolean formulas, so De Morgan variants, nested ifs, flags and early returns all
    yield the same sets of atom valuations per path.
    on_stmt(node, cons, env, state) -> new state: user hook for every CFG element on the path.
    Returns [(kind, node, cons, unknown_conditions, env, state)] with kind 'return' (node = the Return statement), 'end' (fell off the
    end) or 'overflow'.  env: decl id -> expression node last assigned on this path (initialisers and plain `v = e` assignments of locals)."""
    import itertools
    cfg = fn.cfg
    out = []
    count = [0]

    def go(b, cons, unk, env, state, seen):
        count[0] += 1
        if count[0] > max_paths:
            out.append(("overflow", None, cons, True, env, state))
            return
        if b in seen:
            return          # loops: the first iteration is enough for the rules that use this (they look at straight-line protocols)
        blk = cfg.blocks[b]
        for e in blk["el"]:
            n = fn.by_id(e)
            if n is None:
                continue
            if n.get("k") == "Decl":
                for v in n.get("vars", []):
                    if v.get("init") is not None and not v.get("ref"):
                        env = dict(env)
                        env[v["d"]] = v["init"]
            elif n.get("k") == "Assign" and n["lhs"].get("k") == "Ref" and n["lhs"].get("dk") == "local":
                env = dict(env)
                env[n["lhs"]["d"]] = n["rhs"] if n.get("op") == "=" else {"k": "Opaque", "l": n.get("l")}
            elif n.get("k") == "Un" and n.get("op") in ("++", "--") and n["e"].get("k") == "Ref":
                env = dict(env)
                env[n["e"].get("d")] = {"k": "Opaque", "l": n.get("l")}
            if on_stmt is not None:
                state = on_stmt(n, cons, env, state)
            if n.get("k") == "Return":
                out.append(("return", n, cons, unk, env, state))
                return
        if blk.get("noreturn"):
            return
        succ = blk.get("succ", [])
        if blk.get("cond") is not None and len(succ) == 2:
            cnd = fn.by_id(blk["cond"])
            while cnd is not None and cnd.get("k") == "Bin" and cnd.get("op") in ("&&", "||"):
                cnd = cnd["rhs"]        # short-circuit operators are split by the CFG: this block tests the last operand
            f = cond_formula(cnd, atom, env, resolve) if cnd is not None else None
            if f is None:
                for sb in succ:
                    if sb is not None:
                        nxt(sb, cons, True, env, state, seen | {b})
            else:
                names = formula_atoms(f)
                free = [a for a in names if a not in cons]
                done = set()
                for vals in itertools.product((True, False), repeat=len(free)):
                    val = dict(cons)
                    val.update(zip(free, vals))
                    k_ = 0 if formula_eval(f, val) else 1
                    sb = succ[k_]
                    # only the atoms that the formula needed are recorded; a disjunction may leave several valuations per edge
                    key = (k_, tuple(sorted((a, val[a]) for a in names)))
                    if sb is None or key in done:
                        continue
                    done.add(key)
                    nxt(sb, dict(cons, **{a: val[a] for a in names}), unk, env, state, seen | {b})
        else:
            for sb in succ:
                if sb is not None:
                    nxt(sb, cons, unk, env, state, seen | {b})

    def nxt(sb, cons, unk, env, state, seen):
        if sb == cfg.exit:
            out.append(("end", None, cons, unk, env, state))
        else:
            go(sb, cons, unk, env, state, seen)
    go(cfg.entry, {}, False, {}, None, frozenset())
    return out


def env_value(rs, env, n, depth=0):
    """look through casts, move/forward, path-assigned locals (env) and never-assigned const/scalar locals"""
    while n is not None and depth < 24:
        depth += 1
        if n.get("k") == "Ref" and n.get("dk") == "local" and n.get("d") in env:
            n = env[n["d"]]
            continue
        m = rs.value(n)
        if m is n:
            break
        n = m
    return n


# =====================================================================================================
# helper inlining
# =====================================================================================================

def find_callee(facts, call, same_tu_only=True):
    """the Function (with body, not a pattern) a resolved call refers to, if it is defined in the dumped facts; else None"""
    full = call.get("cfull") or call.get("callee")
    if not full:
        return None
    idx = getattr(facts, "_norm_by_full", None)
    if idx is None:
        idx = {}
        for f in facts.functions:
            if f.tk != "pattern" and f.body is not None:
                idx.setdefault(f.full, []).append(f)
                idx.setdefault(("qn", f.qn), []).append(f)
                if f.d.get("decl") is not None:
                    idx.setdefault(("decl", f.d["decl"]), []).append(f)
        facts._norm_by_full = idx
    if call.get("cdecl") is not None:
        c = [f for f in idx.get(("decl", call["cdecl"]), []) if f.qn == call.get("callee")]
        if len(c) == 1:
            return c[0]
    c = idx.get(full) or []
    if len(c) == 1:
        return c[0]
    c = [f for f in idx.get(("qn", call.get("callee")), []) if len(f.params) == len(call.get("pn") or call.get("a", []))]
    return c[0] if len(c) == 1 else None


def return_expr(fn, local_updates=False):
    """the returned value of a small function as one expression: `if(c) return A; return B;` / `if(c) return A; else return B;` become
    Cond(c, A, B) (synthetic node); declarations are skipped (locals are resolved by the caller's resolver).  None if the body does
    anything else (loops, calls in statement position, assignments).  local_updates=True also skips statements without a return that
    only assign locals (`if(g) v = P.map(v);`) — for callers that resolve assigned locals themselves."""
    def only_local_updates(s):
        for x in walk(s):
            k = x.get("k")
            if k in ("Return", "For", "While", "Do", "ForRange", "Switch", "Throw", "Lambda", "Break", "Continue"):
                return False
            if k == "Assign" and not (x["lhs"].get("k") == "Ref" and x["lhs"].get("dk") == "local"):
                return False
            if k == "Un" and x.get("op") in ("++", "--") and not (x["e"].get("k") == "Ref" and x["e"].get("dk") == "local"):
                return False
            if is_call(x) and not x.get("cconst") and x.get("k") in ("MCall", "OpCall"):
                return False
            if is_call(x):
                for a, pn_, pt_ in dfl.call_args_with_params(x, fn):
                    if pt_ is not None and dfl.is_nonconst_ref(pt_):
                        return False
        return True

    def of(stmts):
        for i, s in enumerate(stmts):
            k = s.get("k")
            if k == "Decl":
                continue
            if local_updates and k in ("If", "Assign", "Un") and only_local_updates(s):
                continue
            if k == "Block":
                return of(s.get("s", []) + stmts[i + 1:])
            if k == "Return":
                return s.get("e")
            if k == "If" and not s.get("constexpr"):
                t = of([s["then"]])
                if t is None:
                    return None
                e = of([s["else"]]) if s.get("else") is not None else of(stmts[i + 1:])
                if e is None:
                    return None
                return {"k": "Cond", "c": s["c"], "then": t, "else": e, "l": s.get("l"), "synthetic": True}
            if k == "Call" and s.get("callee") == "FEAT::assertion":
                continue          # an always-on XASSERT states a belief, it does not change the value
            return None
        return None
    body = fn.body
    if body is None:
        return None
    return of(body.get("s", []) if body.get("k") == "Block" else [body])


# =====================================================================================================
# inlining of extracted helpers (fact tree + CFG), for rules that follow objects through a function
# =====================================================================================================

def _lambda_function(facts, fn, lam):
    """the dumped call operator of a Lambda node of fn"""
    if lam.get("op_decl") is not None:
        cands = [g for g in facts.functions if g.tk != "pattern" and g.body is not None and g.d.get("decl") == lam["op_decl"] and "<lambda" in (g.qn or "")]
        if len(cands) == 1:
            return cands[0]
        return None
    cands = [g for g in facts.functions if g.tk != "pattern" and g.body is not None and g.file == fn.file and g.line == lam.get("l") and "<lambda" in (g.qn or "")]
    return cands[0] if len(cands) == 1 else None


def inline_helpers(fn, select, rounds=2):
    """A copy of fn in which calls in statement position to helpers defined in the analysed sources are replaced by the helper's body
    (parameters become reference / const locals initialised with the argument expressions, the helper's CFG is spliced into the
    caller's), so that dominance, typestate and path rules see one function.  select(call, callee) decides which callees are inlined
    (the rules exclude the functions they model by name); lambdas called through a never-reassigned local are inlined too.
    Value-returning calls whose value is used, virtual and recursive callees are left alone.  Returns fn itself if nothing was inlined."""
    import copy
    facts = fn.facts
    if fn.cfg is None or fn.body is None:
        return fn
    cur = fn
    serial = [0]
    for _ in range(rounds):
        par = dfl.parents(cur)
        sites = []
        lam_of = {}
        for n in cur.nodes():
            if n.get("k") == "Var" and (n.get("init") or {}).get("k") == "Lambda":
                lam_of[n["d"]] = n["init"]
        assigned = dfl.assigned_decls(cur)
        for n in dfl.own_nodes(cur):
            g = None
            args = None
            if n.get("k") == "Call" or (n.get("k") == "MCall" and (n.get("obj") is None or n["obj"].get("k") == "This" or n.get("cstatic"))):
                g = find_callee(facts, n)
                args = n.get("a", [])
            elif n.get("k") == "OpCall" and n.get("op") == "()" and n.get("a") and n["a"][0].get("k") == "Ref" and n["a"][0].get("d") in lam_of and n["a"][0]["d"] not in assigned:
                g = _lambda_function(facts, fn, lam_of[n["a"][0]["d"]])
                args = n["a"][1:]
            if g is None or g.cfg is None or g.body is None or g.d.get("virtual") or g is fn or len(g.params) != len(args):
                continue
            if any(a_.get("k") == "Block" and a_.get("inlined") == g.qn for a_, s_ in dfl.enclosing_stmt_chain(par, n)):
                continue            # recursion
            pr = par.get(id(n))
            if pr is None or "i" not in n or cur.cfg.block_of(n["i"]) is None:
                continue
            pn, slot = pr
            tail = None
            if pn.get("k") == "Return" and slot == "e" and id(pn) in par:
                # `return helper(args);` — the helper's returns become the caller's returns
                tail = pn
                pn, slot = par[id(pn)]
            if not ((pn.get("k") == "Block" and isinstance(slot, tuple) and slot[0] == "s") or (pn.get("k") in ("If", "For", "While", "Do", "ForRange") and slot in ("then", "else", "body"))):
                continue
            if not select(n, g):
                continue
            sites.append((n, g, args, tail))
        if not sites:
            break
        d = copy.deepcopy(cur.d)
        new = featlib.Function(facts, d)
        byid = {}
        for x in new.nodes():
            if "i" in x:
                byid[x["i"]] = x
        npar = dfl.parents(new)
        next_i = max(byid) + 1
        blocks = d["cfg"]["blocks"]
        next_b = max(b["id"] for b in blocks) + 1
        exit_id = d["cfg"]["exit"]
        for call0, g, args0, tail0 in sites:
            call = byid[call0["i"]]
            tail = byid[tail0["i"]] if tail0 is not None else None
            args = call.get("a", []) if call.get("k") != "OpCall" else call["a"][1:]
            serial[0] += 1
            off_d = 10000000 * serial[0]
            gb = copy.deepcopy(g.body)
            gc = copy.deepcopy(g.d["cfg"])
            own = set()
            for x in walk(gb):
                if x.get("k") == "Var":
                    own.add(x["d"])
            pd = {p["d"] for p in g.params}
            imap = {}
            for x in walk(gb):
                if "i" in x:
                    imap[x["i"]] = next_i
                    x["i"] = next_i
                    next_i += 1
                if x.get("k") == "Var":
                    x["d"] = x["d"] + off_d
                elif x.get("k") == "Ref" and x.get("dk") in ("local", "param") and (x.get("d") in own or x.get("d") in pd):
                    x["d"] = x["d"] + off_d
                    x["dk"] = "local"
                elif x.get("k") == "Return" and tail is None:
                    x["k"] = "InlinedReturn"
            pvars = []
            for p, a in zip(g.params, args):
                t = g.type(p["t"]).strip()
                v = {"k": "Var", "n": p["n"], "d": p["d"] + off_d, "t": p["t"], "l": call.get("l"), "init": a, "inlined_param": True}
                if t.endswith("&"):
                    v["ref"] = True
                else:
                    v["const"] = True
                pvars.append(v)
            decl = {"k": "Decl", "i": next_i, "l": call.get("l"), "vars": pvars}
            next_i += 1
            blk = {"k": "Block", "i": next_i, "l": call.get("l"), "s": [decl, gb], "inlined": g.qn}
            next_i += 1
            pn, slot = npar[id(tail if tail is not None else call)]
            if isinstance(slot, tuple):
                pn[slot[0]][slot[1]] = blk
            else:
                pn[slot] = blk
            # ---- CFG ----
            where = None
            for b in blocks:
                if call["i"] in b["el"]:
                    where = b
                    break
            pos = where["el"].index(call["i"])
            post = {"id": next_b, "el": where["el"][pos + 1:], "succ": where.get("succ", [])}
            for k_ in ("term", "term_id", "cond", "label", "noreturn"):
                if k_ in where:
                    post[k_] = where.pop(k_)
            next_b += 1
            bmap = {}
            for b in gc["blocks"]:
                if tail is not None and b["id"] == gc["exit"]:
                    bmap[b["id"]] = exit_id          # tail call: the helper's returns leave the caller
                    continue
                bmap[b["id"]] = next_b
                next_b += 1
            where["el"] = where["el"][:pos] + [decl["i"]]
            where["succ"] = [bmap[gc["entry"]]]
            for b in gc["blocks"]:
                if tail is not None and b["id"] == gc["exit"]:
                    continue
                nb = dict(b)
                nb["id"] = bmap[b["id"]]
                els = []
                throws = False
                for e in b.get("el", []):
                    x_ = imap.get(e)
                    if x_ is None:
                        continue
                    els.append(x_)
                nb["el"] = els
                for k_ in ("term_id", "cond"):
                    if k_ in nb and nb[k_] is not None:
                        nb[k_] = imap.get(nb[k_])
                if b["id"] == gc["exit"]:
                    nb["succ"] = [post["id"]]
                elif b.get("noreturn"):
                    nb["succ"] = [exit_id]
                else:
                    nb["succ"] = [bmap[s_] if s_ is not None else None for s_ in b.get("succ", [])]
                blocks.append(nb)
            if tail is None:
                blocks.append(post)
            for x in walk(gb):
                if "i" in x:
                    byid[x["i"]] = x
            # a throw inside the helper leaves the caller as well
            for b in blocks:
                if b["id"] in bmap.values() and any((byid.get(e) or {}).get("k") == "Throw" for e in b.get("el", [])):
                    b["succ"] = [exit_id]
        new._byid = None
        # a closure whose every use was an inlined call is dead: drop its body so that the statements exist once (in the inlined place)
        inlined_calls = {c0["i"] for c0, g_, a_, t_ in sites if c0.get("k") == "OpCall"}
        if inlined_calls:
            lam_vars = {}
            for x in new.nodes():
                if x.get("k") == "Var" and (x.get("init") or {}).get("k") == "Lambda":
                    lam_vars[x["d"]] = x
            uses = {}
            for x in dfl.own_nodes(new):
                if x.get("k") == "Ref" and x.get("d") in lam_vars:
                    uses[x["d"]] = uses.get(x["d"], 0) + 1
            for d_, v_ in lam_vars.items():
                ncalls = sum(1 for c0, g_, a_, t_ in sites if c0.get("k") == "OpCall" and c0["a"][0].get("d") == d_)
                # (the callee operand of an inlined call was removed from the tree together with the call statement)
                if ncalls and uses.get(d_, 0) == 0:
                    v_["init"] = dict(v_["init"], body=None, inlined=True)
        # InlinedReturn statements are no CFG elements of the caller
        ir = {x["i"] for x in new.nodes() if x.get("k") == "InlinedReturn" and "i" in x}
        for b in blocks:
            b["el"] = [e for e in b["el"] if e not in ir]
        new.inlined_from = getattr(cur, "inlined_from", []) + [g.qn for _, g, _, _ in sites]
        cur = new
    return cur


class Trial:
    """records the obligations / incomplete answers of a rule run so that the caller can decide which of two runs (plain, helpers inlined) to commit"""

    def __init__(self, ck):
        self.ck = ck
        self.log = []

    def __getattr__(self, name):
        return getattr(self.ck, name)

    def ob(self, *a, **k):
        self.log.append(("ob", a, k))
        return a[2] if len(a) > 2 else k.get("ok")

    def incomplete(self, *a, **k):
        self.log.append(("incomplete", a, k))

    def note(self, *a, **k):
        self.log.append(("note", a, k))

    def incompletes(self):
        return [e for e in self.log if e[0] == "incomplete"]

    def violations(self):
        return [e for e in self.log if e[0] == "ob" and not (e[1][2] if len(e[1]) > 2 else e[2].get("ok"))]

    def commit(self):
        for what, a, k in self.log:
            getattr(self.ck, what)(*a, **k)
        self.log = []


class InlinedFacts:
    """view of a fact base in which every function has its same-file helpers inlined (see inline_helpers); built lazily, once"""

    def __init__(self, facts, select_for):
        self._facts = facts
        self._select_for = select_for
        self._functions = None

    def __getattr__(self, name):
        return getattr(self._facts, name)

    @property
    def functions(self):
        if self._functions is None:
            self._functions = [inline_helpers(f, self._select_for(f)) if f.tk != "pattern" else f for f in self._facts.functions]
        return self._functions


def run_with_inlining(ck, rule_fn, facts, inlined_facts, *args, **kw):
    """run rule_fn(ck, facts, ...) ; if it answers 'construct not modelled' somewhere, run it again on the fact base with extracted helpers inlined and
    commit the run that decides more (fewer incomplete answers), or the inlined run if it finds a definite violation"""
    t1 = Trial(ck)
    rule_fn(t1, facts, *args, **kw)
    if t1.incompletes():
        t2 = Trial(ck)
        rule_fn(t2, inlined_facts, *args, **kw)
        if len(t2.incompletes()) < len(t1.incompletes()) or (t2.violations() and not t1.violations()):
            t1 = t2
    t1.commit()
