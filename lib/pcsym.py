"""pcsym: (1) symbolic evaluation of straight-line LAFEM vector code as linear operators (C08 E5),
          (2) interprocedural member read / fresh-value-write summaries (C08 E8).

(1) Vectors are words of non-commutative operator symbols applied to the input vector `f`:
      A      the system matrix            D   its diagonal (as a diagonal operator)
      w      the relaxation parameter (commutative)
    Semantics table (parameter names of the LAFEM methods):
      r.copy(x)                  r := x              r.scale(x, alpha)            r := alpha x
      r.axpy(x, alpha=1)         r := r + alpha x    r.component_product(x, y)    r := x y  (diagonal operand first)
      r.component_invert(x, a)   r := a x^-1         M.extract_diag(d)            d := D
      M.apply(r, x)              r := A x            filter_def / filter_cor      identity (decided by E7 instead)
(2) Fields are identified by their qualified name.  A *fresh value write* of a field is a write whose
    source is the matrix' value array (val(), extract_diag) and that does not read the field itself.
"""
import re

import sympy

from mgfacts import FnView, strip, walk, kids
from featlib import render, is_call


class NotStraight(Exception):
    pass


def nc(name):
    return sympy.Symbol(name, commutative=False)


W = sympy.Symbol("w", commutative=True)
A, D, F = nc("A"), nc("D"), nc("f")


def this_field(n):
    n = strip(n)
    if n.get("k") == "Member" and strip(n.get("b") or {"k": "This"}).get("k") == "This":
        return n.get("n")
    return None


class VecEval:
    """evaluates the vector statements of one method; env maps ('m',field)/('p',param name) -> expr"""

    def __init__(self, view, env, matrix_field="_matrix", diag_fields=(), methods=None, depth=0):
        self.v = view
        self.methods = methods or {}
        self.depth = depth
        self.env = dict(env)
        self.matrix_field = matrix_field
        self.diag_fields = set(diag_fields)
        self.notes = []
        self.skip_if = set()      # ids of if-statements the caller has decided to be irrelevant (early-out for an empty system)

    def key(self, n):
        n = strip(n)
        # an object held through a pointer member / smart pointer: *_diag, *_diag.get()
        while (n.get("k") == "Un" and n.get("op") == "*") or (n.get("k") == "OpCall" and n.get("op") == "*" and len(n.get("a", [])) == 1) \
                or (n.get("k") == "MCall" and n.get("n") == "get" and not n.get("a") and n.get("obj") is not None):
            n = strip(n["e"] if n.get("k") == "Un" else (n["a"][0] if n.get("k") == "OpCall" else n["obj"]))
        f = this_field(n)
        if f is not None:
            return ("m", f)
        if n.get("k") == "Ref" and n.get("dk") == "param":
            return ("p", n["n"])
        if n.get("k") == "Ref" and n.get("dk") == "local":
            var = self.v.locals.get(n["d"])
            if var is not None and not self.v.writes.get(n["d"]) and var.get("init") is not None and var.get("ref"):
                return self.key(var["init"])
        raise NotStraight("vector operand %s" % render(n))

    def get(self, n):
        k = self.key(n)
        if k not in self.env:
            raise NotStraight("use of %s before it is defined" % render(n))
        return self.env[k]

    def scalar(self, n):
        n = self.v.value(n)
        k = n.get("k")
        if k in ("Int", "Float"):
            return sympy.nsimplify(n.get("text") or n["v"], rational=True)
        f = this_field(n)
        if f == "_omega":
            return W
        if k == "Un" and n.get("op") == "-":
            return -self.scalar(n["e"])
        if k == "Bin" and n.get("op") in "+-*/":
            a, b = self.scalar(n["lhs"]), self.scalar(n["rhs"])
            return {"+": a + b, "-": a - b, "*": a * b, "/": a / b}[n["op"]]
        raise NotStraight("scalar %s" % render(n))

    def is_diag(self, n):
        try:
            k = self.key(n)
        except NotStraight:
            return False
        return k[0] == "m" and k[1] in self.diag_fields

    def stmt(self, n):
        """returns False if the statement is not a vector statement (ignored)"""
        n = strip(n)
        if n.get("k") != "MCall":
            return False
        nm = n.get("n")
        obj = n.get("obj")
        a = n.get("a", [])
        if obj is None or strip(obj).get("k") == "This":
            # private helper of the same class without arguments: evaluate its body in place
            cal = self.methods.get(nm)
            if cal is not None and not a and not cal.params and self.depth < 4:
                sub = VecEval(FnView(cal), self.env, self.matrix_field, self.diag_fields, self.methods, self.depth + 1)
                sub.run(cal.body.get("s", []))
                self.env = sub.env
                self.diag_fields |= sub.diag_fields
                return True
            if nm in ("name",):
                return False
            raise NotStraight("call of member function %s()" % nm)
        obj = self.v.value(obj)
        of = this_field(obj) if obj is not None else None
        if of == self.matrix_field:
            if nm == "extract_diag" and len(a) == 1:
                self.env[self.key(a[0])] = D
                self.diag_fields.add(self.key(a[0])[1])
                return True
            if nm == "apply" and len(a) == 2:
                self.env[self.key(a[0])] = sympy.expand(A * self.get(a[1]))
                return True
            if nm == "apply" and len(a) == 4:
                self.env[self.key(a[0])] = sympy.expand(self.get(a[2]) + self.scalar(a[3]) * A * self.get(a[1]))
                return True
            if nm in ("create_vector_r", "create_vector_l", "rows", "columns", "used_elements", "size"):
                return False
            raise NotStraight("matrix method %s" % nm)
        if of == "_filter":
            if nm in ("filter_def", "filter_cor"):
                self.notes.append(nm)
                return True
            raise NotStraight("filter method %s" % nm)
        try:
            r = self.key(obj)
        except NotStraight:
            return False
        if nm == "copy" and len(a) >= 1:
            self.env[r] = self.get(a[0])
        elif nm == "scale" and len(a) == 2:
            self.env[r] = sympy.expand(self.scalar(a[1]) * self.get(a[0]))
        elif nm == "axpy" and len(a) == 2:
            self.env[r] = sympy.expand(self.get(obj) + self.scalar(a[1]) * self.get(a[0]))
        elif nm == "component_product" and len(a) == 2:
            x, y = a
            if self.is_diag(y) and not self.is_diag(x):
                x, y = y, x
            self.env[r] = sympy.expand(self.get(x) * self.get(y))
        elif nm == "component_invert" and len(a) == 2:
            if not self.is_diag(a[0]):
                raise NotStraight("component_invert of a non-diagonal operand")
            self.env[r] = sympy.expand(self.scalar(a[1]) * self.get(a[0]) ** -1)
            self.diag_fields.add(r[1])
        elif nm == "format":
            self.env[r] = sympy.Integer(0)
        elif nm in ("size", "clear", "elements", "template size"):
            return False
        elif n.get("cconst"):
            return False
        else:
            raise NotStraight("vector method %s" % nm)
        return True

    def run(self, stmts, loop_hook=None):
        for s in stmts:
            k = s.get("k")
            if k in ("For", "While", "Do"):
                if loop_hook is None:
                    raise NotStraight("loop in straight-line code")
                loop_hook(self, s)
            elif k == "If" and s.get("i") in self.skip_if:
                continue
            elif k in ("If", "Switch"):
                raise NotStraight("branch in straight-line vector code")
            elif k == "Block":
                self.run(s.get("s", []), loop_hook)
            else:
                self.stmt(s)
        return self.env


# -------------------------------------------------------------------------------------------------
# member summaries
# -------------------------------------------------------------------------------------------------

VALUE_WRITERS = {"extract_diag": 0}          # matrix method -> index of the output argument written from values
VALUE_ACCESS = ("val", "extract_diag", "apply", "apply_transposed", "lump_rows", "extract_diag_inv", "operator()")


def is_matrix_type(t):
    return "SparseMatrix" in (t or "")


class Summaries:
    def __init__(self, facts):
        self.byfull = {}
        for f in facts.functions:
            if f.tk == "pattern":
                continue
            self.byfull.setdefault((f.cls, f.name, len(f.params)), []).append(f)
        self.views = {}
        self.memo = {}

    def view(self, f):
        if id(f) not in self.views:
            self.views[id(f)] = FnView(f)
        return self.views[id(f)]

    def callee(self, call):
        cls = call.get("ccls")
        nm = (call.get("callee") or "").rsplit("::", 1)[-1]
        c = self.byfull.get((cls, nm, len(call.get("pn") or [])))
        if c and len(c) == 1:
            return c[0]
        if c:
            # overloads with equal arity: match parameter names
            for f in c:
                if [p["n"] for p in f.params] == list(call.get("pn") or []):
                    return f
        return None

    def analyse(self, f, tainted=frozenset(), depth=0):
        """-> dict(reads=set(field qn), fresh=set(field qn), writes=set(field qn), value_access=[(line, text)], calls=[...])"""
        key = (id(f), tainted)
        if key in self.memo:
            return self.memo[key]
        res = {"reads": set(), "fresh": set(), "writes": set(), "value_access": [], "stmts": {}, "opaque": set()}
        self.memo[key] = res
        if depth > 8:
            return res
        v = self.view(f)
        tainted_d = set()
        for p in f.params:
            if p["n"] in tainted:
                tainted_d.add(p["d"])

        def field_of(n, depth2=0):
            """field qn if n denotes (storage of) a field of this, directly or through .data()/[]/alias"""
            n = strip(n)
            k = n.get("k")
            if depth2 > 8:
                return None
            if k == "Member" and strip(n.get("b") or {"k": "This"}).get("k") == "This":
                return n.get("qn") or n.get("n")
            if k == "Index":
                return field_of(n["b"], depth2 + 1)
            if k == "OpCall" and n.get("op") == "[]":
                return field_of(n["a"][0], depth2 + 1)
            if k == "MCall" and n.get("n") in ("data", "elements", "at", "front", "back", "begin"):
                return field_of(n.get("obj"), depth2 + 1)
            if k == "Cond":
                return field_of(n["then"], depth2 + 1) or field_of(n["else"], depth2 + 1)
            if k == "Ref" and n.get("dk") == "local":
                var = v.locals.get(n["d"])
                if var is not None and not v.writes.get(n["d"]) and var.get("init") is not None:
                    return field_of(var["init"], depth2 + 1)
            return None

        def is_tainted(n, depth2=0):
            for x in walk(n):
                k = x.get("k")
                if k == "MCall" and x.get("n") == "val" and is_matrix_type(x.get("ccls")):
                    return True
                if k == "Ref" and x.get("d") in tainted_d:
                    return True
                if k == "Ref" and x.get("dk") == "local" and depth2 < 6:
                    var = v.locals.get(x["d"])
                    if var is not None and var.get("init") is not None and is_tainted(var["init"], depth2 + 1):
                        return True
            return False

        # writes / reads of fields
        written_nodes = set()
        for n in walk(f.body):
            k = n.get("k")
            if k == "Assign":
                fl = field_of(n["lhs"])
                if fl is not None:
                    res["writes"].add(fl)
                    for x in walk(n["lhs"]):
                        written_nodes.add(id(x))
                    reads_self = any(field_of(x) == fl for x in walk(n["rhs"]) if x.get("k") in ("Member", "Ref")) or n.get("op") != "="
                    if is_tainted(n["rhs"]) and not reads_self:
                        res["fresh"].add(fl)
                        res["stmts"].setdefault(fl, []).append(n.get("i"))
            elif k == "Un" and n.get("op") in ("++", "--"):
                fl = field_of(n["e"])
                if fl is not None:
                    res["writes"].add(fl)
            elif k == "OpCall" and n.get("op") in ("=", "+=", "-=", "*=", "/=") and len(n.get("a", [])) == 2 and field_of(n["a"][0]) is not None:
                # class-type assignment (Tiny::Matrix / Tiny::Vector elements)
                fl = field_of(n["a"][0])
                res["writes"].add(fl)
                for x in walk(n["a"][0]):
                    written_nodes.add(id(x))
                reads_self = any(field_of(x) == fl for x in walk(n["a"][1]) if x.get("k") in ("Member", "Ref")) or n.get("op") != "="
                if is_tainted(n["a"][1]) and not reads_self:
                    res["fresh"].add(fl)
                    res["stmts"].setdefault(fl, []).append(n.get("i"))
            elif k in ("MCall", "Call", "OpCall", "Construct"):
                nm = n.get("n") or (n.get("callee") or "").rsplit("::", 1)[-1]
                obj = n.get("obj")
                # matrix value access
                if k == "MCall" and nm in VALUE_ACCESS and is_matrix_type(n.get("ccls")):
                    res["value_access"].append((n.get("l"), "%s::%s" % (re.sub(r"<.*", "", n.get("ccls", "")).rsplit("::", 1)[-1], nm)))
                if k == "MCall" and nm in VALUE_WRITERS and is_matrix_type(n.get("ccls")):
                    a = n.get("a", [])
                    idx = VALUE_WRITERS[nm]
                    if idx < len(a):
                        fl = field_of(a[idx])
                        if fl is not None:
                            res["writes"].add(fl)
                            res["fresh"].add(fl)
                            res["stmts"].setdefault(fl, []).append(n.get("i"))
                            for x in walk(a[idx]):
                                written_nodes.add(id(x))
                    continue
                cal = self.callee(n) if k == "MCall" else None
                if cal is not None and (obj is None or strip(obj).get("k") == "This" or field_of(obj) is not None):
                    t2 = frozenset(pn for pn, arg in zip(n.get("pn") or [], n.get("a") or []) if is_tainted(arg))
                    # a matrix passed by reference carries its values with it
                    t2 = t2 | frozenset(pn for pn, pt, arg in zip(n.get("pn") or [], n.get("pt") or [], n.get("a") or [])
                                        if is_matrix_type(f.type(pt)) and False)
                    sub = self.analyse(cal, t2, depth + 1)
                    res["reads"] |= sub["reads"]
                    res["writes"] |= sub["writes"]
                    res["fresh"] |= sub["fresh"]
                    res["value_access"] += sub["value_access"]
                    res["opaque"] |= sub["opaque"]
                    for fl in sub["fresh"]:
                        res["stmts"].setdefault(fl, []).append(n.get("i"))
                    if obj is not None and field_of(obj) is not None:
                        (res["reads"] if n.get("cconst") else res["writes"]).add(field_of(obj))
                        for x in walk(obj):
                            written_nodes.add(id(x))
                    continue
                # unresolved callee: receiver field written if the method is non-const, arguments written if taken by non-const reference
                known_vec = ("component_invert", "component_product", "scale", "axpy", "copy", "format", "clear", "resize", "data", "elements",
                             "create_vector_r", "create_vector_l", "operator=", "clone", "empty", "size", "push_back", "assign", "reserve")
                if obj is not None:
                    fl = field_of(obj)
                    if fl is not None and not n.get("cconst"):
                        res["writes"].add(fl)
                        if nm not in known_vec:
                            res["opaque"].add(fl)
                for pt, arg in zip(n.get("pt") or [], n.get("a") or []):
                    fl = field_of(arg)
                    ty = f.type(pt) if isinstance(pt, int) else ""
                    if fl is not None and ("&" in ty or "*" in ty) and not ty.strip().startswith("const "):
                        res["writes"].add(fl)
                        res["opaque"].add(fl)
        for n in walk(f.body):
            if n.get("k") == "Member" and id(n) not in written_nodes:
                fl = field_of(n)
                if fl is not None:
                    res["reads"].add(fl)
        return res
