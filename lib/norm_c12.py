"""norm_c12: small normalisation helpers shared by checks/c12.py and checks/c19.py (round 5: behaviour-preserving refactorings).

  * null tests         : which truth value of a condition implies `p != nullptr` (if(p), if(p != nullptr), if(bool(p)), if(p.get()),
                         !, &&, || with the usual one-sided implications)
  * leaving branches   : does a statement always leave the enclosing iteration / function (continue, break, return, throw, noreturn)
  * guarded_nonnull    : is a call event of an ikinds.FnKinds walk control dependent on a non-null test of a local (enclosing if with
                         the right polarity, or a dominating `if(!p) continue/return/break;`), with no redefinition in between

Nothing here depends on one property; only featlib fact trees and ikinds events are read.
"""
from featlib import walk, children
from ikinds import strip


def _is_null(n):
    n = strip(n)
    if n is None:
        return False
    if n.get("k") == "Null":
        return True
    if n.get("k") == "Int" and str(n.get("v")) == "0":
        return True
    if n.get("k") in ("Construct", "TempObj") and not n.get("a") and "unique_ptr" in (n.get("callee") or ""):
        return True
    return False


def _is_ptr(n, decl):
    """n denotes the pointer held by the local `decl`: p, p.get(), bool(p), static_cast<bool>(p), p.operator bool()"""
    n = strip(n)
    for _ in range(4):
        if n is None:
            return False
        if n.get("k") == "Ref" and n.get("d") == decl:
            return True
        if n.get("k") == "MCall" and not n.get("a") and (n.get("n") in ("get", "operator bool") or (n.get("n") or "").startswith("operator ")):
            n = strip(n.get("obj"))
            continue
        if n.get("k") in ("Construct", "TempObj", "Cast") and len(n.get("a", [])) == 1:
            n = strip(n["a"][0])
            continue
        return False
    return False


def null_test(cond, decl):
    """-> (t, f): t = `cond true implies p non-null`, f = `cond false implies p non-null` (p = local with decl id `decl`)"""
    c = strip(cond)
    if c is None:
        return False, False
    k = c.get("k")
    if _is_ptr(c, decl):
        return True, False
    if k == "Un" and c.get("op") == "!":
        t, f = null_test(c["e"], decl)
        return f, t
    if k == "OpCall" and c.get("op") == "!" and len(c.get("a", [])) == 1:
        t, f = null_test(c["a"][0], decl)
        return f, t
    sides = None
    if k == "Bin" and c.get("op") in ("!=", "=="):
        sides, op = (c["lhs"], c["rhs"]), c["op"]
    elif k == "OpCall" and c.get("op") in ("!=", "==") and len(c.get("a", [])) == 2:
        sides, op = (c["a"][0], c["a"][1]), c["op"]
    elif k == "Call" and (c.get("callee") or "").startswith("std::operator") and len(c.get("a", [])) == 2 and (c.get("callee") or "")[13:15] in ("!=", "=="):
        sides, op = (c["a"][0], c["a"][1]), c["callee"][13:15]
    if sides is not None:
        a, b = sides
        if (_is_ptr(a, decl) and _is_null(b)) or (_is_ptr(b, decl) and _is_null(a)):
            return (True, False) if op == "!=" else (False, True)
        return False, False
    if k == "Bin" and c.get("op") == "&&":
        t1, f1 = null_test(c["lhs"], decl)
        t2, f2 = null_test(c["rhs"], decl)
        return (t1 or t2), (f1 and f2)
    if k == "Bin" and c.get("op") == "||":
        t1, f1 = null_test(c["lhs"], decl)
        t2, f2 = null_test(c["rhs"], decl)
        return (t1 and t2), (f1 or f2)
    return False, False


def null_exact(cond, decl):
    """'nonnull' / 'null': the condition is EQUIVALENT to p != nullptr / p == nullptr (p, !p, p != nullptr, p == nullptr, p.get(), bool(p)); else None"""
    c = strip(cond)
    if c is None:
        return None
    if _is_ptr(c, decl):
        return "nonnull"
    inner = None
    if c.get("k") == "Un" and c.get("op") == "!":
        inner = c["e"]
    elif c.get("k") == "OpCall" and c.get("op") == "!" and len(c.get("a", [])) == 1:
        inner = c["a"][0]
    if inner is not None:
        r = null_exact(inner, decl)
        return {"nonnull": "null", "null": "nonnull"}.get(r)
    t, f = null_test(c, decl)
    if c.get("k") in ("Bin", "OpCall", "Call") and (c.get("op") in ("!=", "==") or "operator" in (c.get("callee") or "")):
        if t and not f:
            return "nonnull"
        if f and not t:
            return "null"
    return None


def bool_polarity(cond, decl=None, name=None):
    """+1: the condition is the boolean variable itself (b, b == true, b != false, true == b), -1: its negation (!b, b == false, b != true); None otherwise"""
    c = strip(cond)
    if c is None:
        return None
    if c.get("k") == "Ref" and ((decl is not None and c.get("d") == decl) or (name is not None and c.get("n") == name)):
        return 1
    if c.get("k") == "Un" and c.get("op") == "!":
        r = bool_polarity(c["e"], decl, name)
        return -r if r else None
    if c.get("k") == "Bin" and c.get("op") in ("==", "!="):
        l, r = strip(c["lhs"]), strip(c["rhs"])
        for x, b in ((l, r), (r, l)):
            if b.get("k") == "Bool":
                p = bool_polarity(x, decl, name)
                if p:
                    val = bool(b.get("v")) and str(b.get("v")).lower() not in ("false", "0")
                    same = (c["op"] == "==") == val
                    return p if same else -p
    return None


def always_leaves(s):
    """the statement never falls through to its successor: ends in continue / break / return / throw / a noreturn call on every path"""
    if s is None:
        return False
    k = s.get("k")
    if k in ("Continue", "Break", "Return", "Throw"):
        return True
    if k == "Block":
        return any(always_leaves(x) for x in s.get("s", []))
    if k == "If":
        return s.get("else") is not None and always_leaves(s.get("then")) and always_leaves(s.get("else"))
    if k in ("Call", "MCall") and s.get("noreturn"):
        return True
    return False


def _leaves_function(s):
    if s is None:
        return False
    k = s.get("k")
    if k in ("Return", "Throw"):
        return True
    if k in ("Call", "MCall") and s.get("noreturn"):
        return True
    if k == "Block":
        return any(_leaves_function(x) for x in s.get("s", []))
    if k == "If":
        return s.get("else") is not None and _leaves_function(s.get("then")) and _leaves_function(s.get("else"))
    return False


def mentions(node, decl):
    return any(x.get("k") == "Ref" and x.get("d") == decl for x in walk(node))


def guarded_nonnull(fk, call_ev, decl, name):
    """Is the call event control dependent on a non-null test of the local (decl, name)?
       -> (True, text)  a guard with the right polarity governs the call and the local is not redefined / handed on in between
          ("null", text) the call is governed by the NEGATED test: it is reached only with a null pointer
          (None, text)  a test of the local governs the call but something in between is not understood
          (False, None) no such guard"""
    def disturbed(lo, hi):
        for x in fk.events:
            if x.seq <= lo or x.seq >= hi or x is call_ev or x.node is call_ev.node:
                continue
            if x.kind == "obj-assign" and x.get("key") == name:
                return "assigned again at line %s" % x.node.get("l")
            if x.kind != "call":
                continue
            if x.name in ("reset", "release", "swap") and x.node.get("obj") is not None and mentions(x.node.get("obj"), decl):
                return "changed by %s() at line %s" % (x.name, x.node.get("l"))
            for a in x.node.get("a", []):
                # handed on between the test and the use (a moved-from unique_ptr is null)
                if any(y.get("k") == "Call" and (y.get("callee") or "") in ("std::move", "std::forward", "std::swap", "std::exchange") and mentions(y, decl) for y in walk(a)):
                    return "handed to %s() at line %s" % (x.name, x.node.get("l"))
        return None

    def loop_between(frames):
        return any(f.kind == "loop" for f in frames)
    ifs = {id(e.node): e for e in fk.events if e.kind == "if"}
    # (a) enclosing if with the right polarity
    for f in call_ev.frames:
        if f.kind != "if":
            continue
        ex = null_exact(f.node.get("c"), decl)
        if ex is not None and ((ex == "null") == (f.branch == "then")):
            ie = ifs.get(id(f.node))
            if not disturbed(ie.seq if ie is not None else 0, call_ev.seq) and not loop_between(call_ev.frames[call_ev.frames.index(f) + 1:]):
                return "null", "the call sits in the %s branch of `%s`, i.e. it is reached exactly when %s is null" % (f.branch, _txt(fk, f.node.get("c")), name)
        t, fl = null_test(f.node.get("c"), decl)
        if (f.branch == "then" and t) or (f.branch == "else" and fl):
            ie = ifs.get(id(f.node))
            why = disturbed(ie.seq if ie is not None else 0, call_ev.seq)
            if not why and loop_between(call_ev.frames[call_ev.frames.index(f) + 1:]):
                why = "used inside a loop that the test does not belong to"
            if why:
                return None, "the non-null test `%s` governs the call, but %s is %s" % (fk.canon(f.node.get("c")), name, why)
            return True, "the call is control dependent on `%s`" % _txt(fk, f.node.get("c"))
    # (b) dominating early exit: if(<p is null>) continue / break / return;  at a nesting level that encloses the call
    for e in fk.events:
        if e.kind != "if" or e.seq > call_ev.seq:
            continue
        if len(e.frames) > len(call_ev.frames) or any(a.node is not b.node or a.branch != b.branch for a, b in zip(e.frames, call_ev.frames)):
            continue
        if any(f.node is e.node for f in call_ev.frames):
            continue
        t, fl = null_test(e.node.get("c"), decl)
        if fl and always_leaves(e.node.get("then")):
            pass
        elif t and e.node.get("else") is not None and always_leaves(e.node.get("else")):
            pass
        else:
            continue
        why = disturbed(e.seq, call_ev.seq)
        if not why and loop_between(call_ev.frames[len(e.frames):]):
            why = "used inside a loop that the test does not belong to"
        if why:
            return None, "the early exit under `%s` precedes the call, but %s is %s" % (_txt(fk, e.node.get("c")), name, why)
        return True, "the call is only reached past the early exit `if(%s) ...;`" % _txt(fk, e.node.get("c"))
    return False, None


def _txt(fk, c):
    from featlib import render
    return render(c)[:70]


# =================================================================================================
# tree normalisation: std algorithms as the loops they stand for, helper calls inlined
# =================================================================================================
import copy
import re
import featlib
from featlib import render, is_call

_FRESH_DECL = [10 ** 8]
_FRESH_NODE = [10 ** 7]


def _fresh_decl():
    _FRESH_DECL[0] += 1
    return _FRESH_DECL[0]


class Normaliser:
    """Rewrites the statement trees of featlib Functions in place (the CFG and the id map of the ORIGINAL nodes stay available:
    `orig_nodes(fn)`), so that every rule written over loops / assignments sees

      * std::iota / std::copy / std::copy_n / std::fill / std::fill_n / in-place std::partial_sum / std::swap and
        vector.insert(end, first, last) as the hand-written loops they stand for (index loops over pointer / vector ranges, iterator loops
        over adjactor ranges), and
      * calls of small repo helpers (member helpers of the same class called on `this`, static members, free functions of the same file /
        an anonymous namespace) with the callee's body spliced in: parameters become (reference) locals bound to the arguments, a returned
        local is merged with the variable that receives the result.  Only helpers with a single `return` at the end (or none) are inlined;
        virtual, recursive and contract functions (names in `keep`) never are.

    Both rewrites are exact (same statements in the same order on the same objects); what cannot be rewritten is left as the call it is and
    remains visible to `ikinds.elsewhere` as an unmodelled construct."""

    ALGOS = ("std::iota", "std::copy", "std::copy_n", "std::fill", "std::fill_n", "std::partial_sum", "std::swap")

    def __init__(self, findex, keep=(), max_depth=2, inline=True, else_of_return=(), continue_guards=True):
        """keep: function names (regular expressions, full match) that are never inlined: the vocabulary the rules of the check
        interpret by name (contract accessors, render functions, helpers that are anchors of their own rules)"""
        self.findex = findex
        self.keep = re.compile("|".join("(?:%s)" % k for k in keep) or r"(?!x)x")
        self.max_depth = max_depth
        self.inline = inline
        # functions (regex on the full name) in which `if(c) { A; return; } B;` is rewritten to `if(c) { A; return; } else { B }`
        self.else_of_return = re.compile("|".join("(?:%s)" % k for k in else_of_return) or r"(?!x)x")
        self._eor = False
        self.inlined = {}     # full name of a helper -> number of call sites where its body replaced the call
        # `if(c) continue; rest` directly in a loop body is read as `if(!c) { rest }`
        self.continue_guards = continue_guards
        self.state = {}       # id(fn) -> "busy" | "done"
        self.log = {}         # fn.full -> [text]
        self._orig = {}       # id(fn) -> list of original nodes

    # ---------------------------------------------------------------------------------------------
    def orig_nodes(self, fn):
        return self._orig.get(id(fn)) or list(fn.nodes())

    def note(self, fn, text):
        self.log.setdefault(fn.full, []).append(text)

    def apply(self, fn, depth=0):
        st = self.state.get(id(fn))
        if st is not None:
            return st == "done"
        self.state[id(fn)] = "busy"
        if fn.body is not None:
            fn.by_id(-1)                      # freeze the id map of the original nodes (CFG element ids refer to them)
            self._orig[id(fn)] = list(fn.nodes())
            saved = self._eor
            self._eor = bool(self.else_of_return.search(fn.full))
            self._simplify_conds(fn.body)
            self._stmt_list_rewrite(fn, fn.body, depth)
            self._eor = saved
            if depth == 0:
                self._drop_dead_closures(fn)
        self.state[id(fn)] = "done"
        return True

    # ---------------------------------------------------------------------------------------------
    # node construction
    # ---------------------------------------------------------------------------------------------
    def _nid(self):
        _FRESH_NODE[0] += 1
        return _FRESH_NODE[0]

    def _clone(self, n, dmap=None, tmap=None):
        """deep copy with fresh node ids; decl ids / type ids translated through dmap / tmap"""
        c = copy.deepcopy(n)
        for x in walk(c):
            if "i" in x:
                x["i"] = self._nid()
            if dmap and x.get("d") in dmap and x.get("k") in ("Ref", "Var"):
                nd, nn = dmap[x["d"]]
                x["d"] = nd
                if nn is not None:
                    x["n"] = nn
                if x.get("k") == "Ref" and x.get("dk") == "param":
                    x["dk"] = "local"
            if tmap is not None:
                for key in ("t",):
                    if key in x and x[key] is not None:
                        x[key] = tmap(x[key])
                if "pt" in x and isinstance(x["pt"], list):
                    x["pt"] = [tmap(t) for t in x["pt"]]
        return c

    def _tid(self, fn, tystr):
        types = fn.facts.types
        try:
            return types.index(tystr)
        except ValueError:
            types.append(tystr)
            return len(types) - 1

    def _index_type(self, fn):
        for cand in ("FEAT::Index", "unsigned long", "std::size_t"):
            if cand in fn.facts.types:
                return fn.facts.types.index(cand)
        return self._tid(fn, "FEAT::Index")

    def _mk(self, k, line, **kw):
        d = {"k": k, "i": self._nid(), "l": line}
        d.update(kw)
        return d

    def _ref(self, var, line):
        return self._mk("Ref", line, n=var["n"], d=var["d"], dk="local", t=var.get("t"))

    # ---------------------------------------------------------------------------------------------
    # statement lists
    # ---------------------------------------------------------------------------------------------
    def _stmt_list_rewrite(self, fn, node, depth):
        """rewrite all statements below the compound statement `node`"""
        if not isinstance(node, dict):
            return
        k = node.get("k")
        if k == "Lambda":
            return

        def slot(holder, key):
            s = holder.get(key)
            if not isinstance(s, dict) or "k" not in s:
                return
            if s.get("k") == "Block":
                self._stmt_list_rewrite(fn, s, depth)
                return
            r = self._rewrite_stmt(fn, s, depth)
            if len(r) != 1 or r[0] is not s:
                holder[key] = self._mk("Block", s.get("l"), s=r)
        if k == "Block":
            self._pointer_whiles(fn, node)
            out = []
            for s in node.get("s", []):
                out.extend(self._rewrite_stmt(fn, s, depth))
            if self._eor:
                # early return <-> if/else: the statements behind `if(c) { ...; return; }` are its else branch
                for i, s in enumerate(out[:-1]):
                    if s.get("k") == "If" and s.get("else") is None and _leaves_function(s.get("then")):
                        s["else"] = self._mk("Block", out[i + 1].get("l"), s=out[i + 1:])
                        out = out[:i + 1]
                        self.note(fn, "statements behind the early return at line %s read as its else branch" % s.get("l"))
                        break
            node["s"] = out
        elif k == "If":
            slot(node, "then")
            slot(node, "else")
        elif k in ("For", "While", "Do", "ForRange", "OMP", "Switch"):
            slot(node, "body")
            if self.continue_guards and k in ("For", "While", "Do", "ForRange"):
                self._continue_guards(fn, node.get("body"))
            if k == "For" and isinstance(node.get("inc"), dict):
                node["inc"] = self._compound_inc(fn, node["inc"])
        elif k in ("Case", "Default"):
            inner = node.get("s")
            if isinstance(inner, list):
                out = []
                for s in inner:
                    out.extend(self._rewrite_stmt(fn, s, depth))
                node["s"] = out
            elif isinstance(inner, dict):
                r = self._rewrite_stmt(fn, inner, depth)
                if len(r) != 1 or r[0] is not inner:
                    node["s"] = r
        elif k == "Try":
            for c in children(node):
                self._stmt_list_rewrite(fn, c, depth)

    # ---------------------------------------------------------------------------------------------
    # pointer-range loops:  for(T* p = B; p != B + n; ++p) ... p[c] ... *p ...   ==   for(k = 0; k < n; ++k) ... B[k + c] ... B[k] ...
    # ---------------------------------------------------------------------------------------------
    def _single_assigned(self, fn):
        key = id(fn)
        if not hasattr(self, "_sa"):
            self._sa = {}
        if key not in self._sa:
            muts = set()
            decls = {}
            for n in fn.nodes():
                k = n.get("k")
                if k == "Var":
                    decls[n["d"]] = n
                tgt = None
                if k == "Assign":
                    tgt = strip(n["lhs"])
                elif k == "Un" and n.get("op") in ("++", "--"):
                    tgt = strip(n["e"])
                elif k == "Un" and n.get("op") == "&":
                    tgt = strip(n["e"])          # address taken: may change behind our back
                elif k == "OpCall" and n.get("op") in ("++", "--", "=", "+=", "-=") and n.get("a"):
                    tgt = strip(n["a"][0])
                if tgt is not None and tgt.get("k") == "Ref":
                    muts.add(tgt.get("d"))
            self._sa[key] = (decls, muts)
        return self._sa[key]

    def _resolve(self, fn, n, depth=0):
        """follow single-assignment, non-reference locals to their initialisers"""
        n = strip(n)
        decls, muts = self._single_assigned(fn)
        while n is not None and depth < 5 and n.get("k") == "Ref" and n.get("dk") == "local":
            v = decls.get(n.get("d"))
            if v is None or v.get("init") is None or n.get("d") in muts or v.get("ref"):
                break
            n = strip(v["init"])
            depth += 1
        return n

    def _rpos(self, fn, n):
        """_pos with single-assignment pointer locals resolved: `Index* const b = v.data(); Index* const e = b + n;`"""
        p = self._pos(fn, n)
        for _ in range(4):
            if p is None or p[0] != "ptr":
                return p
            b = strip(p[1])
            r = self._resolve(fn, b)
            if r is b or r is None:
                return p
            q = self._pos(fn, r)
            if q is None or q[0] not in ("ptr", "vec"):
                return p
            off = p[2]
            if q[2] is not None:
                off = q[2] if off is None else self._mk("Bin", n.get("l"), op="+", lhs=q[2], rhs=off, t=off.get("t"))
            p = (q[0], q[1], off, q[3])
        return p

    def _compound(self, fn, s):
        """`x = x + y` / `x = y + x` / `x = x * y` / `x = x - y` on a side-effect free integral lvalue  ->  `x += y` ... (one spelling for the rules)"""
        e = strip(s)
        if e is None or e.get("k") != "Assign" or e.get("op") != "=":
            return s
        r = strip(e["rhs"])
        if r is None or r.get("k") != "Bin" or r.get("op") not in ("+", "-", "*"):
            return s
        lhs = strip(e["lhs"])
        if any(x.get("k") in ("Call", "MCall", "Construct", "TempObj", "Assign", "Lambda") or (x.get("k") == "Un" and x.get("op") in ("++", "--"))
               or (x.get("k") == "OpCall" and x.get("op") not in ("[]", "*", "->")) for x in walk(lhs)):
            return s
        ty = re.sub(r"\bconst\b|&", "", fn.ntype(lhs) or "").strip()
        if not (ty in ("FEAT::Index", "unsigned long", "unsigned int", "int", "long", "std::size_t", "unsigned long long") or ty.endswith("value_type") or ty.endswith("Index")):
            return s
        lt = render(lhs)
        other = None
        if render(strip(r["lhs"])) == lt:
            other = r["rhs"]
        elif r["op"] in ("+", "*") and render(strip(r["rhs"])) == lt:
            other = r["lhs"]
        if other is None or any(x.get("k") in ("Assign",) or (x.get("k") == "Un" and x.get("op") in ("++", "--")) for x in walk(other)):
            return s
        n = dict(e)
        n["op"] = r["op"] + "="
        n["rhs"] = other
        n["i"] = self._nid()
        self.note(fn, "`x = x %s y` at line %s read as `x %s= y`" % (r["op"], e.get("l"), r["op"]))
        return n

    def _compound_inc(self, fn, inc):
        e = strip(inc)
        if e is not None and e.get("k") == "Bin" and e.get("op") == ",":
            n = dict(e)
            n["lhs"], n["rhs"] = self._compound_inc(fn, e["lhs"]), self._compound_inc(fn, e["rhs"])
            return n
        return self._compound(fn, inc)

    def _simplify_conds(self, node):
        """!(a < b) -> a >= b, !!a -> a   in the conditions of if / while / for / ?: below node (exact for the integer / pointer comparisons of index code)"""
        for x in walk(node, prune=lambda y: y.get("k") == "Lambda"):
            for key in ("c",):
                c = x.get(key)
                if isinstance(c, dict) and x.get("k") in ("If", "While", "Do", "For", "Cond"):
                    x[key] = self._simp(c)

    def _simp(self, c):
        c0 = strip(c)
        if c0 is None:
            return c
        if c0.get("k") == "Un" and c0.get("op") == "!":
            inner = strip(self._simp(c0["e"]))
            flip = {"==": "!=", "!=": "==", "<": ">=", ">=": "<", ">": "<=", "<=": ">"}
            if (inner.get("k") == "Bin" and inner.get("op") in flip) or (inner.get("k") == "OpCall" and inner.get("op") in ("==", "!=") and len(inner.get("a", [])) == 2):
                # (for iterators `!(a == b)` and `a != b` are the same test by the iterator requirements)
                n = dict(inner)
                n["op"] = flip[inner["op"]]
                n["i"] = self._nid()
                return n
            if inner.get("k") == "Un" and inner.get("op") == "!":
                return inner["e"]
            if inner is not strip(c0["e"]):
                n = dict(c0)
                n["e"] = inner
                return n
            return c
        if c0.get("k") == "Bin" and c0.get("op") in ("&&", "||"):
            l, r = self._simp(c0["lhs"]), self._simp(c0["rhs"])
            if l is not c0["lhs"] or r is not c0["rhs"]:
                n = dict(c0)
                n["lhs"], n["rhs"] = l, r
                return n
        return c

    def _negate(self, c):
        c0 = strip(c)
        flip = {"==": "!=", "!=": "==", "<": ">=", ">=": "<", ">": "<=", "<=": ">"}
        if c0.get("k") == "Bin" and c0.get("op") in flip:
            n = dict(c0)
            n["op"] = flip[c0["op"]]
            n["i"] = self._nid()
            return n
        if c0.get("k") == "Un" and c0.get("op") == "!":
            return c0["e"]
        return self._mk("Un", c0.get("l"), op="!", e=c0, t=c0.get("t"))

    def _continue_guards(self, fn, body):
        """loop body `{ A; if(c) continue; B }`  ->  `{ A; if(!c) { B } }`   (exact: `continue` skips exactly the rest of the body)"""
        if body is None or body.get("k") != "Block":
            return
        lst = body.get("s", [])
        for i, s in enumerate(lst):
            if s.get("k") != "If" or s.get("else") is not None or s.get("constexpr"):
                continue
            th = s.get("then")
            while th is not None and th.get("k") == "Block" and len(th.get("s", [])) == 1:
                th = th["s"][0]
            if th is None or th.get("k") != "Continue":
                continue
            rest = lst[i + 1:]
            if not rest:
                body["s"] = lst[:i]
                return
            # a `while(c){...; ++i;}` loop whose trailing increment would be skipped by continue is not touched (the increment is part of `rest`: fine, it moves along)
            inner = self._mk("Block", rest[0].get("l"), s=rest)
            self._continue_guards(fn, inner)
            g = self._mk("If", s.get("l"), c=self._negate(s.get("c")), then=inner)
            body["s"] = lst[:i] + [g]
            self.note(fn, "`if(c) continue;` guard at line %s read as the nested if it is" % s.get("l"))
            return

    def _pointer_whiles(self, fn, block):
        """`T* p = B; while(p != E) { ...; ++p; }` (p used nowhere else in the block) -> `for(T* p = B; p != E; ++p) { ... }` in the statement list"""
        from ikinds import _is_incdec
        lst = block.get("s", [])
        for i, s in enumerate(lst):
            if s.get("k") != "While":
                continue
            c = strip(s.get("c"))
            body = s.get("body")
            if c is None or c.get("k") != "Bin" or c.get("op") not in ("!=", "<") or body is None or body.get("k") != "Block" or not body.get("s"):
                continue
            l = strip(c["lhs"])
            if l.get("k") != "Ref" or l.get("dk") != "local" or not self._is_pointer(fn, l):
                continue
            d = l["d"]
            t = _is_incdec(body["s"][-1])
            if not t or t[0].get("k") != "Ref" or t[0].get("d") != d or t[1] != 1:
                continue
            if any(x.get("k") == "Continue" for x in walk(body, prune=lambda y: y.get("k") in ("For", "While", "Do", "ForRange", "Lambda"))):
                continue
            js = [j for j in range(i) if lst[j].get("k") == "Decl" and len(lst[j].get("vars", [])) == 1 and lst[j]["vars"][0].get("d") == d and lst[j]["vars"][0].get("init") is not None]
            if len(js) != 1:
                continue
            j = js[0]
            if any(mentions(x, d) for x in lst[j + 1:i] + lst[i + 1:]):
                continue
            f = self._mk("For", s.get("l"), init=lst[j], c=s.get("c"), inc=body["s"][-1], body=self._mk("Block", body.get("l"), s=body["s"][:-1]))
            block["s"] = lst[:j] + lst[j + 1:i] + [f] + lst[i + 1:]
            self.note(fn, "pointer while-loop at line %s read as the for loop it is" % s.get("l"))
            return self._pointer_whiles(fn, block)

    def _pointer_loop(self, fn, f):
        """For node over a pointer range -> equivalent index loop (new For node) or None"""
        init, c, inc, body = strip(f.get("init")), strip(f.get("c")), strip(f.get("inc")), f.get("body")
        if init is None or c is None or inc is None or body is None or init.get("k") != "Decl" or len(init.get("vars", [])) != 1:
            return None
        pv = init["vars"][0]
        if not re.sub(r"\bconst\b", "", fn.type(pv.get("t")) or "").strip().endswith("*") or pv.get("init") is None:
            return None
        if c.get("k") != "Bin" or c.get("op") not in ("!=", "<") or strip(c["lhs"]).get("k") != "Ref" or strip(c["lhs"]).get("d") != pv["d"]:
            return None
        from ikinds import _is_incdec, _subscript
        t = _is_incdec(inc)
        if not t or t[0].get("k") != "Ref" or t[0].get("d") != pv["d"] or t[1] != 1:
            return None
        line = f.get("l")
        T = self._index_type(fn)
        first, last = self._rpos(fn, pv["init"]), self._rpos(fn, c["rhs"])
        if first is None or last is None or first[0] not in ("ptr", "vec") or last[0] not in ("ptr", "vec", "vecend"):
            return None
        if render(strip(first[1])) != render(strip(last[1])):
            return None
        if last[0] == "vecend":
            hi = self._mk("MCall", line, n="size", callee="%s::size" % first[3], cfull="%s::size" % first[3], ccls=first[3], cconst=True, pn=[], pt=[],
                          obj=self._clone(first[1]), a=[], t=T)
            if last[2] is not None:
                hi = self._mk("Bin", line, op="+", lhs=hi, rhs=self._clone(last[2]), t=T)
        elif last[2] is None:
            return None
        else:
            hi = self._clone(last[2])
        cnt = hi if first[2] is None else self._mk("Bin", line, op="-", lhs=hi, rhs=self._clone(first[2]), t=T)
        # every use of p in the body must be p[c] or *p; p is not modified there
        uses = [x for x in walk(body) if x.get("k") == "Ref" and x.get("d") == pv["d"]]
        ok_uses = set()
        for x in walk(body):
            if x.get("k") == "Cast":
                continue
            sub = _subscript(x)
            if sub is not None and sub[0].get("k") == "Ref" and sub[0].get("d") == pv["d"] and x.get("k") in ("Index", "OpCall"):
                ok_uses.add(id(sub[0]))
            if x.get("k") == "Un" and x.get("op") == "*" and strip(x["e"]).get("k") == "Ref" and strip(x["e"]).get("d") == pv["d"]:
                ok_uses.add(id(strip(x["e"])))
            if x.get("k") == "Un" and x.get("op") in ("++", "--", "&") and strip(x["e"]).get("k") == "Ref" and strip(x["e"]).get("d") == pv["d"]:
                return None
            if x.get("k") == "Assign" and strip(x["lhs"]).get("k") == "Ref" and strip(x["lhs"]).get("d") == pv["d"]:
                return None
        if any(id(u) not in ok_uses for u in uses):
            return None
        var = {"k": "Var", "i": self._nid(), "l": line, "n": "_k", "d": _fresh_decl(), "t": T, "init": self._mk("Int", line, v="0", t=T), "synthetic": True}

        def rewrite(n):
            """replace p[c] / *p below n (in place in the parents' fields)"""
            if not isinstance(n, dict):
                return n
            if n.get("k") in ("Index", "OpCall") and n.get("k") != "Cast":
                sub = _subscript(n)
                if sub is not None and sub[0].get("k") == "Ref" and sub[0].get("d") == pv["d"]:
                    ix = rewrite(sub[1])
                    c0 = strip(ix)
                    if c0.get("k") == "Int" and str(c0.get("v")) == "0":
                        idx = self._ref(var, line)
                    else:
                        idx = self._mk("Bin", line, op="+", lhs=self._ref(var, line), rhs=ix, t=T)
                    return self._elem(fn, first, idx, line, T)
            if n.get("k") == "Un" and n.get("op") == "*" and strip(n["e"]).get("k") == "Ref" and strip(n["e"]).get("d") == pv["d"]:
                return self._elem(fn, first, self._ref(var, line), line, T)
            for key, val in list(n.items()):
                if isinstance(val, dict) and "k" in val:
                    n[key] = rewrite(val)
                elif isinstance(val, list):
                    n[key] = [rewrite(x) if isinstance(x, dict) and "k" in x else x for x in val]
            return n
        nbody = rewrite(body)
        self.note(fn, "pointer-range loop at line %s read as the index loop it is" % line)
        return self._mk("For", line, init=self._mk("Decl", line, vars=[var]), c=self._mk("Bin", line, op="<", lhs=self._ref(var, line), rhs=cnt, t=None),
                        inc=self._mk("Un", line, op="++", e=self._ref(var, line), t=T), body=nbody, synthetic=True)

    def _rewrite_stmt(self, fn, s, depth):
        """-> list of statements replacing s"""
        if not isinstance(s, dict):
            return [s]
        if self._orig.get(id(fn)) and any(n.get("k") == "Lambda" for n in self._orig[id(fn)]):
            s = self._subst_closure_calls(fn, s)
        k = s.get("k")
        if k == "For":
            pl = self._pointer_loop(fn, s)
            if pl is not None:
                s = pl
        if k in ("Block", "If", "For", "While", "Do", "ForRange", "Switch", "Case", "Default", "OMP", "Try"):
            if k == "If" and self.inline:
                pre = self._inline_in_cond(fn, s, depth)
                if pre is not None:
                    self._stmt_list_rewrite(fn, s, depth)
                    return pre + [s]
            self._stmt_list_rewrite(fn, s, depth)
            return [s]
        s = self._compound(fn, s)
        r = self._desugar(fn, s)
        if r is not None:
            out = []
            for x in r:
                out.extend(self._rewrite_stmt(fn, x, depth))
            return out
        if self.inline:
            r = self._inline_stmt(fn, s, depth)
            if r is not None:
                out = []
                for x in r:
                    out.extend(self._rewrite_stmt(fn, x, depth))
                return out
        return [s]

    # ---------------------------------------------------------------------------------------------
    # std algorithms
    # ---------------------------------------------------------------------------------------------
    @staticmethod
    def _peel_iter(n):
        n = strip(n)
        for _ in range(3):
            if n is not None and n.get("k") in ("Construct", "TempObj") and len(n.get("a", [])) == 1 and "iterator" in (n.get("callee") or ""):
                n = strip(n["a"][0])
        return n

    def _is_pointer(self, fn, n):
        ty = re.sub(r"\bconst\b", "", fn.ntype(n) or "").strip()
        return ty.endswith("*")

    def _pos(self, fn, n):
        """position inside a random-access range: (kind, base node, offset node | None, class)   kind: 'vec' | 'ptr' | 'adj' """
        n = self._peel_iter(n)
        if n is None:
            return None
        k = n.get("k")
        if k == "MCall" and n.get("n") in ("begin", "cbegin") and not n.get("a") and (n.get("ccls") or "").startswith("std::vector"):
            return ("vec", n.get("obj"), None, n.get("ccls"))
        if k == "MCall" and n.get("n") in ("end", "cend") and not n.get("a") and (n.get("ccls") or "").startswith("std::vector"):
            return ("vecend", n.get("obj"), None, n.get("ccls"))
        if k == "MCall" and n.get("n") in ("image_begin", "image_end") and len(n.get("a", [])) == 1:
            return ("adj", n, None, n.get("ccls"))
        is_plus = (k == "Bin" and n.get("op") == "+") or (k in ("OpCall", "Call") and (n.get("op") == "+" or (n.get("callee") or "").endswith("operator+")) and len(n.get("a", [])) == 2)
        is_minus = (k == "Bin" and n.get("op") == "-") or (k in ("OpCall", "Call") and (n.get("op") == "-" or (n.get("callee") or "").endswith("operator-")) and len(n.get("a", [])) == 2)
        if is_plus or is_minus:
            ops = (n["lhs"], n["rhs"]) if k == "Bin" else (n["a"][0], n["a"][1])
            for a, b in ((ops, ops[::-1]) if is_plus else (ops,)):
                p = self._pos(fn, a)
                if p is not None and p[0] in ("vec", "ptr", "vecend") and self._pos(fn, b) is None:
                    off = strip(b)
                    if is_minus:
                        off = self._mk("Bin", n.get("l"), op="-", lhs=(p[2] if p[2] is not None else self._mk("Int", n.get("l"), v="0", t=off.get("t"))), rhs=off, t=off.get("t"))
                    elif p[2] is not None:
                        off = self._mk("Bin", n.get("l"), op="+", lhs=p[2], rhs=off, t=off.get("t"))
                    return (p[0], p[1], off, p[3])
            return None
        if k == "Un" and n.get("op") == "&":
            from ikinds import _subscript
            sub = _subscript(n["e"])
            if sub is not None:
                tyb = (fn.ntype(sub[0]) or "").replace("const ", "").replace("&", "").strip()
                return ("vec", sub[0], sub[1], tyb) if tyb.startswith("std::vector") else ("ptr", sub[0], sub[1], None)
            return None
        if self._is_pointer(fn, n) and k in ("Ref", "Member", "MCall"):
            return ("ptr", n, None, None)
        return None

    def _count(self, fn, first, last, line, T):
        """number of elements of [first, last) as an expression node, or None"""
        f, l = self._pos(fn, first), self._pos(fn, last)
        if f is None or l is None or f[0] in ("adj", "vecend") or l[0] == "adj":
            return None
        if render(strip(f[1])) != render(strip(l[1])):
            return None
        if l[0] == "vecend":
            if f[0] != "vec":
                return None
            hi = self._mk("MCall", line, n="size", callee="%s::size" % f[3], cfull="%s::size" % f[3], ccls=f[3], cconst=True, pn=[], pt=[],
                          obj=self._clone(f[1]), a=[], t=T)
            if l[2] is not None:
                hi = self._mk("Bin", line, op="+", lhs=hi, rhs=self._clone(l[2]), t=T)
        else:
            if l[0] != f[0] or l[2] is None:
                return None
            hi = self._clone(l[2])
        if f[2] is None:
            return hi
        return self._mk("Bin", line, op="-", lhs=hi, rhs=self._clone(f[2]), t=T)

    def _elem(self, fn, pos, idx, line, T):
        kind, base, off, cls = pos
        ix = idx if off is None else self._mk("Bin", line, op="+", lhs=self._clone(off), rhs=idx, t=T)
        if kind == "vec":
            return self._mk("OpCall", line, op="[]", callee="%s::operator[]" % cls, cfull="%s::operator[]" % cls, ccls=cls, pn=["__n"], pt=[T],
                            a=[self._clone(base), ix], t=T)
        return self._mk("Index", line, b=self._clone(base), idx=ix, t=T)

    def _index_loop(self, fn, line, count, body_of):
        T = self._index_type(fn)
        var = {"k": "Var", "i": self._nid(), "l": line, "n": "_k", "d": _fresh_decl(), "t": T,
               "init": self._mk("Int", line, v="0", t=T), "synthetic": True}
        init = self._mk("Decl", line, vars=[var])
        cond = self._mk("Bin", line, op="<", lhs=self._ref(var, line), rhs=count, t=None)
        inc = self._mk("Un", line, op="++", e=self._ref(var, line), t=T)
        body = self._mk("Block", line, s=body_of(var))
        return self._mk("For", line, init=init, c=cond, inc=inc, body=body, synthetic=True)

    def _range_ctor(self, fn, s):
        """`std::vector<T> x(first, last);` over a random-access range  ->  `std::vector<T> x(count); for(k < count) x[k] = src[k];`"""
        if s.get("k") != "Decl" or len(s.get("vars", [])) != 1:
            return None
        v = s["vars"][0]
        init = strip(v.get("init"))
        for _ in range(3):
            if init is not None and init.get("k") in ("Construct", "TempObj") and len(init.get("a", [])) == 1 and "vector" in (init.get("callee") or "") \
                    and strip(init["a"][0]).get("k") in ("Construct", "TempObj"):
                init = strip(init["a"][0])
        if init is None or init.get("k") not in ("Construct", "TempObj") or not (init.get("ccls") or "").startswith("std::vector") or (init.get("pn") or [])[:2] != ["__first", "__last"]:
            return None
        line = s.get("l")
        T = self._index_type(fn)
        args = init.get("a", [])
        src = self._pos(fn, args[0])
        cnt = self._count(fn, args[0], args[1], line, T) if src is not None and src[0] in ("vec", "ptr") else None
        if src is None or cnt is None:
            return None
        cls = init.get("ccls")
        nv = dict(v)
        nv["init"] = self._mk("Construct", line, callee="%s::vector" % cls, cfull="%s::vector" % cls, ccls=cls, pn=["__n", "__a"], pt=[T, None], a=[self._clone(cnt)], t=v.get("t"))
        nv["i"] = self._nid()
        dst = ("vec", self._ref(nv, line), None, cls)
        loop = self._index_loop(fn, line, cnt, lambda var: [self._mk("Assign", line, op="=", lhs=self._elem(fn, dst, self._ref(var, line), line, T),
                                                                       rhs=self._elem(fn, src, self._ref(var, line), line, T), t=T)])
        self.note(fn, "range construction of %s at line %s read as allocation + copy loop" % (v.get("n"), line))
        return [self._mk("Decl", line, vars=[nv]), loop]

    def _desugar(self, fn, s):
        e = strip(s)
        if e is None:
            return None
        k = e.get("k")
        line = e.get("l")
        if k == "Decl":
            return self._range_ctor(fn, e)
        callee = e.get("callee") or ""
        args = e.get("a", [])
        T = self._index_type(fn)

        def assign(lhs, rhs):
            return self._mk("Assign", line, op="=", lhs=lhs, rhs=rhs, t=T)
        if k == "Call" and callee in ("std::iota", "std::fill") and len(args) == 3:
            cnt = self._count(fn, args[0], args[1], line, T)
            pos = self._pos(fn, args[0])
            if cnt is None or pos is None:
                return None
            v0 = strip(args[2])

            def body(var):
                if callee == "std::fill":
                    val = self._clone(v0)
                elif v0.get("k") == "Int" and str(v0.get("v")) == "0":
                    val = self._ref(var, line)
                else:
                    val = self._mk("Bin", line, op="+", lhs=self._clone(v0), rhs=self._ref(var, line), t=T)
                return [assign(self._elem(fn, pos, self._ref(var, line), line, T), val)]
            self.note(fn, "%s at line %s read as the loop it stands for" % (callee, line))
            return [self._index_loop(fn, line, cnt, body)]
        if k == "Call" and callee == "std::fill_n" and len(args) == 3:
            pos = self._pos(fn, args[0])
            if pos is None or pos[0] == "adj":
                return None
            self.note(fn, "std::fill_n at line %s read as the loop it stands for" % line)
            return [self._index_loop(fn, line, self._clone(strip(args[1])),
                                     lambda var: [assign(self._elem(fn, pos, self._ref(var, line), line, T), self._clone(strip(args[2])))])]
        if k == "Call" and callee in ("std::copy", "std::copy_n") and len(args) == 3:
            if callee == "std::copy":
                src, dst = self._pos(fn, args[0]), self._dest(fn, args[2])
                cnt = self._count(fn, args[0], args[1], line, T) if src is not None and src[0] != "adj" else None
            else:
                src, dst = self._pos(fn, args[0]), self._dest(fn, args[2])
                cnt = self._clone(strip(args[1]))
            if src is None or dst is None:
                return None
            if src[0] == "adj" and callee == "std::copy" and dst[0] in ("vec", "ptr"):
                # adjacency list copied to an indexed destination: k = 0; for(it : list) { d[k] = *it; ++k; }
                kv = {"k": "Var", "i": self._nid(), "l": line, "n": "_k", "d": _fresh_decl(), "t": T, "init": self._mk("Int", line, v="0", t=T), "synthetic": True}
                lp = self._iter_loop(fn, line, args[0], args[1], lambda it: [
                    assign(self._elem(fn, dst, self._ref(kv, line), line, T), self._mk("Un", line, op="*", e=self._ref(it, line), t=T)),
                    self._mk("Un", line, op="++", e=self._ref(kv, line), t=T)])
                if lp is None:
                    return None
                self.note(fn, "std::copy at line %s (adjacency list -> indexed destination) read as the loop it stands for" % line)
                return [self._mk("Decl", line, vars=[kv]), lp]
            if src[0] == "adj":
                if callee != "std::copy" or dst[0] != "push":
                    return None
                lp = self._iter_loop(fn, line, args[0], args[1], lambda it: [self._push(fn, dst, self._mk("Un", line, op="*", e=self._ref(it, line), t=T), line)])
                if lp is None:
                    return None
                self.note(fn, "std::copy at line %s read as the iterator loop it stands for" % line)
                return [lp]
            if cnt is None:
                return None

            def body(var):
                val = self._elem(fn, src, self._ref(var, line), line, T)
                if dst[0] == "push":
                    return [self._push(fn, dst, val, line)]
                return [assign(self._elem(fn, dst, self._ref(var, line), line, T), val)]
            self.note(fn, "%s at line %s read as the loop it stands for" % (callee, line))
            return [self._index_loop(fn, line, cnt, body)]
        if k == "Call" and callee == "std::transform" and len(args) == 4:
            # d[i] = op(s[i]) with op a closure / function whose body is `return E;`: E with the parameter replaced by the element
            src, dst = self._pos(fn, args[0]), self._dest(fn, args[2])
            cnt = self._count(fn, args[0], args[1], line, T) if src is not None and src[0] != "adj" else None
            opf = self._value_function(fn, args[3])
            if src is None or dst is None or cnt is None or opf is None:
                return None

            def body(var):
                val = self._subst_param(opf, self._elem(fn, src, self._ref(var, line), line, T), fn)
                if dst[0] == "push":
                    return [self._push(fn, dst, val, line)]
                return [assign(self._elem(fn, dst, self._ref(var, line), line, T), val)]
            self.note(fn, "std::transform at line %s read as the loop it stands for (the unary operation `%s` substituted)" % (line, opf.name if opf.name != "operator()" else "lambda"))
            return [self._index_loop(fn, line, cnt, body)]
        if k == "Call" and callee == "std::partial_sum" and len(args) == 3:
            # in place: P[i+1] += P[i] for i in [0, n-1)
            src, dst = self._pos(fn, args[0]), self._pos(fn, args[2])
            cnt = self._count(fn, args[0], args[1], line, T)
            if src is None or dst is None or cnt is None or src[0] == "adj" or render(strip(src[1])) != render(strip(dst[1])) or src[2] is not None or dst[2] is not None:
                return None
            cnt1 = self._mk("Bin", line, op="-", lhs=cnt, rhs=self._mk("Int", line, v="1", t=T), t=T, synthetic=True)

            def body(var):
                nxt = self._mk("Bin", line, op="+", lhs=self._ref(var, line), rhs=self._mk("Int", line, v="1", t=T), t=T)
                return [self._mk("Assign", line, op="+=", lhs=self._elem(fn, dst, nxt, line, T), rhs=self._elem(fn, src, self._ref(var, line), line, T), t=T)]
            self.note(fn, "in-place std::partial_sum at line %s read as the prefix-sum loop it stands for" % line)
            return [self._index_loop(fn, line, cnt1, body)]
        if k == "Call" and callee == "std::swap" and len(args) == 2:
            a, b = strip(args[0]), strip(args[1])
            pts = e.get("pt") or []
            tya = ((fn.type(pts[0]) if pts else fn.ntype(a)) or "").replace("const ", "").replace("&", "").strip()
            if not tya or "<" in tya or ("::" in tya and tya not in ("FEAT::Index", "std::size_t", "std::uint64_t")):
                return None           # only scalars / array elements (class-type swaps are moves of whole objects)
            ta = self._tid(fn, tya)
            tmp = {"k": "Var", "i": self._nid(), "l": line, "n": "_t", "d": _fresh_decl(), "t": ta, "init": self._clone(a), "synthetic": True}
            self.note(fn, "std::swap at line %s read as the three assignments it stands for" % line)
            return [self._mk("Decl", line, vars=[tmp]),
                    self._mk("Assign", line, op="=", lhs=self._clone(a), rhs=self._clone(b), t=ta),
                    self._mk("Assign", line, op="=", lhs=self._clone(b), rhs=self._ref(tmp, line), t=ta)]
        if k == "MCall" and e.get("n") == "assign" and len(args) == 2 and (e.get("ccls") or "").startswith("std::vector") and (e.get("pn") or [])[:2] == ["__first", "__last"]:
            # v.assign(first, last)  ==  v.clear(); for(x in [first,last)) v.push_back(x)
            dst = ("push", e.get("obj"), None, e.get("ccls"))
            src = self._pos(fn, args[0])
            if src is None:
                return None
            cls = e.get("ccls")
            clr = self._mk("MCall", line, n="clear", callee="%s::clear" % cls, cfull="%s::clear" % cls, ccls=cls, pn=[], pt=[], obj=self._clone(e.get("obj")), a=[], t=None)
            if src[0] == "adj":
                lp = self._iter_loop(fn, line, args[0], args[1], lambda it: [self._push(fn, dst, self._mk("Un", line, op="*", e=self._ref(it, line), t=T), line)])
            else:
                cnt = self._count(fn, args[0], args[1], line, T)
                lp = self._index_loop(fn, line, cnt, lambda var: [self._push(fn, dst, self._elem(fn, src, self._ref(var, line), line, T), line)]) if cnt is not None else None
            if lp is None:
                return None
            self.note(fn, "range assign at line %s read as clear() + the push_back loop it stands for" % line)
            return [clr, lp]
        if k == "MCall" and e.get("n") == "insert" and len(args) == 3 and (e.get("ccls") or "").startswith("std::vector"):
            # v.insert(v.end(), first, last)  ==  for(x in [first,last)) v.push_back(x)
            p0 = self._pos(fn, args[0])
            if p0 is None or p0[0] != "vecend" or render(strip(p0[1])) != render(strip(e.get("obj"))):
                return None
            dst = ("push", e.get("obj"), None, e.get("ccls"))
            src = self._pos(fn, args[1])
            if src is None:
                return None
            if src[0] == "adj":
                lp = self._iter_loop(fn, line, args[1], args[2], lambda it: [self._push(fn, dst, self._mk("Un", line, op="*", e=self._ref(it, line), t=T), line)])
                if lp is None:
                    return None
                self.note(fn, "range insert at line %s read as the push_back loop over the adjacency list it stands for" % line)
                return [lp]
            cnt = self._count(fn, args[1], args[2], line, T)
            if cnt is None:
                return None
            self.note(fn, "range insert at line %s read as the push_back loop it stands for" % line)
            return [self._index_loop(fn, line, cnt, lambda var: [self._push(fn, dst, self._elem(fn, src, self._ref(var, line), line, T), line)])]
        return None

    def _closure_fn(self, fn, op_decl):
        if not hasattr(self, "_bydecl"):
            self._bydecl = {}
            for lst in self.findex.by_full.values():
                for f in lst:
                    if f.d.get("decl") is not None:
                        self._bydecl.setdefault((id(f.facts), f.d["decl"]), f)
        return self._bydecl.get((id(fn.facts), op_decl))

    def _value_function(self, fn, n, any_arity=False):
        """the function behind a unary operation argument (a lambda expression, possibly through a never re-assigned local) if its body is exactly `return E;`"""
        n = strip(n)
        for _ in range(4):
            if n is None:
                return None
            if n.get("k") in ("Construct", "TempObj") and len(n.get("a", [])) == 1:
                n = strip(n["a"][0])
            elif n.get("k") == "Ref" and n.get("dk") == "local":
                r = self._resolve(fn, n)
                if r is n:
                    return None
                n = r
            else:
                break
        if n is None or n.get("k") != "Lambda" or (n.get("captures") or []):
            return None
        f = self._closure_fn(fn, n.get("op_decl"))
        if f is None or f.body is None or (len(f.params) != 1 and not any_arity):
            return None
        stmts = [x for x in f.body.get("s", []) if x.get("k") != "Decl" or x.get("vars")]
        if len(stmts) != 1 or stmts[0].get("k") != "Return" or stmts[0].get("e") is None:
            return None
        return f

    def _subst_closure_calls(self, fn, node):
        """calls `c(a, b)` of a captureless lambda written in fn whose body is `return E;`, inside an expression: replaced by E with the parameters replaced by the
        (pure) arguments - the comparison handed to a helper template as a callable"""
        if not isinstance(node, dict):
            return node
        for key, val in list(node.items()):
            if key in ("body", "then", "else") and isinstance(val, dict) and val.get("k") in ("Block", "If", "For", "While", "Do", "ForRange", "Switch"):
                continue          # nested statements are visited on their own
            if isinstance(val, dict) and "k" in val:
                node[key] = self._subst_closure_calls(fn, val)
            elif isinstance(val, list):
                node[key] = [self._subst_closure_calls(fn, x) if isinstance(x, dict) and "k" in x else x for x in val]
        if node.get("k") == "OpCall" and node.get("op") == "()" and node.get("ccls") == "<lambda>" and node.get("a"):
            lam = [n for n in self._orig.get(id(fn), []) if n.get("k") == "Lambda" and n.get("op_decl") is not None and n.get("op_decl") == node.get("cdecl")]
            if len(lam) == 1 and not (lam[0].get("captures") or []):
                f = self._value_function(fn, lam[0], any_arity=True)
                args = node["a"][1:]
                if f is not None and len(f.params) == len(args) and all(self._pure(a) for a in args):
                    cross = f.facts is not fn.facts
                    ret = [x for x in f.body["s"] if x.get("k") == "Return"][0]["e"]
                    e = self._clone(ret, None, (lambda t: self._tid(fn, f.type(t))) if cross else None)
                    pmap = {p_["d"]: a for p_, a in zip(f.params, args)}

                    def rep(n):
                        if not isinstance(n, dict):
                            return n
                        if n.get("k") == "Ref" and n.get("d") in pmap:
                            return self._clone(pmap[n["d"]])
                        for k2, v2 in list(n.items()):
                            if isinstance(v2, dict) and "k" in v2:
                                n[k2] = rep(v2)
                            elif isinstance(v2, list):
                                n[k2] = [rep(x) if isinstance(x, dict) and "k" in x else x for x in v2]
                        return n
                    self.note(fn, "call of a comparison lambda at line %s replaced by its expression" % node.get("l"))
                    return rep(e)
        return node

    def _subst_param(self, f, arg, fn):
        """clone of the returned expression of a `return E;` function with its single parameter replaced by arg"""
        pd = f.params[0]["d"]
        cross = f.facts is not fn.facts
        e = self._clone(f.body["s"][-1]["e"] if f.body["s"][-1].get("k") == "Return" else [x for x in f.body["s"] if x.get("k") == "Return"][0]["e"],
                        None, (lambda t: self._tid(fn, f.type(t))) if cross else None)

        def rep(n):
            if not isinstance(n, dict):
                return n
            if n.get("k") == "Ref" and n.get("d") == pd:
                return self._clone(arg)
            for key, val in list(n.items()):
                if isinstance(val, dict) and "k" in val:
                    n[key] = rep(val)
                elif isinstance(val, list):
                    n[key] = [rep(x) if isinstance(x, dict) and "k" in x else x for x in val]
            return n
        return rep(e)

    def _dest(self, fn, n):
        n0 = strip(n)
        if n0 is not None and n0.get("k") == "Call" and (n0.get("callee") or "") == "std::back_inserter" and len(n0.get("a", [])) == 1:
            o = strip(n0["a"][0])
            return ("push", o, None, (fn.ntype(o) or "").replace("&", "").strip())
        p = self._pos(fn, n)
        if p is None or p[0] in ("adj", "vecend"):
            return None
        return p

    def _push(self, fn, dst, val, line):
        cls = dst[3] or "std::vector<unsigned long>"
        return self._mk("MCall", line, n="push_back", callee="%s::push_back" % cls, cfull="%s::push_back" % cls, ccls=cls, pn=["__x"], pt=[None],
                        obj=self._clone(dst[1]), a=[val], t=None)

    def _iter_loop(self, fn, line, first, last, body_of):
        f, l = self._peel_iter(first), self._peel_iter(last)
        if f is None or l is None or f.get("n") != "image_begin" or l.get("n") != "image_end":
            return None
        it = {"k": "Var", "i": self._nid(), "l": line, "n": "_it", "d": _fresh_decl(), "t": f.get("t"), "init": self._clone(f), "synthetic": True}
        init = self._mk("Decl", line, vars=[it])
        cond = self._mk("Bin", line, op="!=", lhs=self._ref(it, line), rhs=self._clone(l), t=None)
        inc = self._mk("Un", line, op="++", e=self._ref(it, line), t=f.get("t"))
        return self._mk("For", line, init=init, c=cond, inc=inc, body=self._mk("Block", line, s=body_of(it)), synthetic=True)

    # ---------------------------------------------------------------------------------------------
    # helper inlining
    # ---------------------------------------------------------------------------------------------
    def _callee_of(self, fn, call, depth, any_returns=False):
        """the repo helper a call may be replaced by, or None (any_returns: several / early returns are acceptable - continuation form)"""
        call = strip(call)
        if call is not None and call.get("k") == "OpCall" and call.get("op") == "()" and call.get("ccls") == "<lambda>":
            return self._lambda_callee(fn, call, depth)
        if call is None or call.get("k") not in ("Call", "MCall") or depth >= self.max_depth:
            return None
        name = call.get("n") or (call.get("callee") or "").rsplit("::", 1)[-1]
        if self.keep.fullmatch(name or "") or (call.get("callee") or "").startswith("std::") or call.get("noreturn"):
            return None
        callee = self.findex.lookup(call) if self.findex is not None else None
        if callee is None or callee.body is None or callee is fn or callee.tk == "pattern" or callee.d.get("virtual") or callee.d.get("ctor") or callee.d.get("dtor"):
            return None
        if not (callee.file or "").startswith(featlib.REPO + "/"):
            return None
        if self.state.get(id(callee)) == "busy":
            return None           # recursion
        if len(call.get("a", [])) != len(callee.params):
            return None           # default arguments / packs: not bound here
        if call.get("k") == "MCall":
            o = strip(call.get("obj"))
            while o is not None and o.get("k") == "Un" and o.get("op") == "*":
                o = strip(o.get("e"))
            if not (o is None or o.get("k") == "This"):
                return None
            if (callee.cls or "") != (fn.cls or ""):
                return None
        else:
            same_cls = bool(callee.cls) and callee.cls == fn.cls
            free_local = not callee.cls and (callee.file == fn.file or "(anonymous namespace)" in callee.qn)
            if not (same_cls or free_local):
                return None
        # shape of the body: no return except as the last top-level statement; no lambdas
        body = callee.body
        if body.get("k") != "Block":
            return None
        rets = [x for x in walk(body, prune=lambda y: y.get("k") == "Lambda") if x.get("k") == "Return"]
        stmts = body.get("s", [])
        if not any_returns and (len(rets) > 1 or (rets and (not stmts or stmts[-1] is not rets[0]))):
            return None
        if any(x.get("k") == "Lambda" for x in walk(body)):
            return None
        if callee.full not in self.inlined:
            self.inlined[callee.full] = 0
        return callee

    def _drop_dead_closures(self, fn):
        """closure objects (locals / inlined callable parameters initialised with a lambda expression) all of whose calls were replaced by the
        lambda's body are not used any more: their declarations are removed"""
        used = {}
        for n in walk(fn.body):
            if n.get("k") == "Ref" and n.get("d") is not None:
                used[n["d"]] = used.get(n["d"], 0) + 1

        def is_closure_decl(st):
            if st.get("k") != "Decl" or len(st.get("vars", [])) != 1:
                return False
            v = st["vars"][0]
            init = strip(v.get("init"))
            for _ in range(3):
                if init is not None and init.get("k") in ("Construct", "TempObj", "Call") and len(init.get("a", [])) == 1:
                    init = strip(init["a"][0])
            if init is None:
                return False
            if init.get("k") == "Ref" and init.get("dk") == "local" and not used.get(v["d"]):
                return "alias"
            return init.get("k") == "Lambda" and not used.get(v["d"])
        changed = True
        while changed:
            changed = False
            for b in [x for x in walk(fn.body) if x.get("k") == "Block"]:
                keep = []
                for st in b.get("s", []):
                    r = is_closure_decl(st)
                    if r is True or (r == "alias" and st["vars"][0].get("inlined_param")):
                        changed = True
                        for n in walk(st):
                            if n.get("k") == "Ref" and n.get("d") in used:
                                used[n["d"]] -= 1
                        continue
                    keep.append(st)
                b["s"] = keep

    def _lambda_callee(self, fn, call, depth):
        """call of a closure whose lambda expression is written in fn itself (possibly handed through inlined helpers as a callable parameter):
        the call operator, if its body can be spliced (captures by reference / this / of never-modified variables: reading them at the call site is the same)"""
        if depth >= self.max_depth + 2:
            return None
        cd = call.get("cdecl")
        # non-generic lambda: the call names the call operator itself; generic lambda: one of its instantiated specialisations (Lambda.op_specs)
        lam = [n for n in self._orig.get(id(fn), []) if n.get("k") == "Lambda" and cd is not None and
               ((n.get("op_decl") is not None and n.get("op_decl") == cd) or (n.get("generic") and cd in (n.get("op_specs") or [])))]
        if len(lam) != 1:
            return None
        decls, muts = self._single_assigned(fn)
        for c in lam[0].get("captures", []) or []:
            if not c.get("byref") and c.get("n") != "this" and c.get("d") in muts:
                return None
        if not hasattr(self, "_bydecl"):
            self._bydecl = {}
            for lst in self.findex.by_full.values():
                for f in lst:
                    if f.d.get("decl") is not None:
                        self._bydecl.setdefault((id(f.facts), f.d["decl"]), f)
        callee = None
        if hasattr(fn.facts, "by_decl"):
            callee = fn.facts.by_decl(cd)
        if callee is None:
            callee = self._bydecl.get((id(fn.facts), cd))
        if callee is None or callee.body is None or callee.body.get("k") != "Block" or self.state.get(id(callee)) == "busy" or callee.tk == "pattern":
            return None
        if len(call.get("a", [])) - 1 != len(callee.params):
            return None
        rets = [x for x in walk(callee.body, prune=lambda y: y.get("k") == "Lambda") if x.get("k") == "Return"]
        stmts = callee.body.get("s", [])
        if len(rets) > 1 or (rets and (not stmts or stmts[-1] is not rets[0])):
            return None
        return callee

    def _splice(self, fn, call, callee, depth, result=None):
        """-> (statements, returned expression | None).  `result`: ('assign', Ref node of the receiving local) | ('decl', Var node) | None"""
        self.apply(callee, depth + 1)
        self.inlined[callee.full] = self.inlined.get(callee.full, 0) + 1
        call = strip(call)
        if call.get("k") == "OpCall" and call.get("op") == "()":
            call = dict(call)
            call["a"] = call.get("a", [])[1:]          # a[0] is the closure object
        line = call.get("l")
        cross = callee.facts is not fn.facts
        tmap = (lambda t: self._tid(fn, callee.type(t))) if cross else None
        caller_names = {v.get("n") for v in fn.nodes() if v.get("k") == "Var"} | {p["n"] for p in fn.params}
        dmap = {}
        for v in list(callee.params) + [x for x in walk(callee.body) if x.get("k") == "Var"]:
            nm = v["n"]
            dmap[v["d"]] = (_fresh_decl(), (nm + "'") if nm in caller_names else None)
        stmts = callee.body.get("s", [])
        ret = stmts[-1] if stmts and stmts[-1].get("k") == "Return" else None
        body = [self._clone(x, dmap, tmap) for x in (stmts[:-1] if ret is not None else stmts)]
        rexpr = self._clone(ret["e"], dmap, tmap) if ret is not None and ret.get("e") is not None else None
        pre = []
        for p, a in zip(callee.params, call.get("a", [])):
            ty = callee.type(p.get("t")) or ""
            nd, nn = dmap[p["d"]]
            var = {"k": "Var", "i": self._nid(), "l": line, "n": nn or p["n"], "d": nd, "t": (tmap(p.get("t")) if tmap else p.get("t")), "init": a,
                   "ref": ty.rstrip().endswith("&"), "const": ty.startswith("const"), "inlined_param": callee.name}
            pre.append(self._mk("Decl", line, vars=[var]))
        out = pre + body
        # merge a returned local with the receiving variable (the copy `x = y` of a value helper)
        r0 = strip(rexpr) if rexpr is not None else None
        if result is not None and r0 is not None and r0.get("k") == "Ref" and r0.get("dk") == "local" and not any(v["vars"][0]["d"] == r0.get("d") for v in pre):
            yd = r0["d"]
            recv = result[1]
            if not any(mentions(a, recv["d"]) for a in call.get("a", [])):
                done = self._merge_local(out, yd, result, line)
                if done:
                    self.note(fn, "call of %s() at line %s replaced by its body (result variable merged)" % (callee.name, line))
                    return out, None
        self.note(fn, "call of %s() at line %s replaced by its body" % (callee.name, line))
        return out, rexpr

    def _merge_local(self, stmts, yd, result, line):
        """replace the callee local yd by the receiving variable: its declaration becomes the assignment / declaration of the receiver"""
        kind, recv = result
        found = [False]

        def fix_list(lst):
            i = 0
            while i < len(lst):
                s = lst[i]
                if s.get("k") == "Decl" and any(v["d"] == yd for v in s.get("vars", [])):
                    new = []
                    for v in s["vars"]:
                        if v["d"] != yd:
                            new.append(self._mk("Decl", s.get("l"), vars=[v]))
                            continue
                        found[0] = True
                        if kind == "decl":
                            nv = dict(recv)
                            nv["init"] = v.get("init")
                            nv["i"] = self._nid()
                            new.append(self._mk("Decl", s.get("l"), vars=[nv]))
                        elif v.get("init") is not None:
                            new.append(self._mk("Assign", s.get("l"), op="=", lhs=self._mk("Ref", s.get("l"), n=recv["n"], d=recv["d"], dk="local", t=recv.get("t")),
                                                rhs=v["init"], t=recv.get("t")))
                    lst[i:i + 1] = new
                    i += len(new)
                    continue
                i += 1
        # the declaration must be a top-level statement of the spliced body (executed exactly once, before every use)
        fix_list(stmts)
        if not found[0]:
            return False
        for s in stmts:
            for x in walk(s):
                if x.get("k") == "Ref" and x.get("d") == yd:
                    x["d"] = recv["d"]
                    x["n"] = recv["n"]
                    x["dk"] = "local"
        return True

    @staticmethod
    def _pure(n):
        """expression without side effects whose value does not depend on when it is evaluated relative to a helper body that only touches its own locals
        and objects it was handed: names, literals, member accesses, const accessors, dereferences, std::move/forward wrappers"""
        for x in walk(n):
            k = x.get("k")
            if k in ("Assign", "New", "Delete", "Throw", "Lambda") or (k == "Un" and x.get("op") in ("++", "--")):
                return False
            if k in ("Call",) and (x.get("callee") or "") not in ("std::move", "std::forward"):
                return False
            if k == "MCall" and not (x.get("cconst") or (x.get("n") or "") in ("get", "operator->", "operator*", "first", "second")):
                return False
            if k == "OpCall" and x.get("op") not in ("->", "*", "[]", "==", "!=", "<", ">", "<=", ">=", "+", "-"):
                return False
        return True

    def _tail_returns(self, stmts, make):
        """replace every `return e;` of a statement list whose returns all sit in tail position (last statement, or last statement of both branches of a
        trailing if/else) by make(e); False if a return is somewhere else"""
        if not stmts:
            return True
        for x in stmts[:-1]:
            if any(y.get("k") == "Return" for y in walk(x, prune=lambda z: z.get("k") == "Lambda")):
                return False
        last = stmts[-1]
        if last.get("k") == "Return":
            if last.get("e") is None:
                return False
            stmts[-1:] = make(last["e"])
            return True
        if last.get("k") == "Block":
            return self._tail_returns(last["s"], make)
        if last.get("k") == "If":
            has = any(y.get("k") == "Return" for y in walk(last, prune=lambda z: z.get("k") == "Lambda"))
            if not has:
                return True
            for key in ("then", "else"):
                br = last.get(key)
                if br is None:
                    return False
                if br.get("k") != "Block":
                    br = self._mk("Block", br.get("l"), s=[br])
                    last[key] = br
                if not self._tail_returns(br["s"], make):
                    return False
            return True
        return not any(y.get("k") == "Return" for y in walk(last, prune=lambda z: z.get("k") == "Lambda"))

    def _else_of_return_list(self, stmts):
        for i, st in enumerate(stmts[:-1]):
            if st.get("k") == "If" and st.get("else") is None and _leaves_function(st.get("then")):
                rest = stmts[i + 1:]
                self._else_of_return_list(rest)
                st["else"] = self._mk("Block", rest[0].get("l"), s=rest)
                del stmts[i + 1:]
                return
        for st in stmts:
            for key in ("then", "else"):
                br = st.get(key) if st.get("k") == "If" else None
                if br is not None and br.get("k") == "Block":
                    self._else_of_return_list(br["s"])

    def _class_assign(self, lhs, rhs, line, t):
        return self._mk("OpCall", line, op="=", callee="operator=", cfull="operator=", pn=["__x"], pt=[t], a=[lhs, rhs], t=t)

    def _value_body(self, fn, hcall, depth, make):
        """statements of the value helper called by hcall with parameters bound and make(returned expression) in place of every return (all returns must be in
        tail position once early returns are read as if/else); None if the helper does not fit"""
        callee = self._callee_of(fn, hcall, depth, any_returns=True)
        if callee is None or (callee.type(callee.d.get("ret")) or "").strip() == "void":
            return None
        self.apply(callee, depth + 1)
        hc = strip(hcall)
        if hc.get("k") == "OpCall":
            return None
        line = hc.get("l")
        cross = callee.facts is not fn.facts
        tmap = (lambda t: self._tid(fn, callee.type(t))) if cross else None
        caller_names = {v.get("n") for v in fn.nodes() if v.get("k") == "Var"} | {p["n"] for p in fn.params}
        dmap = {}
        for v in list(callee.params) + [x for x in walk(callee.body) if x.get("k") == "Var"]:
            dmap[v["d"]] = (_fresh_decl(), (v["n"] + "'") if v["n"] in caller_names else None)
        body = [self._clone(x, dmap, tmap) for x in callee.body.get("s", [])]
        self._else_of_return_list(body)
        if not self._tail_returns(body, make):
            return None
        pre = []
        for p_, a in zip(callee.params, hc.get("a", [])):
            ty = callee.type(p_.get("t")) or ""
            nd, nn = dmap[p_["d"]]
            var = {"k": "Var", "i": self._nid(), "l": line, "n": nn or p_["n"], "d": nd, "t": (tmap(p_.get("t")) if tmap else p_.get("t")), "init": a,
                   "ref": ty.rstrip().endswith("&"), "const": ty.startswith("const"), "inlined_param": callee.name}
            pre.append(self._mk("Decl", line, vars=[var]))
        self.inlined[callee.full] = self.inlined.get(callee.full, 0) + 1
        self.note(fn, "call of %s() at line %s replaced by its body (its value is taken at every return)" % (callee.name, line))
        return pre + body

    def _continuation_inline(self, fn, e, depth):
        """statement `f(a, helper(x));` (also `obj.f(...)`) whose other operands are pure: the helper's body with every `return r;` replaced by `f(a, r);`
        (the value helper may have several / early returns; all of them must be in tail position once early returns are read as if/else)"""
        args = e.get("a", [])
        hits = []
        for i, a in enumerate(args):
            a0 = strip(a)
            wrap = []
            for _ in range(3):
                if a0 is not None and ((a0.get("k") in ("Construct", "TempObj") and len(a0.get("a", [])) == 1) or
                                       (a0.get("k") == "Call" and (a0.get("callee") or "") in ("std::move", "std::forward") and len(a0.get("a", [])) == 1)):
                    wrap.append(a0)
                    a0 = strip(a0["a"][0])
            if a0 is not None and a0.get("k") in ("Call", "MCall") and self._callee_of(fn, a0, depth, any_returns=True) is not None:
                hits.append((i, a0, wrap))
        if len(hits) != 1:
            return None
        i, hcall, wrap = hits[0]
        others = [a for j, a in enumerate(args) if j != i] + ([e["obj"]] if e.get("obj") is not None else [])
        if not all(self._pure(x) for x in others):
            return None
        callee = self._callee_of(fn, hcall, depth, any_returns=True)
        if (callee.type(callee.d.get("ret")) or "").strip() == "void":
            return None
        self.apply(callee, depth + 1)
        hc = strip(hcall)
        line = e.get("l")
        cross = callee.facts is not fn.facts
        tmap = (lambda t: self._tid(fn, callee.type(t))) if cross else None
        caller_names = {v.get("n") for v in fn.nodes() if v.get("k") == "Var"} | {p["n"] for p in fn.params}
        dmap = {}
        for v in list(callee.params) + [x for x in walk(callee.body) if x.get("k") == "Var"]:
            dmap[v["d"]] = (_fresh_decl(), (v["n"] + "'") if v["n"] in caller_names else None)
        body = [self._clone(x, dmap, tmap) for x in callee.body.get("s", [])]
        self._else_of_return_list(body)

        def make(rexpr):
            st = self._clone(e)
            tgt = st["a"][i]
            # put the returned expression where the helper call stood (inside the same std::move / conversion wrappers)
            holder, key, idx = st["a"], None, i
            cur = strip(tgt)
            depthw = 0
            while depthw < len(wrap):
                holder, idx = cur["a"], 0
                cur = strip(cur["a"][0])
                depthw += 1
            holder[idx] = rexpr
            return [st]
        if not self._tail_returns(body, make):
            return None
        pre = []
        for p_, a in zip(callee.params, hc.get("a", [])):
            ty = callee.type(p_.get("t")) or ""
            nd, nn = dmap[p_["d"]]
            var = {"k": "Var", "i": self._nid(), "l": line, "n": nn or p_["n"], "d": nd, "t": (tmap(p_.get("t")) if tmap else p_.get("t")), "init": a,
                   "ref": ty.rstrip().endswith("&"), "const": ty.startswith("const"), "inlined_param": callee.name}
            pre.append(self._mk("Decl", line, vars=[var]))
        self.inlined[callee.full] = self.inlined.get(callee.full, 0) + 1
        self.note(fn, "call of %s() inside the statement at line %s replaced by its body (the statement continues at every return)" % (callee.name, line))
        return pre + body

    def _inline_stmt(self, fn, s, depth):
        e = strip(s)
        if e is None:
            return None
        k = e.get("k")
        line = e.get("l")
        if k in ("Call", "MCall") and self._callee_of(fn, e, depth) is None:
            r = self._continuation_inline(fn, e, depth)
            if r is not None:
                return r
        if k in ("Call", "MCall") or (k == "OpCall" and e.get("op") == "()"):
            callee = self._callee_of(fn, e, depth)
            if callee is None:
                return None
            out, rexpr = self._splice(fn, e, callee, depth)
            return out            # a returned value is discarded like in the original statement
        if k == "Assign" and e.get("op") == "=":
            lhs = strip(e["lhs"])
            callee = self._callee_of(fn, e["rhs"], depth)
            if callee is None:
                return None
            res = ("assign", lhs) if lhs.get("k") == "Ref" and lhs.get("dk") == "local" else None
            out, rexpr = self._splice(fn, e["rhs"], callee, depth, result=res)
            if rexpr is not None:
                e2 = dict(e)
                e2["rhs"] = rexpr
                e2["i"] = self._nid()
                out.append(e2)
            return out
        if k == "OpCall" and e.get("op") == "=" and len(e.get("a", [])) == 2:
            rhs = strip(e["a"][1])
            for _ in range(3):
                if rhs is not None and ((rhs.get("k") in ("Construct", "TempObj") and len(rhs.get("a", [])) == 1) or
                                        (rhs.get("k") == "Call" and (rhs.get("callee") or "") in ("std::move", "std::forward") and len(rhs.get("a", [])) == 1)):
                    rhs = strip(rhs["a"][0])
            if rhs is not None and rhs.get("k") in ("Call", "MCall") and self._pure(e["a"][0]) and self._callee_of(fn, rhs, depth, any_returns=True) is not None:
                def mk_assign(rexpr):
                    st = self._clone(e)
                    st["a"][1] = rexpr
                    return [st]
                return self._value_body(fn, rhs, depth, mk_assign)
            return None
        if k == "Decl" and len(e.get("vars", [])) == 1 and e["vars"][0].get("init") is not None:
            v = e["vars"][0]
            init = strip(v["init"])
            for _ in range(2):
                if init is not None and init.get("k") in ("Construct", "TempObj") and len(init.get("a", [])) == 1 and strip(init["a"][0]).get("k") in ("Call", "MCall"):
                    init = strip(init["a"][0])
            callee = self._callee_of(fn, init, depth)
            if callee is None and not v.get("ref") and init is not None and init.get("k") in ("Call", "MCall") and self._callee_of(fn, init, depth, any_returns=True) is not None:
                nv = dict(v)
                nv.pop("init", None)
                nv["i"] = self._nid()
                body = self._value_body(fn, init, depth, lambda rexpr: [self._class_assign(self._ref(nv, line), rexpr, line, v.get("t"))])
                if body is not None:
                    return [self._mk("Decl", line, vars=[nv])] + body
            if callee is None or v.get("ref"):
                return None
            out, rexpr = self._splice(fn, init, callee, depth, result=("decl", v))
            if rexpr is not None:
                v2 = dict(v)
                v2["init"] = rexpr
                out.append(self._mk("Decl", line, vars=[v2]))
            return out
        if k == "Return" and e.get("e") is not None:
            callee = self._callee_of(fn, e["e"], depth)
            if callee is None:
                return None
            out, rexpr = self._splice(fn, e["e"], callee, depth)
            e2 = dict(e)
            e2["e"] = rexpr
            e2["i"] = self._nid()
            out.append(e2)
            return out
        return None

    def _inline_in_cond(self, fn, s, depth):
        """if(helper(...)) / if(!helper(...)): the helper runs first, unconditionally"""
        c = strip(s.get("c"))
        holder, key = s, "c"
        if c is not None and c.get("k") == "Un" and c.get("op") == "!":
            holder, key = c, "e"
            c = strip(c.get("e"))
        callee = self._callee_of(fn, c, depth) if c is not None else None
        if callee is None:
            return None
        out, rexpr = self._splice(fn, c, callee, depth)
        if rexpr is None:
            return None
        holder[key] = rexpr
        return out


def ip_must_pass(fn, pred, findex, depth=2, _seen=None):
    """CFG must-pass that looks into helpers: every path through fn passes a statement satisfying pred, where a call of a member helper of the
    same class on `this` (or a static member / free function of the same file) counts if every path through THAT helper passes one.
    -> (ok, bad blocks) like CFG.must_pass"""
    _seen = _seen or set()
    cfg = fn.cfg
    if cfg is None:
        return None, []

    def p2(n):
        if pred(n):
            return True
        if depth <= 0 or n.get("k") not in ("Call", "MCall") or (n.get("callee") or "").startswith("std::"):
            return False
        callee = findex.lookup(n)
        if callee is None or callee is fn or callee.cfg is None or callee.d.get("virtual") or id(callee) in _seen:
            return False
        if n.get("k") == "MCall":
            o = strip(n.get("obj"))
            while o is not None and o.get("k") == "Un" and o.get("op") == "*":
                o = strip(o.get("e"))
            if not (o is None or o.get("k") == "This") or callee.cls != fn.cls:
                return False
        elif not (callee.cls == fn.cls or (not callee.cls and callee.file == fn.file)):
            return False
        ok, _ = ip_must_pass(callee, pred, findex, depth - 1, _seen | {id(fn)})
        return bool(ok)
    return cfg.must_pass(p2)
