"""dfl: small dataflow helpers shared by the C13/C18 checks (additive helper module).

  * access paths: an lvalue expression is normalised to (root, steps...) where reference locals are
    resolved through their initialiser, so that `auto& p = t.get_mat_prol(); p.format()` and
    `t.get_mat_prol().format()` denote the same object.  Roots carry declaration ids, never names.
  * effect classification of a call: which argument objects may be modified (non-const receiver,
    non-const reference parameter of the resolved callee).
  * forward typestate propagation over the CFG blocks.
"""
import re

import featlib
from featlib import walk, render, is_call, children

MOVE_FNS = ("std::move", "std::forward")


def short(s):
    """compress a type/class string for instance keys (stable, no line numbers)"""
    s = s or ""
    s = s.replace("FEAT::", "").replace("unsigned long", "u64").replace("unsigned int", "u32")
    s = re.sub(r"Geometry::ConformalMesh<Shape::(\w+)<(\d)>, \d(, double)?>", r"\1\2", s)
    s = re.sub(r"Trafo::Standard::Mapping<([^<>]*)>", r"Std<\1>", s)
    s = re.sub(r"\s+", " ", s)
    return s


def strip_targs(s):
    out = []
    depth = 0
    for ch in s or "":
        if ch == "<":
            depth += 1
        elif ch == ">":
            depth -= 1
        elif depth == 0:
            out.append(ch)
    return "".join(out)


def last_comp(qn):
    """last component of a qualified name, template arguments kept: a::b<c::d>::at<0, 0> -> at<0, 0>"""
    depth = 0
    i = len(qn)
    while i > 0:
        i -= 1
        ch = qn[i]
        if ch == ">":
            depth += 1
        elif ch == "<":
            depth -= 1
        elif ch == ":" and depth == 0 and i > 0 and qn[i - 1] == ":":
            return qn[i + 1:]
    return qn


def callee_name(n):
    return strip_targs(last_comp(n.get("callee", "") or ""))


def parents(fn):
    """id(node) -> (parent node, slot)"""
    par = {}
    roots = [fn.body] + [i.get("init") for i in (fn.d.get("inits") or [])]
    for r in roots:
        if r is None:
            continue
        for n in walk(r):
            for k in featlib.CHILD_SINGLE:
                v = n.get(k)
                if isinstance(v, dict) and "k" in v:
                    par[id(v)] = (n, k)
            for k in featlib.CHILD_KEYS:
                v = n.get(k)
                if isinstance(v, list):
                    for j, x in enumerate(v):
                        if isinstance(x, dict) and "k" in x:
                            par[id(x)] = (n, (k, j))
            if n.get("k") == "Decl":
                for vd in n.get("vars", []):
                    par[id(vd)] = (n, "vars")
            if n.get("k") == "ForRange" and n.get("var"):
                par[id(n["var"])] = (n, "var")
    return par


class Path:
    """normalised access path.  steps: tuple of hashable items; decls: ref-local decl ids resolved through"""
    __slots__ = ("steps", "decls", "text")

    def __init__(self, steps, decls=frozenset(), text=""):
        self.steps = tuple(steps)
        self.decls = frozenset(decls)
        self.text = text

    def __eq__(self, o):
        return isinstance(o, Path) and self.steps == o.steps

    def __hash__(self):
        return hash(self.steps)

    def __repr__(self):
        return self.text or repr(self.steps)

    def extend(self, step, text, decls=()):
        return Path(self.steps + (step,), self.decls | frozenset(decls), text)

    def startswith(self, o):
        return self.steps[:len(o.steps)] == o.steps

    def related(self, o):
        """one denotes (a part of) the other"""
        return self.startswith(o) or o.startswith(self)

    def opaque(self):
        return bool(self.steps) and self.steps[0][0] == "expr"


class Resolver:
    """per-function alias resolution"""

    def __init__(self, fn):
        self.fn = fn
        self.vars = {}
        self.range_vars = set()
        self.var_decl_stmt = {}
        for n in fn.nodes():
            if n.get("k") == "Decl":
                for v in n.get("vars", []):
                    self.vars[v["d"]] = v
                    self.var_decl_stmt[v["d"]] = n
            elif n.get("k") == "ForRange" and n.get("var"):
                self.vars[n["var"]["d"]] = n["var"]
                self.range_vars.add(n["var"]["d"])      # the element of the iteration: a root, not an alias of the hidden iterator
        self._cache = {}
        self._assigned = None

    def var(self, d):
        return self.vars.get(d)

    _SCALAR = re.compile(r"^(const )?(unsigned |signed |long |short )*(int|long|short|char|bool|double|float|std::size_t|size_t|FEAT::Index|Index|std::uint\w+|std::int\w+)\b[^<>:]*$")

    def _single_def_scalar(self, v):
        """a scalar / pointer local that is initialised once and never assigned afterwards"""
        if self._assigned is None:
            self._assigned = assigned_decls(self.fn)
            # address taken / passed by non-const reference: not tracked, so be conservative on '&v'
            for n in self.fn.nodes():
                if n.get("k") == "Un" and n.get("op") == "&" and n["e"].get("k") == "Ref":
                    self._assigned.add(n["e"].get("d"))
        if v["d"] in self._assigned:
            return False
        t = self.fn.type(v.get("t")) if v.get("t") is not None else ""
        return bool(self._SCALAR.match(t.strip())) or t.rstrip().endswith("*") or t.rstrip().endswith("*const") or t.rstrip().endswith("* const")

    def init_of(self, ref):
        """initialiser of the local a Ref node refers to, looking through single-arg copy/move constructions"""
        v = self.vars.get(ref.get("d"))
        if v is None:
            return None
        return v.get("init")

    def value(self, n, depth=0):
        """look through const value locals and move/forward to the defining expression (for scalars)"""
        while n is not None and depth < 20:
            depth += 1
            if n.get("k") == "Ref" and n.get("dk") == "local":
                v = self.vars.get(n.get("d"))
                if v is not None and not v.get("ref") and v.get("init") is not None and (v.get("const") or self._single_def_scalar(v)):
                    n = v["init"]
                    continue
            if n.get("k") == "Call" and n.get("callee") in MOVE_FNS and n.get("a"):
                n = n["a"][0]
                continue
            if n.get("k") == "Cast" and n.get("e") is not None:
                n = n["e"]
                continue
            break
        return n

    def path(self, n):
        key = id(n)
        if key in self._cache:
            return self._cache[key]
        p = self._path(n, 0)
        self._cache[key] = p
        return p

    def _path(self, n, depth):
        if n is None or depth > 40:
            return Path((("expr", id(n)),), text="?")
        k = n.get("k")
        if k == "This":
            return Path((("this",),), text="this")
        if k == "Ref":
            dk = n.get("dk")
            if dk == "local":
                v = self.vars.get(n.get("d"))
                if v is not None and v.get("ref") and v.get("init") is not None and n.get("d") not in self.range_vars:
                    p = self._path(v["init"], depth + 1)
                    return Path(p.steps, p.decls | {n["d"]}, p.text)
                return Path((("local", n.get("d")),), text=n.get("n"))
            if dk == "param":
                return Path((("param", n.get("d")),), text=n.get("n"))
            return Path((("global", n.get("qn") or n.get("n")),), text=n.get("n"))
        if k == "Member":
            b = n.get("b")
            bp = self._path(b, depth + 1) if b is not None else Path((("this",),), text="this")
            txt = n["n"] if (b is None or b.get("k") == "This") else bp.text + ("->" if n.get("arrow") else ".") + n["n"]
            return bp.extend(("field", n["n"]), txt)
        if k == "MCall":
            obj = n.get("obj")
            if n.get("cconst") and not self.fn.ntype(n).startswith("const ") and not self.fn.ntype(n).endswith("*"):
                # const member function yielding a non-const object: a value (temporary), not a sub-object of the receiver
                return Path((("expr", id(n)),), text=render(n)[:80])
            bp = self._path(obj, depth + 1) if obj is not None else Path((("this",),), text="this")
            nm = last_comp(n.get("cfull") or n.get("callee") or "?")
            args = ", ".join(render(self.value(a)) for a in n.get("a", []))
            txt = ("" if (obj is None or obj.get("k") == "This") else bp.text + ("->" if n.get("arrow") else ".")) + "%s(%s)" % (nm, args)
            return bp.extend(("call", nm, args, strip_targs(n.get("ccls", ""))), txt)
        if k == "OpCall":
            a = n.get("a", [])
            op = n.get("op")
            if op in ("*", "->") and len(a) == 1:
                bp = self._path(a[0], depth + 1)
                return bp.extend(("deref",), "*" + bp.text)
            if op == "[]" and len(a) == 2:
                bp = self._path(a[0], depth + 1)
                ix = render(self.value(a[1]))
                return bp.extend(("index", ix), "%s[%s]" % (bp.text, ix))
        if k == "Un" and n.get("op") == "*":
            bp = self._path(n["e"], depth + 1)
            return bp.extend(("deref",), "*" + bp.text)
        if k == "Index":
            bp = self._path(n["b"], depth + 1)
            ix = render(self.value(n["idx"]))
            return bp.extend(("index", ix), "%s[%s]" % (bp.text, ix))
        if k == "Call" and n.get("callee") in MOVE_FNS and n.get("a"):
            return self._path(n["a"][0], depth + 1)
        if k == "Cast" and n.get("e") is not None:
            return self._path(n["e"], depth + 1)
        return Path((("expr", id(n)),), text=render(n)[:80])


def is_nonconst_ref(pt):
    """callee parameter type string denotes a non-const lvalue/forwarding reference"""
    pt = (pt or "").strip()
    if not pt.endswith("&"):
        return False
    core = pt.rstrip("& ").strip()
    if core.startswith("const ") or core.endswith(" const"):
        return False
    return True


def call_args_with_params(n, fn=None):
    """[(arg node, param name, param type string)] for a call-like node; operator calls on members: arg0 is the object"""
    args = n.get("a", [])
    pn = n.get("pn") or []
    pt = n.get("pt") or []
    if fn is not None:
        pt = [fn.type(t) if isinstance(t, int) else t for t in pt]
    out = []
    off = 0
    if n.get("k") == "OpCall" and len(args) == len(pn) + 1:
        off = 1          # member operator: first arg is the receiver
    for i, a in enumerate(args):
        j = i - off
        out.append((a, pn[j] if 0 <= j < len(pn) else None, pt[j] if 0 <= j < len(pt) else None))
    return out


def arg_by_param(n, name):
    for a, p, t in call_args_with_params(n, None):
        if p == name:
            return a
    return None


def receiver(n):
    """receiver object of a member call / member operator call (None for free functions)"""
    if n.get("k") == "MCall":
        return n.get("obj") or {"k": "This"}
    if n.get("k") == "OpCall":
        args = n.get("a", [])
        pn = n.get("pn") or []
        if len(args) == len(pn) + 1:
            return args[0]
    return None


def stmt_nodes_in_order(fn):
    """[(block id, pos, node)] of all CFG elements"""
    cfg = fn.cfg
    out = []
    if cfg is None:
        return out
    for bid, b in cfg.blocks.items():
        for pos, e in enumerate(b["el"]):
            n = fn.by_id(e)
            if n is not None:
                out.append((bid, pos, n))
    return out


def assigned_decls(fn):
    """decl ids of variables that are assigned / incremented somewhere in the function (not mere initialisation)"""
    out = set()
    for n in fn.nodes():
        if n.get("k") == "Assign" and n["lhs"].get("k") == "Ref":
            out.add(n["lhs"].get("d"))
        elif n.get("k") == "Un" and n.get("op") in ("++", "--") and n["e"].get("k") == "Ref":
            out.add(n["e"].get("d"))
    return out


def branch_fact(fn, cfg, bid, frozen_ok):
    """(decl id, truth on succ[0]) if the block ends in an `if` over a plain (negated) bool variable that is never assigned"""
    b = cfg.blocks[bid]
    if b.get("term") not in ("IfStmt", "BinaryOperator", "ConditionalOperator") or b.get("cond") is None or len(b.get("succ", [])) != 2:
        return None
    c = fn.by_id(b["cond"])
    truth = True
    while c is not None and c.get("k") == "Bin" and c.get("op") in ("&&", "||"):
        c = c["rhs"]            # short-circuit operators are split by the CFG: this block tests the last operand
    while c is not None and c.get("k") == "Un" and c.get("op") == "!":
        c = c["e"]
        truth = not truth
    if c is not None and c.get("k") == "Ref" and c.get("dk") in ("param", "local") and c.get("d") not in frozen_ok:
        return (c["d"], truth)
    return None


class _Out(dict):
    """block -> states at block end; .to_exit: block -> states flowing along a feasible edge into EXIT"""


def propagate(fn, init, step, edge_step=None):
    """forward may-analysis over the CFG with path-sensitivity on never-assigned bool variables.
    step(block id, user state) -> user state at block end (hashable); optional edge_step(block id, successor position,
    state) -> state refines the state along one outgoing edge (position 0 = true edge of a branch).  Returns
    (dict block -> set of (state, facts) at entry, dict block -> set of (state, facts) at exit)."""
    cfg = fn.cfg
    assigned = assigned_decls(fn)
    inn = {b: set() for b in cfg.blocks}
    out = _Out((b, set()) for b in cfg.blocks)
    out.to_exit = {b: set() for b in cfg.blocks}      # states that really flow along the edge block -> EXIT (feasible branch only)
    inn[cfg.entry].add((init, frozenset()))
    work = [cfg.entry]
    done = {b: set() for b in cfg.blocks}
    while work:
        b = work.pop()
        todo = inn[b] - done[b]
        if not todo:
            continue
        done[b] |= todo
        bf = branch_fact(fn, cfg, b, assigned)
        succs = cfg.blocks[b].get("succ", [])
        for (s, facts) in todo:
            t = step(b, s)
            out[b].add((t, facts))
            for k, sb in enumerate(succs):
                if sb is None:
                    continue
                f2 = facts
                if bf is not None and k < 2:
                    d, truth = bf
                    val = truth if k == 0 else (not truth)
                    if (d, not val) in facts:
                        continue          # infeasible: contradicts an earlier branch on the same variable
                    f2 = facts | {(d, val)}
                t2 = edge_step(b, k, t) if edge_step is not None else t
                if sb == cfg.exit:
                    out.to_exit[b].add((t2, f2))
                if (t2, f2) not in inn[sb]:
                    inn[sb].add((t2, f2))
                    work.append(sb)
    return inn, out


def enclosing_loops(fn, par, n):
    """list of enclosing loop nodes (outermost first)"""
    out = []
    cur = n
    while id(cur) in par:
        cur, slot = par[id(cur)]
        if cur.get("k") in ("For", "While", "Do", "ForRange") and slot == "body":
            out.append(cur)
    return out[::-1]


def enclosing_stmt_chain(par, n):
    out = []
    cur = n
    while id(cur) in par:
        cur, slot = par[id(cur)]
        out.append((cur, slot))
    return out


def innermost_loop_same(par, a, b):
    """two nodes sit in the same innermost loop body"""
    def inner(n):
        cur = n
        while id(cur) in par:
            cur, slot = par[id(cur)]
            if cur.get("k") in ("For", "While", "Do", "ForRange") and slot == "body":
                return cur
        return None
    return inner(a) is inner(b)


def after_on_all_paths(fn, anchor, pred):
    """every path from statement `anchor` to a normal exit executes a CFG element satisfying pred after it"""
    cfg = fn.cfg
    w = cfg.block_of(anchor["i"])
    if w is None:
        return False
    b0, pos = w
    els = cfg.blocks[b0]["el"]
    for e in els[pos + 1:]:
        n = fn.by_id(e)
        if n is not None and pred(n):
            return True
    marked = set()
    for b in cfg.blocks.values():
        for e in b["el"]:
            n = fn.by_id(e)
            if n is not None and pred(n):
                marked.add(b["id"])
                break
    exits = set(cfg.normal_exit_preds())
    if b0 in exits:
        return False
    seen = set()
    st = [s for s in cfg.succ.get(b0, [])]
    while st:
        b = st.pop()
        if b in seen or b in marked:
            continue
        seen.add(b)
        if b in exits:
            return False
        st.extend(cfg.succ.get(b, []))
    return True


def unmodelled_mutable_uses(fn, rs, root, after=None, modelled=()):
    """calls (executed after `after` on some path, if given) that receive `root` or an object derived from it in a mutable position
    (non-const receiver in statement position, non-const reference parameter) and whose name is not in `modelled`:
    the effect a rule is looking for may be achieved there"""
    cfg = fn.cfg
    par = parents(fn)
    out = []
    reach = None
    if after is not None and cfg is not None and cfg.block_of(after["i"]) is not None:
        b0, pos = cfg.block_of(after["i"])
        reach = set(cfg.reachable(b0))
    for n in own_nodes(fn):
        if not is_call(n) or n is after or n.get("callee") in MOVE_FNS or n.get("callee") == "FEAT::assertion":
            continue
        nm = callee_name(n)
        lam = lambda_body_of(rs, n)
        if nm in modelled and lam is None:
            continue
        if reach is not None:
            w = cfg.block_of(n.get("i")) if "i" in n else None
            if w is None or w[0] not in reach or (w[0] == b0 and w[1] <= pos and not _in_cycle(cfg, b0)):
                continue
        if lam is not None:
            # calling a local closure: it may modify what its body touches (its body is not followed here)
            if any(p_.startswith(root) for p_ in lambda_touched_paths(rs, fn, lam)):
                out.append(n)
                continue
            if nm in modelled:
                continue
        hit = False
        recv = receiver(n)
        for a, pn_, pt_ in call_args_with_params(n, fn):
            if a is recv:
                continue
            if pt_ is not None and is_nonconst_ref(pt_) and rs.path(a).startswith(root):
                hit = True
            # a closure handed to the callee (callback): the callee may run it, and it may modify what its body touches
            la = a
            while la is not None and la.get("k") in ("Construct", "TempObj", "Cast") and (la.get("e") is not None or len(la.get("a", [])) == 1):
                la = la.get("e") if la.get("e") is not None else la["a"][0]
            if la is not None and la.get("k") == "Ref" and la.get("dk") == "local" and rs.var(la.get("d")) is not None and (rs.var(la["d"]).get("init") or {}).get("k") == "Lambda":
                la = rs.var(la["d"])["init"]
            if la is not None and la.get("k") == "Lambda" and la.get("body") is not None and any(p_.startswith(root) for p_ in lambda_touched_paths(rs, fn, la["body"])):
                hit = True
        if recv is not None and not n.get("cconst") and n.get("k") in ("MCall", "OpCall") and rs.path(recv).startswith(root):
            pr = par.get(id(n))
            if pr is not None and pr[0].get("k") in ("Block", "If", "For", "While", "Do", "ForRange"):
                hit = True
        if hit:
            out.append(n)
    return out


def _in_cycle(cfg, b):
    return any(b in cfg.reachable(s) for s in cfg.succ.get(b, []))


# -------------------------------------------------------------------------------------------------------------
# lambdas: the body of a lambda is not executed where it is written; calling the closure may modify whatever the body touches
# -------------------------------------------------------------------------------------------------------------

def own_nodes(fn):
    """nodes of the function itself: lambda bodies are not descended into (the Lambda node is yielded)"""
    prune = lambda x: x.get("k") == "Lambda"
    for i in fn.d.get("inits", []) or []:
        yield from walk(i.get("init"), prune)
    yield from walk(fn.body, prune)


def own_walk(n):
    """walk below n without descending into lambda bodies"""
    return walk(n, lambda x: x.get("k") == "Lambda")


def lambda_body_of(rs, n):
    """body of the local lambda a call node invokes (`auto f = [&]{...}; f();`), else None"""
    if n.get("k") == "OpCall" and n.get("op") == "()" and n.get("a") and n["a"][0].get("k") == "Ref" and n["a"][0].get("dk") == "local":
        v = rs.var(n["a"][0].get("d"))
        ini = v.get("init") if v is not None else None
        if ini is not None and ini.get("k") == "Lambda":
            return ini.get("body")
    return None


def lambda_touched_paths(rs, fn, body):
    """access paths of the objects a lambda body may modify: receivers of non-const member calls, assignment targets, non-const reference arguments"""
    out = []
    for m in walk(body):
        if m.get("k") == "Assign":
            out.append(rs.path(m["lhs"]))
        elif m.get("k") == "Un" and m.get("op") in ("++", "--"):
            out.append(rs.path(m["e"]))
        elif is_call(m) and m.get("callee") not in MOVE_FNS:
            recv = receiver(m)
            if recv is not None and not m.get("cconst"):
                out.append(rs.path(recv))
            for a, pn_, pt_ in call_args_with_params(m, fn):
                if a is not recv and pt_ is not None and is_nonconst_ref(pt_):
                    out.append(rs.path(a))
    return [p_ for p_ in out if not p_.opaque()]
