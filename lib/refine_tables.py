"""refine_tables: symbolic extraction of the table-driven mesh refinement code (engine E10).

Nothing of FEAT3 is executed.  The module contains

  * Lin       – integer linear forms over opaque atoms (loop variable, index offsets, coarse index-set
                entries `v[i][k]`, orientation lookups `sim.map(a,b)` ...),
  * SymEval   – a small abstract evaluator over the featx fact trees for the straight-line,
                table-filling functions of kernel/geometry/intern (one symbolic iteration of the loop
                over the coarse entities; loops with constant bounds are unrolled; calls to functions
                whose bodies are in the fact base are inlined; anything data dependent raises
                Unsupported and the caller reports the function as not analysable),
  * helpers that read literal tables (`static const int indices[..][..]`) and enumerate the paths
    of loop-free decision trees (CongruencySampler::compare).

The *meaning* of the extracted tables is decided in checks/c10.py.
"""
import re
from fractions import Fraction


class Unsupported(Exception):
    pass


# -------------------------------------------------------------------------------------------------
# linear forms
# -------------------------------------------------------------------------------------------------

class Lin:
    """c + sum coef*atom, integer coefficients; atoms are hashable tuples"""
    __slots__ = ("c", "t")

    def __init__(self, c=0, t=None):
        self.c = int(c)
        self.t = {a: k for a, k in (t or {}).items() if k != 0}

    @staticmethod
    def atom(a):
        return Lin(0, {a: 1})

    def is_const(self):
        return not self.t

    def as_int(self):
        if self.t:
            raise Unsupported("constant integer expected, got %s" % self)
        return self.c

    def __add__(self, o):
        o = lin(o)
        t = dict(self.t)
        for a, k in o.t.items():
            t[a] = t.get(a, 0) + k
        return Lin(self.c + o.c, t)

    def __neg__(self):
        return Lin(-self.c, {a: -k for a, k in self.t.items()})

    def __sub__(self, o):
        return self + (-lin(o))

    def __mul__(self, o):
        o = lin(o)
        if o.is_const():
            return Lin(self.c * o.c, {a: k * o.c for a, k in self.t.items()})
        if self.is_const():
            return o * self
        raise Unsupported("non-linear product (%s)*(%s)" % (self, o))

    def key(self):
        return (self.c, tuple(sorted(self.t.items(), key=repr)))

    def __eq__(self, o):
        return isinstance(o, Lin) and self.key() == o.key()

    def __hash__(self):
        return hash(self.key())

    def __repr__(self):
        parts = []
        for a, k in sorted(self.t.items(), key=repr):
            nm = atom_name(a)
            parts.append(nm if k == 1 else "%d*%s" % (k, nm))
        if self.c or not parts:
            parts.append(str(self.c))
        return " + ".join(parts)


def lin(x):
    if isinstance(x, Lin):
        return x
    if isinstance(x, bool):
        return Lin(int(x))
    if isinstance(x, int):
        return Lin(x)
    raise Unsupported("integer value expected, got %r" % (x,))


def atom_name(a):
    k = a[0]
    if k == "off":
        return "index_offsets[%d]" % a[1]
    if k == "ent":
        return "%s<%d,%d>[%s][%d]" % (a[1], a[2], a[3], a[4], a[5])
    if k == "num":
        return "num<%s,%d>" % (a[1], a[2])
    if k == "loop":
        return "i" if a[1] == 0 else "i_%d" % a[1]
    if k == "sim":
        return "map#%d(%d,%d)" % (a[1], a[2], a[3])
    if k == "tim":
        return "tmap#%d(%d)" % (a[1], a[2])
    if k == "tgt":
        return "target<%d>[%s]" % (a[1], a[2])
    if k == "tnum":
        return "tnum<%d>" % a[1]
    if k == "uninit":
        return "<uninitialised array element %d>" % a[1]
    return "%s" % "_".join(str(x) for x in a)


class SymCond:
    def __init__(self, op, lhs, rhs):
        self.op, self.lhs, self.rhs = op, lhs, rhs

    def __repr__(self):
        return "(%s %s %s)" % (self.lhs, self.op, self.rhs)


# -------------------------------------------------------------------------------------------------
# lvalues / objects
# -------------------------------------------------------------------------------------------------

class VarRef:
    def __init__(self, env, d):
        self.env, self.d = env, d

    def get(self):
        return self.env[self.d]

    def set(self, v, ev, node):
        self.env[self.d] = v


class ElemRef:
    def __init__(self, lst, i):
        self.lst, self.i = lst, i

    def get(self):
        v = self.lst[self.i]
        if v is None:
            # element of a local C array that no statement has written: an uninitialised read in C++
            return Lin.atom(("uninit", self.i))
        return v

    def set(self, v, ev, node):
        self.lst[self.i] = v


class FieldRef:
    def __init__(self, obj, name):
        self.obj, self.name = obj, name

    def get(self):
        if self.name not in self.obj.fields:
            raise Unsupported("read of unset member %s" % self.name)
        return self.obj.fields[self.name]

    def set(self, v, ev, node):
        self.obj.fields[self.name] = v


class UObj:
    """instance of a user class whose constructor/members are inlined from the fact base"""

    def __init__(self, cls):
        self.cls = cls
        self.fields = {}

    def __repr__(self):
        return "<%s %s>" % (self.cls, self.fields)


class Arr(list):
    """C array (decayed pointers share the list)"""
    pass


class _Return(Exception):
    def __init__(self, v):
        self.v = v


class _Break(Exception):
    pass


class _Continue(Exception):
    pass


# -------------------------------------------------------------------------------------------------
# evaluator
# -------------------------------------------------------------------------------------------------

class SymEval:
    MAX_STEPS = 400000

    def __init__(self, facts_list, call_hooks=None, construct_hooks=None):
        """call_hooks: list of (regex on callee, fn(ev, node, args_nodes, env, fn) -> value)
        construct_hooks: list of (regex on ccls, fn(ev, node, argvalues) -> object)"""
        self.by_full = {}
        self.by_qn = {}
        for facts in facts_list:
            for f in facts.functions:
                if f.tk == "pattern" or f.body is None:
                    continue
                self.by_full.setdefault(f.full, f)
                self.by_qn.setdefault((f.qn, len(f.params)), []).append(f)
        self.call_hooks = [(re.compile(r), h) for r, h in (call_hooks or [])]
        self.construct_hooks = [(re.compile(r), h) for r, h in (construct_hooks or [])]
        self.steps = 0
        self.loops = []          # symbolic loops: dict(atom, bound, line)
        self.loop_depth = 0
        self.asserts = []        # assertion call nodes met
        self.next_id = 0
        self.cond_stack = []
        self.state_hooks = []    # (save() -> data, restore(data)) of the caller's recording objects

    # ---- plumbing -------------------------------------------------------------------------------
    def save_state(self):
        return (len(self.loops), len(self.asserts), self.next_id, [sv() for sv, _ in self.state_hooks])

    def restore_state(self, st):
        del self.loops[st[0]:]
        del self.asserts[st[1]:]
        self.next_id = st[2]
        for (_, rs), data in zip(self.state_hooks, st[3]):
            rs(data)

    def fresh(self):
        self.next_id += 1
        return self.next_id

    def tick(self):
        self.steps += 1
        if self.steps > self.MAX_STEPS:
            raise Unsupported("step limit exceeded")

    def lookup(self, call):
        cfull = call.get("cfull")
        if cfull and cfull in self.by_full:
            f = self.by_full[cfull]
            if len(f.params) == len(call.get("pn", [])):
                return f
        cands = self.by_qn.get((call.get("callee"), len(call.get("pn", []))), [])
        if cfull:
            ex = [f for f in cands if f.full == cfull]
            if len(ex) >= 1:
                return ex[0]
        if len(cands) == 1:
            return cands[0]
        return None

    def run(self, fn, args, this=None):
        env = {}
        if len(args) != len(fn.params):
            raise Unsupported("%s: %d arguments for %d parameters" % (fn.full, len(args), len(fn.params)))
        for p, a in zip(fn.params, args):
            env[p["d"]] = a
        if this is not None:
            env["this"] = this
        for ini in fn.d.get("inits", []) or []:
            if this is None:
                raise Unsupported("constructor %s without object" % fn.full)
            if "member" not in ini:
                raise Unsupported("base/delegating initialiser in %s" % fn.full)
            this.fields[ini["member"]] = self.eval(ini["init"], env, fn)
        try:
            self.exec(fn.body, env, fn)
        except _Return as r:
            return r.v
        return None

    # ---- statements ------------------------------------------------------------------------------
    def exec(self, n, env, fn):
        self.tick()
        if n is None:
            return
        k = n["k"]
        if k == "Block":
            for s in n["s"]:
                self.exec(s, env, fn)
        elif k == "Decl":
            for v in n["vars"]:
                self.decl(v, env, fn)
        elif k == "If":
            if n.get("init"):
                self.exec(n["init"], env, fn)
            c = self.eval(n["c"], env, fn)
            if isinstance(c, Lin) and c.is_const():
                c = c.c != 0
            if not isinstance(c, bool):
                raise Unsupported("branch on a non-constant condition %s (line %s)" % (c, n.get("l")))
            if c:
                self.exec(n["then"], env, fn)
            elif n.get("else"):
                self.exec(n["else"], env, fn)
        elif k == "For":
            self.for_loop(n, env, fn)
        elif k == "Return":
            raise _Return(self.eval(n["e"], env, fn) if n.get("e") is not None else None)
        elif k == "Break":
            raise _Break()
        elif k == "Continue":
            raise _Continue()
        elif k in ("While", "Do"):
            first = k == "Do"
            while True:
                self.tick()
                if not first:
                    c = self.eval(n["c"], env, fn)
                    if isinstance(c, Lin) and c.is_const():
                        c = c.c != 0
                    if not isinstance(c, bool):
                        raise Unsupported("%s loop with a non-constant condition %s (line %s)" % (k.lower(), c, n.get("l")))
                    if not c:
                        break
                first = False
                try:
                    self.exec(n["body"], env, fn)
                except _Break:
                    break
                except _Continue:
                    pass
        elif k in ("Switch", "ForRange", "Try", "OMP"):
            raise Unsupported("%s statement at line %s" % (k, n.get("l")))
        else:
            self.eval(n, env, fn)

    def decl(self, v, env, fn):
        init = v.get("init")
        if init is None:
            ty = fn.type(v.get("t"))
            m = re.search(r"\[(\d+)\]$", ty)
            if m:
                env[v["d"]] = Arr([None] * int(m.group(1)))
            else:
                env[v["d"]] = None
            return
        if v.get("static") and init.get("k") == "InitList":
            env[v["d"]] = self.initlist(init, env, fn)
            return
        if v.get("ref"):
            env[v["d"]] = self.eval_ref(init, env, fn)
        else:
            env[v["d"]] = self.rvalue(self.eval(init, env, fn))

    def initlist(self, n, env, fn):
        out = Arr()
        for a in n.get("a", []):
            if a.get("k") == "InitList":
                out.append(self.initlist(a, env, fn))
            else:
                out.append(self.rvalue(self.eval(a, env, fn)))
        return out

    def for_loop(self, n, env, fn):
        if n.get("init"):
            self.exec(n["init"], env, fn)
        first = True
        while True:
            self.tick()
            c = self.eval(n["c"], env, fn) if n.get("c") is not None else True
            if isinstance(c, Lin) and c.is_const():
                c = c.c != 0
            if isinstance(c, SymCond):
                if not first:
                    raise Unsupported("loop condition became symbolic after the first iteration (line %s)" % n.get("l"))
                self.symbolic_loop(n, c, env, fn)
                return
            if not isinstance(c, bool):
                raise Unsupported("loop condition %r (line %s)" % (c, n.get("l")))
            if not c:
                break
            first = False
            try:
                self.exec(n["body"], env, fn)
            except _Break:
                break
            except _Continue:
                pass
            if n.get("inc") is not None:
                self.eval(n["inc"], env, fn)

    def symbolic_loop(self, n, c, env, fn):
        """`for(Index i(0); i < N; ++i)` with a symbolic bound N: one symbolic iteration"""
        init = n.get("init")
        if not (init and init["k"] == "Decl" and len(init["vars"]) == 1):
            raise Unsupported("symbolic loop without a single counter declaration (line %s)" % n.get("l"))
        var = init["vars"][0]
        v0 = env.get(var["d"])
        if not (isinstance(v0, Lin) and v0.is_const() and v0.c == 0):
            raise Unsupported("symbolic loop counter does not start at 0 (line %s)" % n.get("l"))
        cn = n["c"]
        if not (cn["k"] == "Bin" and cn["op"] == "<" and cn["lhs"].get("k") == "Ref" and cn["lhs"].get("d") == var["d"]):
            raise Unsupported("symbolic loop condition is not `counter < bound` (line %s)" % n.get("l"))
        inc = n.get("inc")
        if not (inc and inc["k"] == "Un" and inc["op"] == "++" and inc["e"].get("k") == "Ref" and inc["e"].get("d") == var["d"]):
            raise Unsupported("symbolic loop increment is not ++counter (line %s)" % n.get("l"))
        if self.loop_depth:
            raise Unsupported("nested symbolic loops (line %s)" % n.get("l"))
        same = [k for k, l in enumerate(self.loops) if l["bound"] == c.rhs]
        if same:
            atom = self.loops[same[0]]["atom"]      # a second loop over the same range: same symbolic entity i
        else:
            atom = ("loop", len(self.loops))
            self.loops.append({"atom": atom, "bound": c.rhs, "line": n.get("l")})
        i_lin = Lin.atom(atom)
        env[var["d"]] = i_lin
        before = {d: (list(v) if isinstance(v, list) else v) for d, v in env.items()
                  if d != var["d"] and (isinstance(v, (Lin, bool, list)) or isinstance(v, Fraction))}
        # dry run of one iteration: finds induction variables (outer scalars advanced by a constant per iteration)
        saved = self.save_state()
        trial = {d: (type(v)(v) if isinstance(v, list) else v) for d, v in env.items()}
        self.loop_depth += 1
        try:
            self.exec(n["body"], trial, fn)
        except (_Break, _Continue):
            raise Unsupported("break/continue in the symbolic loop (line %s)" % n.get("l"))
        finally:
            self.loop_depth -= 1
            self.restore_state(saved)
        stride = {}
        for d, v in before.items():
            now = trial.get(d)
            if isinstance(v, list):
                if list(now) != v:
                    raise Unsupported("an array declared outside the loop over the coarse entities is modified inside it (line %s)" % n.get("l"))
            elif now != v:
                if not (isinstance(v, Lin) and isinstance(now, Lin) and (now - v).is_const()):
                    raise Unsupported("a variable declared outside the loop over the coarse entities is modified inside it (loop-carried state, line %s)" % n.get("l"))
                stride[d] = (now - v).c
        for d, k in stride.items():
            env[d] = before[d] + i_lin * k          # value at the beginning of iteration i
        self.loop_depth += 1
        try:
            self.exec(n["body"], env, fn)
        finally:
            self.loop_depth -= 1
        for d, k in stride.items():
            if env.get(d) != before[d] + i_lin * k + k:
                raise Unsupported("induction variable does not advance uniformly (line %s)" % n.get("l"))
            env[d] = before[d] + c.rhs * k          # value after the last iteration
        # counter is dead after the loop
        env[var["d"]] = None

    # ---- expressions ---------------------------------------------------------------------------
    def rvalue(self, v):
        if isinstance(v, (VarRef, ElemRef, FieldRef)):
            return v.get()
        return v

    def eval_ref(self, n, env, fn):
        """value for binding a reference: objects stay objects, array elements / slots stay lvalues"""
        v = self.eval(n, env, fn, want_lvalue=True)
        if isinstance(v, VarRef):
            inner = v.get()
            if isinstance(inner, (Lin, bool)) or inner is None:
                return v
            return inner
        return v

    def eval(self, n, env, fn, want_lvalue=False):
        self.tick()
        k = n["k"]
        if k == "Int":
            return Lin(int(n["v"]))
        if k == "Bool":
            return bool(n["v"])
        if k == "Str":
            return n["v"]
        if k == "This":
            if "this" not in env:
                raise Unsupported("this outside of a member")
            return env["this"]
        if k == "Ref":
            if n["d"] in env:
                v = env[n["d"]]
                if want_lvalue and (isinstance(v, (Lin, bool)) or v is None):
                    return VarRef(env, n["d"])
                if isinstance(v, (VarRef, ElemRef, FieldRef)) and not want_lvalue:
                    return v.get()
                if v is None:
                    raise Unsupported("read of uninitialised variable %s (line %s)" % (n["n"], n.get("l")))
                return v
            if "v" in n:
                return Lin(int(n["v"]))
            raise Unsupported("unbound name %s (line %s)" % (n.get("qn") or n["n"], n.get("l")))
        if k == "Member":
            b = self.eval(n["b"], env, fn)
            if isinstance(b, UObj):
                if n["n"] not in b.fields:
                    m = re.search(r"\[(\d+)\]$", fn.ntype(n) or "")
                    if m:
                        b.fields[n["n"]] = Arr([None] * int(m.group(1)))   # member array, default-initialised
                    else:
                        size = self._std_array_size(fn.ntype(n) or "", fn)
                        if size is not None:
                            b.fields[n["n"]] = Arr([None] * size)          # std::array member, default-initialised
                r = FieldRef(b, n["n"])
                return r if want_lvalue else r.get()
            if "v" in n:
                return Lin(int(n["v"]))
            raise Unsupported("member %s of %r (line %s)" % (n["n"], b, n.get("l")))
        if k == "Cast":
            if n.get("to") == "void":
                self.eval(n["e"], env, fn)
                return None
            return self.eval(n["e"], env, fn, want_lvalue)
        if k == "Un":
            op = n["op"]
            if op in ("++", "--"):
                lv = self.eval(n["e"], env, fn, want_lvalue=True)
                if not isinstance(lv, (VarRef, ElemRef, FieldRef)):
                    raise Unsupported("inc/dec of a non-lvalue (line %s)" % n.get("l"))
                old = lin(lv.get())
                new = old + (1 if op == "++" else -1)
                lv.set(new, self, n)
                return old if n.get("post") else new
            v = self.rvalue(self.eval(n["e"], env, fn))
            if op == "-":
                return -lin(v)
            if op == "+":
                return lin(v)
            if op == "!":
                if isinstance(v, bool):
                    return not v
                if isinstance(v, Lin) and v.is_const():
                    return v.c == 0
                raise Unsupported("negation of %r" % (v,))
            if op in ("*", "&"):
                return v
            raise Unsupported("unary %s (line %s)" % (op, n.get("l")))
        if k == "Bin":
            op = n["op"]
            if op in ("&&", "||"):
                a = self.truth(self.eval(n["lhs"], env, fn), n)
                if op == "&&" and not a:
                    return False
                if op == "||" and a:
                    return True
                return self.truth(self.eval(n["rhs"], env, fn), n)
            a = self.rvalue(self.eval(n["lhs"], env, fn))
            b = self.rvalue(self.eval(n["rhs"], env, fn))
            return self.binop(op, a, b, n, fn.ntype(n) if fn is not None else "")
        if k == "Assign":
            lv = self.eval(n["lhs"], env, fn, want_lvalue=True)
            rv = self.rvalue(self.eval(n["rhs"], env, fn))
            if not hasattr(lv, "set"):
                raise Unsupported("assignment to a non-lvalue %r (line %s)" % (lv, n.get("l")))
            if n["op"] != "=":
                rv = self.binop(n["op"][:-1], self.rvalue(lv.get()), rv, n)
            lv.set(rv, self, n)
            return lv
        if k == "Index":
            b = self.rvalue(self.eval(n["b"], env, fn))
            i = self.rvalue(self.eval(n["idx"], env, fn))
            return self.subscript(b, i, n, want_lvalue)
        if k == "Cond":
            c = self.truth(self.eval(n["c"], env, fn), n)
            return self.eval(n["then"] if c else n["else"], env, fn, want_lvalue)
        if k in ("Call", "MCall", "OpCall", "Construct", "TempObj"):
            return self.call(n, env, fn, want_lvalue)
        if k == "InitList":
            return self.initlist(n, env, fn)
        raise Unsupported("construct %s at %s:%s" % (k, fn.file if fn else "?", n.get("l")))

    def truth(self, v, n):
        v = self.rvalue(v)
        if isinstance(v, bool):
            return v
        if isinstance(v, Lin) and v.is_const():
            return v.c != 0
        raise Unsupported("non-constant condition %r (line %s)" % (v, n.get("l")))

    def _std_array_size(self, ty, fn):
        """element count of a `std::array<T, N>` type string; N may be spelled as a named class constant (type sugar)"""
        m = re.match(r"^(?:const\s+)?std::array<.*,\s*([^,<>]+(?:\([^()]*\))?)>\s*&?$", ty.strip())
        if not m:
            return None
        e = m.group(1).strip()
        mm = re.match(r"^(?:std::)?size_t\((.*)\)$", e)
        if mm:
            e = mm.group(1).strip()
        if re.match(r"^\d+(U|UL|ULL|u|ul)?$", e):
            return int(re.match(r"^\d+", e).group(0))
        if re.match(r"^[A-Za-z_]\w*$", e):
            # a static constexpr member of the same class: take its value from any resolved reference to it
            for flist in self.by_qn.values():
                for g in flist:
                    if g.cls == fn.cls:
                        for x in g.nodes():
                            if x.get("k") == "Ref" and x.get("n") == e and "v" in x:
                                return int(x["v"])
        return None

    def subscript(self, b, i, n, want_lvalue=False):
        if hasattr(b, "op_index"):
            return b.op_index(self, i, n)
        if isinstance(b, list):
            ii = lin(i).as_int()
            if not (0 <= ii < len(b)):
                raise Unsupported("constant subscript %d out of range %d (line %s)" % (ii, len(b), n.get("l")))
            r = ElemRef(b, ii)
            if want_lvalue:
                return r
            v = r.get()
            return v
        raise Unsupported("subscript of %r (line %s)" % (b, n.get("l")))

    @staticmethod
    def frac(x):
        if isinstance(x, Fraction):
            return x
        return Fraction(lin(x).as_int())

    def binop(self, op, a, b, n, ty=""):
        floating = re.sub(r"\bconst\b", "", ty or "").strip() in ("double", "float", "long double", "__float128")
        if op in ("+", "-", "*", "/") and (isinstance(a, Fraction) or isinstance(b, Fraction) or (op == "/" and floating)):
            fa, fb = self.frac(a), self.frac(b)
            if op == "/":
                if fb == 0:
                    raise Unsupported("division by zero")
                return fa / fb
            return fa + fb if op == "+" else fa - fb if op == "-" else fa * fb
        if op in ("+", "-", "*"):
            a, b = lin(a), lin(b)
            return a + b if op == "+" else a - b if op == "-" else a * b
        if op in ("/", "%", "<<", ">>", "&", "|", "^"):
            ai, bi = lin(a).as_int(), lin(b).as_int()
            if op in ("/", "%") and bi == 0:
                raise Unsupported("division by zero")
            if op == "/":
                q = abs(ai) // abs(bi)
                return Lin(q if (ai >= 0) == (bi >= 0) else -q)
            if op == "%":
                r = abs(ai) % abs(bi)
                return Lin(r if ai >= 0 else -r)
            return Lin({"<<": ai << bi, ">>": ai >> bi, "&": ai & bi, "|": ai | bi, "^": ai ^ bi}[op])
        if op in ("<", ">", "<=", ">=", "==", "!="):
            if isinstance(a, bool) and isinstance(b, bool):
                if op == "==":
                    return a == b
                if op == "!=":
                    return a != b
            a, b = lin(a), lin(b)
            d = a - b
            if d.is_const():
                c = d.c
                return {"<": c < 0, ">": c > 0, "<=": c <= 0, ">=": c >= 0, "==": c == 0, "!=": c != 0}[op]
            return SymCond(op, a, b)
        raise Unsupported("binary operator %s (line %s)" % (op, n.get("l")))

    # ---- calls -----------------------------------------------------------------------------------
    def call(self, n, env, fn, want_lvalue=False):
        callee = n.get("callee", "")
        k = n["k"]
        for rx, h in self.call_hooks:
            if rx.search(callee):
                return h(self, n, env, fn)
        if k in ("Construct", "TempObj"):
            ccls = n.get("ccls", "")
            for rx, h in self.construct_hooks:
                if rx.search(ccls):
                    return h(self, n, [self.eval_ref(a, env, fn) for a in n.get("a", [])])
            target = self.lookup(n)
            args = [self.eval_ref(a, env, fn) for a in n.get("a", [])]
            if target is None:
                if len(args) == 1:
                    return self.rvalue(args[0])     # scalar functional cast / copy
                raise Unsupported("constructor %s has no body in the fact base (line %s)" % (callee, n.get("l")))
            obj = UObj(ccls)
            self.run(target, self.bind_args(target, args), this=obj)
            return obj
        if k == "MCall":
            obj = self.rvalue(self.eval(n["obj"], env, fn)) if n.get("obj") is not None else env.get("this")
            if hasattr(obj, "mcall"):
                return obj.mcall(self, n.get("n"), n, [self.rvalue(self.eval(a, env, fn)) for a in n.get("a", [])])
            target = self.lookup(n)
            if target is None or not isinstance(obj, UObj):
                raise Unsupported("method %s on %r not modelled (line %s)" % (callee, obj, n.get("l")))
            args = [self.eval_ref(a, env, fn) for a in n.get("a", [])]
            return self.run(target, self.bind_args(target, args), this=obj)
        if k == "OpCall":
            op = n.get("op")
            argn = n.get("a", [])
            obj = self.rvalue(self.eval(argn[0], env, fn))
            if op == "[]":
                idx = self.rvalue(self.eval(argn[1], env, fn))
                if hasattr(obj, "op_index") or isinstance(obj, list):
                    return self.subscript(obj, idx, n, want_lvalue)
                target = self.lookup(n)
                if target is not None and isinstance(obj, UObj):
                    return self.run(target, [idx], this=obj)
            if op == "()" and hasattr(obj, "op_call"):
                return obj.op_call(self, [self.rvalue(self.eval(a, env, fn)) for a in argn[1:]], n)
            if len(argn) == 2 and op not in ("[]", "=", "()"):
                other = self.rvalue(self.eval(argn[1], env, fn))
                if hasattr(obj, "op_bin"):
                    return obj.op_bin(self, op, other, True, n)
                if hasattr(other, "op_bin"):
                    return other.op_bin(self, op, obj, False, n)
            if op == "=" and hasattr(obj, "op_assign") and len(argn) == 2:
                obj.op_assign(self, self.rvalue(self.eval(argn[1], env, fn)), n)
                return obj
            raise Unsupported("operator%s on %r not modelled (line %s)" % (op, obj, n.get("l")))
        # free / static function with a body
        target = self.lookup(n)
        if target is None:
            raise Unsupported("callee %s has no body in the fact base (line %s)" % (n.get("cfull") or callee, n.get("l")))
        args = [self.eval_ref(a, env, fn) for a in n.get("a", [])]
        return self.run(target, self.bind_args(target, args))

    def bind_args(self, target, args):
        out = []
        for a, p in zip(args, target.params):
            pt = target.type(p["t"])
            byref = pt.rstrip().endswith("&") and not pt.lstrip().startswith("const ")
            if byref:
                out.append(a)
            else:
                out.append(self.rvalue(a))
        return out


# -------------------------------------------------------------------------------------------------
# literal tables and decision trees
# -------------------------------------------------------------------------------------------------

def extract_table2(fn, _depth=0):
    """`static const int T[][] = {...}; return T[p0][p1];` (or `return Sibling::map(p0, p1);`)  ->  rows"""
    table = None
    tdecl = None
    ret = None
    for s in fn.body.get("s", []):
        if s["k"] == "Decl":
            for v in s["vars"]:
                if v.get("init") is not None and v["init"].get("k") == "InitList":
                    if table is not None:
                        raise Unsupported("%s: more than one literal table" % fn.full)
                    rows = []
                    for r in v["init"]["a"]:
                        if r.get("k") != "InitList":
                            raise Unsupported("%s: table is not two-dimensional" % fn.full)
                        row = []
                        for e in r["a"]:
                            if e.get("k") != "Int":
                                raise Unsupported("%s: non-literal table entry" % fn.full)
                            row.append(int(e["v"]))
                        rows.append(row)
                    table, tdecl = rows, v["d"]
        elif s["k"] == "Return":
            ret = s
        elif s["k"] == "Call" and s.get("callee") == "FEAT::assertion":
            continue    # ASSERT in debug parses
        elif s["k"] == "Cast" and s.get("to") == "void" and s["e"].get("k") == "Int":
            continue    # ASSERT(...) expands to void(0) in release parses
        else:
            raise Unsupported("%s: statement %s in a table function" % (fn.full, s["k"]))
    if table is None and ret is not None and len(fn.params) == 2 and _depth < 3:
        # `return Sibling::map(a, b);` - the table of a sibling mapping, looked up with the same two arguments in the same order
        e = ret["e"]
        while e is not None and e.get("k") == "Cast":
            e = e["e"]
        if e is not None and e.get("k") == "Call" and len(e.get("a", [])) == 2:
            args = []
            for a in e["a"]:
                while a.get("k") == "Cast":
                    a = a["e"]
                args.append(a.get("d") if a.get("k") == "Ref" else None)
            target = fn.facts.by_decl(e.get("cdecl")) if hasattr(fn, "facts") and e.get("cdecl") is not None else None
            if target is not None and target.tk != "pattern" and target.body is not None and args == [fn.params[0]["d"], fn.params[1]["d"]]:
                return extract_table2(target, _depth + 1)
            raise Unsupported("%s: forwards to %s with other arguments than (%s, %s)" % (fn.full, e.get("callee"), fn.params[0]["n"], fn.params[1]["n"]))
    if table is None or ret is None or len(fn.params) != 2:
        raise Unsupported("%s: not of the form `return table[a][b]`" % fn.full)
    e = ret["e"]
    while e.get("k") == "Cast":
        e = e["e"]
    ok = (e.get("k") == "Index" and e["b"].get("k") == "Index" and e["b"]["b"].get("k") == "Ref" and e["b"]["b"].get("d") == tdecl
          and e["b"]["idx"].get("k") == "Ref" and e["b"]["idx"].get("d") == fn.params[0]["d"]
          and e["idx"].get("k") == "Ref" and e["idx"].get("d") == fn.params[1]["d"])
    if not ok:
        raise Unsupported("%s: return is not table[%s][%s]" % (fn.full, fn.params[0]["n"], fn.params[1]["n"]))
    return table


def decision_paths(fn):
    """paths of a loop-free decision tree over equalities `src[a] == trg[b]`.
    -> list of (conds, ret) with conds = [((side,idx),(side,idx),truth)], ret int or None"""
    if len(fn.params) != 2:
        raise Unsupported("%s: two parameters expected" % fn.full)
    side = {fn.params[0]["d"]: "src", fn.params[1]["d"]: "trg"}
    paths = []

    def value(n, env):
        while n.get("k") == "Cast":
            n = n["e"]
        k = n.get("k")
        if k == "Ref" and n["d"] in env:
            return env[n["d"]]
        if k == "OpCall" and n.get("op") == "[]" and n["a"][0].get("k") == "Ref" and n["a"][0].get("d") in side and n["a"][1].get("k") == "Int":
            return (side[n["a"][0]["d"]], int(n["a"][1]["v"]))
        if k == "Index" and n["b"].get("k") == "Ref" and n["b"].get("d") in side and n["idx"].get("k") == "Int":
            return (side[n["b"]["d"]], int(n["idx"]["v"]))
        raise Unsupported("%s: operand %s at line %s is not src[k]/trg[k]" % (fn.full, k, n.get("l")))

    def intval(n):
        while n.get("k") == "Cast":
            n = n["e"]
        if n.get("k") == "Int":
            return int(n["v"])
        if n.get("k") == "Un" and n.get("op") == "-" and n["e"].get("k") == "Int":
            return -int(n["e"]["v"])
        raise Unsupported("%s: return value at line %s is not an integer literal" % (fn.full, n.get("l")))

    def flat(n):
        if n is None:
            return []
        if n["k"] == "Block":
            return list(n["s"])
        return [n]

    def branch(c, env, conds, on_true, on_false):
        """split on a boolean expression built from ==, !=, !, &&, || over src[k]/trg[k]"""
        while c.get("k") == "Cast":
            c = c["e"]
        k = c.get("k")
        if k == "Un" and c.get("op") == "!":
            return branch(c["e"], env, conds, on_false, on_true)
        if k == "Bin" and c.get("op") == "&&":
            return branch(c["lhs"], env, conds, lambda c2: branch(c["rhs"], env, c2, on_true, on_false), on_false)
        if k == "Bin" and c.get("op") == "||":
            return branch(c["lhs"], env, conds, on_true, lambda c2: branch(c["rhs"], env, c2, on_true, on_false))
        if k == "Bin" and c.get("op") in ("==", "!="):
            a, b = value(c["lhs"], env), value(c["rhs"], env)
            pos_truth = c["op"] == "=="
            on_true(conds + [(a, b, pos_truth)])
            on_false(conds + [(a, b, not pos_truth)])
            return
        if k == "Bool":
            return (on_true if c["v"] else on_false)(conds)
        raise Unsupported("%s: condition at line %s is not built from equalities of src[k]/trg[k]" % (fn.full, c.get("l")))

    def walk(stmts, env, conds):
        if len(paths) > 4096:
            raise Unsupported("%s: too many paths" % fn.full)
        for pos, s in enumerate(stmts):
            k = s["k"]
            if k == "Decl":
                env = dict(env)
                for v in s["vars"]:
                    if v.get("init") is not None:
                        env[v["d"]] = value(v["init"], env)
            elif k == "Return":
                def ret(e, cs):
                    while e.get("k") == "Cast":
                        e = e["e"]
                    if e.get("k") == "Cond":
                        branch(e["c"], env, cs, lambda c2: ret(e["then"], c2), lambda c2: ret(e["else"], c2))
                    else:
                        paths.append((list(cs), intval(e)))
                ret(s["e"], conds)
                return
            elif k == "If":
                rest = stmts[pos + 1:]
                branch(s["c"], env, conds, lambda c2: walk(flat(s["then"]) + rest, env, c2), lambda c2: walk(flat(s.get("else")) + rest, env, c2))
                return
            elif k == "Block":
                walk(flat(s) + stmts[pos + 1:], env, conds)
                return
            else:
                raise Unsupported("%s: statement %s at line %s in a decision tree" % (fn.full, k, s.get("l")))
        paths.append((list(conds), None))

    walk(flat(fn.body), {}, [])
    return paths


def decide(paths, src, trg):
    """evaluate the decision tree on concrete tuples; -> return value (None: fell off the end)"""
    hits = []
    for conds, ret in paths:
        ok = True
        for a, b, truth in conds:
            va = (src if a[0] == "src" else trg)[a[1]]
            vb = (src if b[0] == "src" else trg)[b[1]]
            if (va == vb) != truth:
                ok = False
                break
        if ok:
            hits.append(ret)
    if len(hits) != 1:
        raise Unsupported("decision tree is not deterministic on %s / %s (%d paths)" % (src, trg, len(hits)))
    return hits[0]


def targs(s):
    """top-level template arguments of the last template-id in a qualified class name"""
    depth = 0
    start = None
    last = None
    for i, ch in enumerate(s):
        if ch == "<":
            if depth == 0:
                start = i
            depth += 1
        elif ch == ">":
            depth -= 1
            if depth == 0:
                last = (start, i)
    if last is None:
        return []
    inner = s[last[0] + 1:last[1]]
    out, depth, cur = [], 0, ""
    for ch in inner:
        if ch == "<":
            depth += 1
        elif ch == ">":
            depth -= 1
        if ch == "," and depth == 0:
            out.append(cur.strip())
            cur = ""
        else:
            cur += ch
    if cur.strip():
        out.append(cur.strip())
    return out


def shape_of(s):
    """'FEAT::Shape::Hypercube<2>' -> ('H', 2); Vertex -> ('V', 0)"""
    m = re.search(r"Shape::(Hypercube|Simplex)<(\d)>", s)
    if m:
        return ("H" if m.group(1) == "Hypercube" else "S", int(m.group(2)))
    if re.search(r"Shape::Vertex", s):
        return ("V", 0)
    return None


def shape_name(sh):
    return {"H": "Hypercube<%d>", "S": "Simplex<%d>", "V": "Vertex"}[sh[0]] % ((sh[1],) if sh[0] != "V" else ())
