"""ikinds: index-kind inference (engine E2) and two-pass agreement (engine E3) over featx facts.

A small refinement-type checker for CSR-style index code.  Inside one function

  * every integer *size* expression is normalised to a linear form `Lin` over atomic size symbols
    (parameters, `obj.accessor()` results, `size(vector)`), with the function's own XASSERT
    equalities and the constructions (`IndexVector(E)`) as the only sources of equalities;
  * every integer *index* expression gets a range `Rng(lo, hi)` meaning lo <= v < hi (hi a `Lin`),
    from the loop that binds it (`for(i=a; i<E; ++i)`, count-down loops, adjactor image iterations,
    offset-array segments), from array element contracts (`image_idx[k]` is an image node index),
    from guards (`while(j < i)`), and from +/- constants;
  * every array has an extent `Lin` (allocation, constructor initialiser, accessor contract).

The walker turns a function body into a list of *events* (subscripts with their range and context,
allocations, scalar assignments, adjactor calls, other calls) which the property checks turn into
obligations.  Nothing here is specific to one property; contracts are passed in by the check.

Unknown constructs are never guessed: they are reported in `FnKinds.unknown` and the check turns
them into analysis-incomplete (exit 2).
"""
import re
from featlib import walk, render, is_call, children


# -------------------------------------------------------------------------------------------------
# linear forms
# -------------------------------------------------------------------------------------------------

class Lin:
    """c + sum coeff*atom, atoms are strings"""
    __slots__ = ("t", "c")

    def __init__(self, t=None, c=0):
        self.t = {k: v for k, v in (t or {}).items() if v != 0}
        self.c = int(c)

    @staticmethod
    def atom(a):
        return Lin({a: 1}, 0)

    @staticmethod
    def const(c):
        return Lin({}, c)

    def __add__(self, o):
        if isinstance(o, int):
            return Lin(self.t, self.c + o)
        t = dict(self.t)
        for k, v in o.t.items():
            t[k] = t.get(k, 0) + v
        return Lin(t, self.c + o.c)

    def __neg__(self):
        return Lin({k: -v for k, v in self.t.items()}, -self.c)

    def __sub__(self, o):
        if isinstance(o, int):
            return Lin(self.t, self.c - o)
        return self + (-o)

    def scale(self, m):
        return Lin({k: v * m for k, v in self.t.items()}, self.c * m)

    def is_const(self):
        return not self.t

    def key(self):
        return (tuple(sorted(self.t.items())), self.c)

    def __eq__(self, o):
        return isinstance(o, Lin) and self.key() == o.key()

    def __hash__(self):
        return hash(self.key())

    def single_atom(self):
        """atom name if the form is exactly 1*atom + 0"""
        if self.c == 0 and len(self.t) == 1:
            (a, v), = self.t.items()
            if v == 1:
                return a
        return None

    def subst(self, m):
        """apply atom -> Lin substitution map (to a fixed point, maps are acyclic)"""
        cur = self
        for _ in range(12):
            out = Lin({}, cur.c)
            changed = False
            for a, v in cur.t.items():
                if a in m:
                    out = out + m[a].scale(v)
                    changed = True
                else:
                    out = out + Lin({a: v}, 0)
            cur = out
            if not changed:
                break
        return cur

    def __repr__(self):
        parts = []
        for a, v in sorted(self.t.items()):
            parts.append(a if v == 1 else "%d*%s" % (v, a))
        if self.c or not parts:
            parts.append(str(self.c))
        return "+".join(parts).replace("+-", "-")


class Rng:
    """lo <= v < hi"""
    __slots__ = ("lo", "hi", "exact")

    def __init__(self, lo, hi, exact=None):
        self.lo = lo
        self.hi = hi
        self.exact = exact      # Lin if the value is known exactly

    def shift(self, c):
        if self.exact is not None:
            # exact symbolic value: the lower bound carries no information (wrap-around of `n - 1`
            # for n == 0 is the business of the unsigned-predecessor rule)
            return Rng(0, self.hi + c, self.exact + c)
        return Rng(self.lo + c, self.hi + c, None)

    def __repr__(self):
        if self.exact is not None:
            return "{%r}" % (self.exact,)
        return "[%d,%r)" % (self.lo, self.hi)


class Top:
    """cls: 'cursor' (value of an offset array under construction), 'data' (data dependent value:
    counters, values without contract), 'unknown' (unrecognised construct)"""
    __slots__ = ("cls", "why")

    def __init__(self, cls, why):
        self.cls = cls
        self.why = why

    def __repr__(self):
        return "Top(%s:%s)" % (self.cls, self.why)


class Arr:
    def __init__(self, key, extent=None, elem=None, zero=False, fresh=False, node=None, owner="local", cond=False):
        self.key = key
        self.extent = extent     # Lin or None
        self.elem = elem         # Rng / Top / None
        self.zero = zero
        self.fresh = fresh
        self.node = node
        self.owner = owner
        self.cond = cond

    def __repr__(self):
        return "Arr(%s, ext=%r, elem=%r%s)" % (self.key, self.extent, self.elem, ", zero" if self.zero else "")


class Frame:
    """one enclosing construct of an event"""

    def __init__(self, kind, canon, node, loop=None, branch=None):
        self.kind = kind      # 'loop' | 'if' | 'case'
        self.canon = canon
        self.node = node
        self.loop = loop      # Loop object for loops
        self.branch = branch  # 'then' | 'else' for ifs

    def __repr__(self):
        return "%s:%s%s" % (self.kind, self.canon, "/" + self.branch if self.branch else "")


class Loop:
    """normalised loop
       kind 'range'  : var in [lo, hi) ascending (lo int or Lin start, hi Lin)
       kind 'down'   : count-down loop, var runs hi-1 ... lo
       kind 'adj'    : iterator over adj.image(node)
       kind 'seg'    : var in [P[n], P[n+1]) of an offset array P
       kind 'foreach': range-based for over a container
       kind 'while'  : generic while with a recognised guard
    """

    def __init__(self, kind, node, var=None, **kw):
        self.kind = kind
        self.node = node
        self.var = var
        self.__dict__.update(kw)


class Event:
    def __init__(self, kind, node, frames, seq, **kw):
        self.kind = kind
        self.node = node
        self.frames = list(frames)
        self.seq = seq
        self.__dict__.update(kw)

    def get(self, k, d=None):
        return self.__dict__.get(k, d)

    def __repr__(self):
        return "Event(%s L%s %s)" % (self.kind, self.node.get("l"), {k: v for k, v in self.__dict__.items() if k not in ("node", "frames", "kind")})


def strip(n):
    """strip explicit value-preserving casts (reinterpret_casts change the element type and stay)"""
    while n is not None and n.get("k") == "Cast" and n.get("e") is not None and n.get("ck") != "reinterpret":
        n = n["e"]
    return n


def strip_targs(s):
    out = []
    depth = 0
    for ch in s or "":
        if ch == "<":
            depth += 1
        elif ch == ">":
            depth -= 1
        elif depth == 0:
            out.append(ch)
    return "".join(out)


INC_OPS = ("++", "--")


def _is_deref(n):
    n = strip(n)
    if n is None:
        return None
    if n.get("k") == "Un" and n.get("op") == "*" and not n.get("post"):
        return strip(n["e"])
    if n.get("k") == "OpCall" and n.get("op") == "*" and len(n.get("a", [])) == 1:
        return strip(n["a"][0])
    return None


def _is_incdec(n):
    """-> (target node, +1/-1) for ++x, x++, --x, x--, x += 1, x -= 1 (built-in or overloaded)"""
    n = strip(n)
    if n is None:
        return None
    if n.get("k") == "Un" and n.get("op") in INC_OPS:
        return strip(n["e"]), (1 if n["op"] == "++" else -1)
    if n.get("k") == "OpCall" and n.get("op") in INC_OPS and n.get("a"):
        return strip(n["a"][0]), (1 if n["op"] == "++" else -1)
    if n.get("k") == "Assign" and n.get("op") in ("+=", "-="):
        r = strip(n["rhs"])
        if r.get("k") == "Int" and r.get("v") == "1":
            return strip(n["lhs"]), (1 if n["op"] == "+=" else -1)
    return None


def _subscript(n):
    """-> (base node, index node) for A[e], A.at(e), built-in and std::vector::operator[]"""
    n = strip(n)
    if n is None:
        return None
    if n.get("k") == "Index":
        return strip(n["b"]), strip(n["idx"])
    if n.get("k") == "OpCall" and n.get("op") == "[]" and len(n.get("a", [])) == 2:
        return strip(n["a"][0]), strip(n["a"][1])
    if n.get("k") == "MCall" and n.get("n") == "at" and len(n.get("a", [])) == 1:
        return strip(n["obj"]), strip(n["a"][0])
    return None


def _assigned_value(n):
    """value of an expression used as the source of an assignment: a = (b = c) stores c"""
    n = strip(n)
    while n is not None and n.get("k") == "Assign" and n.get("op") == "=":
        n = strip(n["rhs"])
    return n


def _comma_list(n):
    """split a comma expression into its operands"""
    n = strip(n)
    if n is None:
        return []
    if n.get("k") == "Bin" and n.get("op") == ",":
        return _comma_list(n["lhs"]) + _comma_list(n["rhs"])
    return [n]


class FunctionIndex:
    """lookup of function bodies (for inlining trivial accessors) over several Facts objects"""

    def __init__(self, facts_list):
        self.by_full = {}
        for facts in facts_list:
            for f in facts.functions:
                if f.tk == "pattern":
                    continue
                self.by_full.setdefault(f.full, []).append(f)
                self.by_full.setdefault(f.qn, []).append(f)

    def lookup(self, call):
        c = call.get("cfull") or call.get("callee")
        cands = self.by_full.get(c) or self.by_full.get(call.get("callee")) or []
        na = len(call.get("a", []))
        cands = [f for f in cands if len(f.params) >= na or True]
        # prefer same const-ness and parameter count
        best = [f for f in cands if len(f.params) == len(call.get("pn", []))
                and bool(f.d.get("const")) == bool(call.get("cconst"))]
        if best:
            return best[0]
        best = [f for f in cands if len(f.params) == len(call.get("pn", []))]
        return best[0] if best else None


class Contracts:
    """Property-specific contract tables (all optional).

    size_methods   : {method name: atom template}  e.g. {"get_num_nodes_domain": "Dom({o})"}; a call
                     obj.m() with m in the table is the atom, never inlined
    adj_begin/adj_end : method names of the adjactor interface
    adj_dom/adj_img   : atom templates for the domain / image size of an adjactor object
    array_methods  : {(class regex, method name): (extent template | None, elem template | None, offset?)}
                     pointer/array accessors of objects (get_domain_ptr, get_image_idx, ...)
    array_fields   : {(class regex, field name): (extent template, elem template, offset?)}
    param_arrays   : {(function regex, param name): (extent template, elem template)} raw pointer params
    index_params   : {(callee regex, parameter name): atom template} calls whose parameter is an index
                     of a given kind, e.g. ("DynamicGraph::insert", "domain_node"): "this._num_nodes_domain"
    elem_methods   : {(class regex, method/op name): (extent template, elem template)} objects subscripted
                     by operator[] (TargetSet: obj[i] with i < obj.get_num_entities())
    templates are format strings over {o} (object key); extent "E+1" syntax: (template, plus)
    """

    def __init__(self, **kw):
        self.size_methods = {}
        self.adj_begin = "image_begin"
        self.adj_end = "image_end"
        self.adj_dom = "Dom({o})"
        self.adj_img = "Img({o})"
        self.array_methods = {}
        self.array_fields = {}
        self.own_fields = {}       # like array_fields, for fields of `this` (extent usually size(field))
        self.param_arrays = {}
        self.index_params = {}
        self.ctor_sizes = {}       # {callee regex: {param name: atom template}}: objects constructed with given sizes
        self.param_ranges = {}     # {(function regex, param name): atom template}: documented index parameters, value in [0, atom)
        self.elem_methods = {}
        self.obj_arrays = {}       # {type regex: (extent template, elem template)} objects subscripted by operator[] (TargetSet, VertexSet)
        self.value_calls = {}      # {callee regex: (param name, extent template, value template)} e.g. IndexSet::operator()(i, j)
        self.ctor_hook = None      # callback(fk, object key, construct node, decl/init node) for constructions of local objects / members
        self.no_inline = set()
        self.offset_keys = None    # regex on array keys: fresh arrays that are offset (pointer) arrays of a CSR structure
        self.obj_alias = None      # callback(fn, objkey, node) -> canonical object key (or None)
        self.__dict__.update(kw)


def _tmpl(t, o, plus=0):
    if t is None:
        return None
    if isinstance(t, tuple):
        t, plus = t
    if isinstance(t, Lin):
        return t + plus
    return Lin.atom(t.format(o=o)) + plus


class FnKinds:
    """index-kind analysis of one function"""

    def __init__(self, fn, findex, contracts=None, this_key="this", eqs=None):
        self.fn = fn
        self.findex = findex
        self.ct = contracts or Contracts()
        self.this_key = this_key
        self.subst = {}          # atom -> Lin  (equalities: XASSERTs, constructions)
        self.eq_sources = []     # (text, line)
        self.events = []
        self.unknown = []        # (what, line)
        self.arrs = {}           # array key -> Arr
        self.fields = {}         # scalar field key -> Lin (flow: latest assignment)
        self.field_hist = {}     # key -> [(seq, Lin, node)]
        self.alias = {}          # decl id -> array key (pointer / reference locals naming an array)
        self.cursor = {}         # decl id -> dict(arr=key of the array pointed into, init=node, kind='ptr'|'idx'|'ref', src=...)
        self.locals = {}         # decl id -> Var node
        self.mut = {}            # decl id -> list of mutation nodes
        self.loopvars = {}       # decl id -> Loop (while analysing inside the loop)
        self.guards = {}         # decl id -> Rng (while inside a guard)
        self.itervars = {}       # decl id -> Loop(kind adj)
        self.frames = []
        self.seq = 0
        self.alias_arr = {}
        self.constructed = set()  # local objects constructed with sizes (their arrays are under construction: no element contract)
        self.returns = []        # snapshots at returns: (node, fields copy, arr extents copy)
        self.cond_depth = 0
        self._prepass()
        for a, b in (eqs or []):
            self.unify(a, b, "given")

    # ---------------------------------------------------------------------------------------------
    def _prepass(self):
        fn = self.fn
        for n in fn.nodes():
            if n.get("k") == "Var":
                self.locals[n["d"]] = n
        for p in fn.params:
            self.locals.setdefault(p["d"], {"k": "Var", "n": p["n"], "d": p["d"], "t": p.get("t"), "param": True})

        self.decl_depth = {}

        def dwalk(n, depth):
            if not isinstance(n, dict):
                return
            k = n.get("k")
            if k == "Var":
                self.decl_depth[n["d"]] = depth
            nd = depth + 1 if k in ("For", "While", "Do", "ForRange") else depth
            for c in children(n):
                dwalk(c, nd)
        dwalk(fn.body, 0)

        # vectors whose length changes (push_back, resize, ...): no static extent
        self.dynamic_arrays = set()
        for n in fn.nodes():
            if n.get("k") == "MCall" and n.get("n") in ("push_back", "emplace_back", "resize", "clear", "insert", "erase", "pop_back", "assign", "swap") \
                    and (n.get("ccls") or "").startswith("std::"):
                key = self.okey(n.get("obj")) if n.get("obj") is not None else None
                if key is not None:
                    self.dynamic_arrays.add(key)
        # member fields that are counters: mutated inside a loop or by ++/--/compound assignment
        self.mutable_fields = set()

        def fwalk(n, depth):
            if not isinstance(n, dict):
                return
            k = n.get("k")
            tgt = None
            compound = False
            if k == "Assign":
                tgt = strip(n["lhs"])
                compound = n.get("op") != "="
            elif k == "Un" and n.get("op") in INC_OPS:
                tgt = strip(n["e"])
                compound = True
            if tgt is not None and tgt.get("k") == "Member" and (depth > 0 or compound):
                key = self.okey(tgt)
                if key is not None:
                    self.mutable_fields.add(key)
            nd = depth + 1 if k in ("For", "While", "Do", "ForRange") else depth
            for c in children(n):
                fwalk(c, nd)
        fwalk(fn.body, 0)

        def target_decl(x):
            x = strip(x)
            if x is not None and x.get("k") == "Ref" and x.get("dk") in ("local", "param"):
                return x["d"]
            return None
        for n in fn.nodes():
            k = n.get("k")
            if k == "Assign":
                d = target_decl(n["lhs"])
                if d is not None:
                    self.mut.setdefault(d, []).append(n)
            elif k == "Un" and n.get("op") in INC_OPS:
                d = target_decl(n["e"])
                if d is not None:
                    self.mut.setdefault(d, []).append(n)
            elif k == "OpCall" and n.get("op") in ("++", "--", "=", "+=", "-=") and n.get("a"):
                d = target_decl(n["a"][0])
                if d is not None:
                    self.mut.setdefault(d, []).append(n)

    def is_single(self, d):
        return d in self.locals and not self.mut.get(d) and not self.locals[d].get("param")

    def unk(self, what, node=None):
        self.unknown.append((what, (node or {}).get("l")))

    # ---------------------------------------------------------------------------------------------
    # object keys
    # ---------------------------------------------------------------------------------------------
    def okey(self, n):
        """canonical key of an object / array lvalue expression, None if not nameable"""
        n = strip(n)
        if n is None:
            return None
        k = n.get("k")
        if k == "This":
            return self.this_key
        if k == "Ref":
            d = n.get("d")
            if d in self.alias:
                return self.alias[d]
            if n.get("dk") in ("local", "param"):
                v = self.locals.get(d)
                if v is not None and v.get("ref") and v.get("init") is not None and not v.get("param"):
                    r = self.okey(v["init"])
                    if r is not None:
                        return r
                key = n["n"]
                if self.ct.obj_alias:
                    a = self.ct.obj_alias(self, key, n)
                    if a:
                        return a
                return key
            return n.get("qn") or n.get("n")
        if k == "Member":
            b = n.get("b")
            bk = self.okey(b) if b is not None else self.this_key
            if bk is None:
                return None
            key = "%s.%s" % (bk, n["n"])
            if self.ct.obj_alias:
                a = self.ct.obj_alias(self, key, n)
                if a:
                    return a
            return key
        if k == "Un" and n.get("op") == "*" and not n.get("post"):
            e = strip(n["e"])
            if e.get("k") == "This":
                return self.this_key
            r = self.okey(e)
            return r
        if k == "MCall" and not n.get("a"):
            # reference-returning accessor: obj.get_x()
            o = self.okey(n.get("obj")) if n.get("obj") is not None else self.this_key
            if o is None:
                return None
            full = n.get("cfull") or n.get("callee") or ""
            # last component of the qualified name including the function template arguments
            depth, cut = 0, 0
            for i in range(len(full) - 1, 0, -1):
                ch = full[i]
                if ch == ">":
                    depth += 1
                elif ch == "<":
                    depth -= 1
                elif ch == ":" and depth == 0 and full[i - 1] == ":":
                    cut = i + 1
                    break
            name = full[cut:].replace(" ", "")
            key = "%s.%s()" % (o, name)
            if self.ct.obj_alias:
                a = self.ct.obj_alias(self, key, n)
                if a:
                    return a
            return key
        if k == "Call" and (n.get("callee") or "") in ("std::move", "std::forward") and n.get("a"):
            return self.okey(n["a"][0])
        return None

    # ---------------------------------------------------------------------------------------------
    # equalities
    # ---------------------------------------------------------------------------------------------
    def norm(self, lin):
        return lin.subst(self.subst) if lin is not None else None

    def unify(self, a, b, why=""):
        a, b = self.norm(a), self.norm(b)
        if a == b:
            return
        d = a - b
        # pick an atom with coefficient +-1 and solve for it (prefer the latest-looking / rhs atoms)
        for atom, v in sorted(d.t.items(), key=lambda kv: (not kv[0].startswith("size("), kv[0])):
            if v in (1, -1):
                rest = Lin({k: c for k, c in d.t.items() if k != atom}, d.c)
                val = rest.scale(-1) if v == 1 else rest
                if atom in val.t:
                    continue
                self.subst[atom] = val
                for k2 in list(self.subst):
                    self.subst[k2] = self.subst[k2].subst({atom: val})
                self.eq_sources.append((why, repr(a), repr(b)))
                return
        self.unk("equality %r == %r not solvable" % (a, b))

    # ---------------------------------------------------------------------------------------------
    # sizes (exact symbolic values)
    # ---------------------------------------------------------------------------------------------
    def size(self, n, depth=0):
        """Lin for an integer expression whose value is a loop-invariant size; None otherwise"""
        n = strip(n)
        if n is None or depth > 12:
            return None
        k = n.get("k")
        if k == "Int":
            try:
                return Lin.const(int(n["v"]))
            except ValueError:
                return None
        if k == "Ref":
            if "v" in n and n.get("dk") in ("enum", "global", "smember", "tparam"):
                try:
                    return Lin.const(int(n["v"]))
                except (ValueError, TypeError):
                    pass
            d = n.get("d")
            if n.get("dk") == "param":
                if self.mut.get(d):
                    return None
                return self.norm(Lin.atom(n["n"]))
            if n.get("dk") == "local":
                if d in self.loopvars or d in self.itervars or d in self.guards:
                    return None
                v = self.locals.get(d)
                if v is not None and self.is_single(d) and v.get("init") is not None:
                    r = self.size(v["init"], depth + 1)
                    if r is None and self.decl_depth.get(d, 1) == 0 and self._is_integral(v):
                        return self.norm(Lin.atom(n["n"]))
                    return r
                return None
            if "v" in n:
                try:
                    return Lin.const(int(n["v"]))
                except (ValueError, TypeError):
                    return None
            return None
        if k == "Member":
            key = self.okey(n)
            if key is None or key in self.mutable_fields:
                return None
            if key in self.fields:
                return self.norm(self.fields[key])
            return self.norm(Lin.atom(key))
        if k == "Bin" and n.get("op") in ("+", "-", "*"):
            a, b = self.size(n["lhs"], depth + 1), self.size(n["rhs"], depth + 1)
            if a is None or b is None:
                return None
            if n["op"] == "+":
                return self.norm(a + b)
            if n["op"] == "-":
                return self.norm(a - b)
            if a.is_const():
                return self.norm(b.scale(a.c))
            if b.is_const():
                return self.norm(a.scale(b.c))
            return None
        if k == "MCall":
            return self._size_mcall(n, depth)
        if k == "Cond":
            # P.empty() ? 0 : P.size() - 1   with a tracked non-empty extent
            c = strip(n["c"])
            if c.get("k") == "MCall" and c.get("n") == "empty":
                key = self.okey(c.get("obj"))
                arr = self.arrs.get(key)
                if arr is not None and arr.extent is not None and not arr.cond:
                    e = self.norm(arr.extent)
                    if e.c >= 1 and all(v > 0 for v in e.t.values()):
                        return self.size(n["else"], depth + 1)
                    if e.is_const() and e.c == 0:
                        return self.size(n["then"], depth + 1)
            return None
        if k in ("Construct", "TempObj") and len(n.get("a", [])) == 1:
            return self.size(n["a"][0], depth + 1)
        return None

    def _size_mcall(self, n, depth):
        name = n.get("n") or (n.get("callee") or "").rsplit("::", 1)[-1]
        obj = n.get("obj")
        okey = self.okey(obj) if obj is not None else self.this_key
        if n.get("a"):
            return None
        if okey is None:
            return None
        if name == "size" and okey in self.dynamic_arrays:
            return None
        if name == "size":
            arr = self.arrs.get(okey)
            if arr is not None and arr.extent is not None and not arr.cond:
                return self.norm(arr.extent)
            ccls = n.get("ccls") or ""
            if ccls.startswith("std::"):
                return self.norm(Lin.atom("size(%s)" % okey))
        if name in self.ct.size_methods:
            tm = self.ct.size_methods[name]
            if callable(tm):
                r = tm(self, okey, n)
                if r is not None:
                    return self.norm(r)
            else:
                return self.norm(Lin.atom(tm.format(o=okey)))
        # trivial accessor: inline `return <expr>;` (possibly after assertions)
        callee = self.findex.lookup(n) if self.findex is not None else None
        if callee is not None and callee.full not in self.ct.no_inline and callee.body is not None:
            stmts = [s for s in callee.body.get("s", []) if not self._is_noise(s)]
            asserts = [s for s in stmts if self._assert_eq(s) is not None]
            rest = [s for s in stmts if self._assert_eq(s) is None]
            if len(rest) == 1 and rest[0].get("k") == "Return" and rest[0].get("e") is not None:
                sub = FnKinds(callee, self.findex, self.ct, this_key=okey)
                sub.arrs = {k2: v for k2, v in self.arrs.items()}
                sub.fields = dict(self.fields)
                sub.subst = self.subst
                for s in asserts:
                    pr = sub._assert_eq(s)
                    a, b = sub.size(pr[0], depth + 1), sub.size(pr[1], depth + 1)
                    if a is not None and b is not None:
                        self.unify(a, b, "XASSERT in %s" % callee.name)
                sub.subst = self.subst
                r = sub.size(rest[0]["e"], depth + 1)
                if r is not None:
                    return self.norm(r)
        if n.get("cconst"):
            return self.norm(Lin.atom("%s(%s)" % (name, okey)))
        return None

    def _is_integral(self, v):
        ty = self.fn.type(v.get("t")) or ""
        ty = ty.replace("const ", "").strip()
        return ty in ("FEAT::Index", "unsigned long", "unsigned int", "int", "long", "std::size_t", "size_t", "std::uint64_t", "u64") \
            or ty.endswith("::size_type") or ty.endswith("Index")

    @staticmethod
    def _is_noise(s):
        s = strip(s)
        if s is None:
            return True
        if s.get("k") == "Cast" and s.get("to") == "void":
            return True
        if s.get("k") == "Int":
            return True
        if s.get("k") == "Decl" and not s.get("vars"):
            return True
        return False

    @staticmethod
    def _assert_eq(s):
        """XASSERT(a == b) -> (a, b)"""
        s = strip(s)
        if s is not None and s.get("k") == "Call" and (s.get("callee") or "").endswith("FEAT::assertion") and s.get("a"):
            c = strip(s["a"][0])
            if c.get("k") == "Bin" and c.get("op") == "==":
                return c["lhs"], c["rhs"]
            return ()
        return None

    # ---------------------------------------------------------------------------------------------
    # arrays
    # ---------------------------------------------------------------------------------------------
    def sub_arr(self, n):
        """Arr of the subscripted object of a subscript expression n (uses the class of an overloaded operator[] as type hint)"""
        sub = _subscript(n)
        if sub is None:
            return None
        n2 = strip(n)
        hint = n2.get("ccls") if n2.get("k") in ("OpCall", "MCall") else None
        return self.array_of(sub[0], hint=hint)

    def array_of(self, n, hint=None):
        """Arr for an array-valued expression (vector object, pointer from data()/accessor), or None"""
        n = strip(n)
        if n is None:
            return None
        k = n.get("k")
        if k == "Cast" and n.get("ck") == "reinterpret":
            inner = self.array_of(n.get("e"))
            key = "reinterpret(%s)" % (inner.key if inner is not None else render(n.get("e")))
            if key not in self.arrs:
                a = Arr(key, extent=None, owner="raw")
                a.view_of = inner.key if inner is not None else None
                self.arrs[key] = a
            return self.arrs[key]
        if k == "MCall" and not n.get("a"):
            name = n.get("n") or ""
            obj = n.get("obj")
            okey = self.okey(obj) if obj is not None else self.this_key
            if name == "data" and okey is not None:
                return self._arr_by_key(okey, obj)
            if okey is not None:
                ccls = n.get("ccls") or ""
                # accessor returning (the data pointer of) a member array: name the member itself
                fld = self._accessor_field(n)
                if fld is not None:
                    fake = {"k": "Member", "n": fld["n"], "qn": fld.get("qn"), "t": None, "b": n.get("obj") if n.get("obj") is not None else {"k": "This"}}
                    r = self._arr_by_key("%s.%s" % (okey, fld["n"]), fake)
                    if r is not None:
                        return r
                for (cre, m), spec in self.ct.array_methods.items():
                    if m == name and re.search(cre, ccls):
                        return self._contract_arr("%s.%s()" % (okey, name), okey, spec)
        key = self.okey(n)
        if key is None:
            return None
        if key in self.alias_arr:
            return self.alias_arr[key]
        return self._arr_by_key(key, n, hint=hint)

    def _accessor_field(self, call):
        """Member node F if the callee's body is `return F;` / `return F.data();` for a field F of its class"""
        callee = self.findex.lookup(call) if self.findex is not None else None
        if callee is None or callee.body is None:
            return None
        stmts = [x for x in callee.body.get("s", []) if not self._is_noise(x)]
        if len(stmts) != 1 or stmts[0].get("k") != "Return":
            return None
        e = strip(stmts[0].get("e"))
        if e is not None and e.get("k") == "MCall" and e.get("n") == "data" and not e.get("a"):
            e = strip(e.get("obj"))
        if e is not None and e.get("k") == "Member" and (e.get("b") is None or strip(e["b"]).get("k") == "This"):
            return e
        return None

    def _contract_arr(self, key, okey, spec):
        if key in self.arrs:
            return self.arrs[key]
        ext, elem = spec[0], spec[1]
        e = _tmpl(ext, okey)
        el = None
        if elem is not None:
            if isinstance(elem, Top):
                el = elem
            else:
                el = Rng(0, _tmpl(elem, okey))
        a = Arr(key, extent=e, elem=el, owner="contract")
        if okey in self.constructed:
            a.elem = None
            a.fresh = True
            a.owner = "constructed"
        a.offset = bool(spec[2]) if len(spec) > 2 else False
        a.obj = okey
        self.arrs[key] = a
        return a

    def _arr_by_key(self, key, node, hint=None):
        if key in self.arrs:
            return self.arrs[key]
        node = strip(node)
        if hint and self.ct.obj_arrays and key not in self.dynamic_arrays:
            for tre, spec in self.ct.obj_arrays.items():
                if re.search(tre, hint):
                    return self._contract_arr(key, key, spec)
        if key in self.dynamic_arrays:
            a = Arr(key, extent=None, owner="dynamic")
            self.arrs[key] = a
            return a
        if node is not None and node.get("t") is not None and self.ct.obj_arrays:
            ty0 = self.fn.ntype(node) or ""
            for tre, spec in self.ct.obj_arrays.items():
                if re.search(tre, ty0):
                    return self._contract_arr(key, key, spec)
        # member field of an object with a contract
        if node is not None and node.get("k") == "Member":
            b = node.get("b")
            bkey = self.okey(b) if b is not None else self.this_key
            cls = (node.get("qn") or "").rsplit("::", 1)[0]
            for (cre, f), spec in self.ct.array_fields.items():
                if f == node["n"] and re.search(cre, cls) and bkey != self.this_key:
                    return self._contract_arr(key, bkey, spec)
            for (cre, f), spec in self.ct.own_fields.items():
                if f == node["n"] and re.search(cre, cls) and bkey == self.this_key:
                    return self._contract_arr(key, bkey, spec)
            ty = self.fn.ntype(node) if node.get("t") is not None else ""
            if ty.startswith("std::vector") or "Vector" in ty or ty.endswith("*"):
                a = Arr(key, extent=Lin.atom("size(%s)" % key), owner="field")
                self.arrs[key] = a
                return a
        if node is not None and node.get("k") == "Ref" and node.get("dk") == "param":
            for (fre, p), spec in self.ct.param_arrays.items():
                if p == node["n"] and re.search(fre, self.fn.full):
                    return self._contract_arr(key, key, spec)
            ty = self.fn.ntype(node)
            if "std::vector" in ty:
                a = Arr(key, extent=Lin.atom("size(%s)" % key), owner="param")
                self.arrs[key] = a
                return a
            a = Arr(key, extent=None, owner="rawparam")
            self.arrs[key] = a
            return a
        return None

    def alloc_from_ctor(self, key, ctor, owner, node):
        a = self._alloc_from_ctor(key, ctor, owner, node)
        if a is not None and getattr(a, "extent_expr", None) is not None:
            a.extent_canon = self.canon(a.extent_expr)
        return a

    def _alloc_from_ctor(self, key, ctor, owner, node):
        """vector(n) / vector(n, v) / vector(other) construction -> Arr"""
        ctor = strip(ctor)
        # peel copy/move construction of a temporary
        while ctor is not None and ctor.get("k") in ("Construct", "TempObj") and len([a for a in ctor.get("a", [])]) == 1 \
                and strip(ctor["a"][0]).get("k") in ("Construct", "TempObj") and "vector" in (strip(ctor["a"][0]).get("callee") or ""):
            ctor = strip(ctor["a"][0])
        if ctor is None or ctor.get("k") not in ("Construct", "TempObj"):
            return None
        callee = ctor.get("callee") or ""
        if "vector" not in callee.rsplit("::", 1)[-1]:
            return None
        pn = ctor.get("pn", [])
        args = ctor.get("a", [])
        if not args or (len(pn) == 1 and pn[0] == "__a"):
            a = Arr(key, extent=Lin.const(0), fresh=True, node=node, owner=owner, zero=True)
            return a
        if pn and pn[0] == "__n":
            e = self.size(args[0])
            zero = True     # std::vector(n) value-initialises
            fillv = None
            if len(pn) >= 2 and pn[1] == "__value" and len(args) >= 2:
                v = strip(args[1])
                fillv = v
                zero = (v.get("k") in ("Int", "Bool") and str(v.get("v")) in ("0", "False", "false")) or v.get("k") == "Null"
            a = Arr(key, extent=e, fresh=True, node=node, owner=owner, zero=zero)
            a.offset = bool(self.ct.offset_keys and re.search(self.ct.offset_keys, key))
            a.extent_expr = args[0]
            a.fill = fillv
            a.valueinit = not (len(pn) >= 2 and pn[1] == "__value" and len(args) >= 2)
            return a
        if pn and pn[0] in ("__x", "__rv") and args:
            src = self.array_of(args[0])
            if src is not None:
                a = Arr(key, extent=src.extent, elem=src.elem, fresh=False, node=node, owner=owner)
                a.copy_of = src.key
                return a
        return None

    # ---------------------------------------------------------------------------------------------
    # ranges of index expressions
    # ---------------------------------------------------------------------------------------------
    def rng(self, n, depth=0):
        n = strip(n)
        if n is None or depth > 12:
            return Top("unknown", "empty expression")
        k = n.get("k")
        if k == "Int":
            c = int(n["v"])
            return Rng(c, Lin.const(c + 1), Lin.const(c))
        if k == "Ref":
            d = n.get("d")
            if d in self.guards:
                return self.guards[d]
            if d in self.loopvars:
                return self.loopvars[d].rng
            if n.get("dk") == "param" and not self.mut.get(d):
                for (fre, pn_), tm in self.ct.param_ranges.items():
                    if pn_ == n["n"] and re.search(fre, self.fn.qn):
                        return Rng(0, self.norm(Lin.atom(tm.format(o=self.this_key))))
            if n.get("dk") == "local":
                v = self.locals.get(d)
                if d in self.cursor:
                    return Top("cursor", "cursor variable %s" % n["n"])
                if v is not None and self.is_single(d) and v.get("init") is not None:
                    r = self.rng(v["init"], depth + 1)
                    if isinstance(r, Top) and r.cls == "data":
                        s0 = self.size(n)
                        if s0 is not None:
                            return Rng(0, s0 + 1, s0)
                    return r
                if self.mut.get(d):
                    r1 = self._resolve_local(n)
                    if r1 is not n:
                        return self.rng(r1, depth + 1)
                    return Top("data", "counter %s" % n["n"])
            s = self.size(n)
            if s is not None:
                return Rng(0, s + 1, s)
            return Top("data", "variable %s" % n.get("n"))
        if k == "Member" and self.okey(n) in self.mutable_fields:
            return Top("data", "counter field %s" % n.get("n"))
        d = _is_deref(n)
        if d is not None:
            if d.get("k") == "Ref" and d.get("d") in self.itervars:
                lp = self.itervars[d["d"]]
                return lp.elem
            if d.get("k") == "Ref" and d.get("d") in self.cursor:
                return Top("cursor", "deref of cursor")
            return Top("unknown", "dereference of %s" % render(d))
        if k == "Bin" and n.get("op") in ("+", "-"):
            l, r = strip(n["lhs"]), strip(n["rhs"])
            cl = self.size(l)
            cr = self.size(r)
            if cr is not None and cr.is_const():
                a = self.rng(l, depth + 1)
                if isinstance(a, Top):
                    return a
                return a.shift(cr.c if n["op"] == "+" else -cr.c)
            if cl is not None and cl.is_const() and n["op"] == "+":
                a = self.rng(r, depth + 1)
                if isinstance(a, Top):
                    return a
                return a.shift(cl.c)
            s = self.size(n)
            if s is not None:
                return Rng(0, s + 1, s)
            a, b = self.rng(l, depth + 1), self.rng(r, depth + 1)
            for x in (a, b):
                if isinstance(x, Top):
                    return Top(x.cls if x.cls != "unknown" else "unknown", "arithmetic on %s" % x.why)
            return Top("data", "sum of ranged values")
        sub = _subscript(n)
        if sub is not None:
            arr = self.sub_arr(n)
            if arr is None:
                return Top("data", "element of untracked array %s" % render(sub[0]))
            if arr.elem is not None:
                return arr.elem
            if arr.fresh and arr.owner in ("this", "local", "field") and getattr(arr, "offset", False):
                return Top("cursor", "offset %s[...]" % arr.key)
            return Top("data", "element of %s" % arr.key)
        if k in ("OpCall", "MCall") and self.ct.value_calls:
            for cre, spec in self.ct.value_calls.items():
                if re.search(cre, n.get("callee") or ""):
                    objn = n["a"][0] if k == "OpCall" else n.get("obj")
                    o = self.okey(objn)
                    if o is not None and spec[2] is not None:
                        return Rng(0, self.norm(Lin.atom(spec[2].format(o=o))))
        s = self.size(n)
        if s is not None:
            return Rng(0, s + 1, s)
        if k == "MCall":
            return Top("data", "call %s" % (n.get("n") or n.get("callee")))
        if k == "Cond":
            return Top("data", "conditional value")
        return Top("unknown", "expression %s" % render(n)[:60])

    def within(self, r, extent):
        """True/False/None: is range r inside [0, extent)?"""
        if isinstance(r, Top) or extent is None:
            return None
        if r.lo < 0:
            return False
        d = self.norm(extent - r.hi)
        # atoms are sizes (>= 0): extent - hi >= 0 for all values iff no negative coefficient
        return d.c >= 0 and all(v >= 0 for v in d.t.values())

    def _comparable(self, d):
        # differences over atoms are never known to be >= 0: a definite mismatch of kinds
        return True

    # ---------------------------------------------------------------------------------------------
    # loops
    # ---------------------------------------------------------------------------------------------
    def _add_terms(self, n, sign=1, depth=0):
        """additive normal form of an expression: sorted list of (sign, canonical term)"""
        n = strip(n)
        if n is None:
            return []
        if depth < 8 and n.get("k") == "Bin" and n.get("op") in ("+", "-"):
            return sorted(self._add_terms(n["lhs"], sign, depth + 1) + self._add_terms(n["rhs"], sign if n["op"] == "+" else -sign, depth + 1))
        if depth < 8 and n.get("k") == "Ref" and n.get("dk") == "local" and self.is_single(n.get("d")) and self.locals[n["d"]].get("init") is not None \
                and n.get("d") not in self.loopvars and n.get("d") not in self.itervars:
            return self._add_terms(self.locals[n["d"]]["init"], sign, depth + 1)
        return [(sign, self.canon(n))]

    def _resolve_iter_start(self, n, depth=0):
        """follow single-def iterator copies to the MCall that produced the iterator"""
        n = strip(n)
        if n is None or depth > 6:
            return None
        if n.get("k") == "MCall":
            return n
        if n.get("k") in ("Construct", "TempObj") and len(n.get("a", [])) == 1:
            return self._resolve_iter_start(n["a"][0], depth + 1)
        if n.get("k") == "Ref" and n.get("dk") == "local":
            v = self.locals.get(n["d"])
            if v is not None and v.get("init") is not None:
                return self._resolve_iter_start(v["init"], depth + 1)
        return None

    def canon(self, n, extra=None):
        """alpha-normalised rendering: loop variables by nesting depth, single-def locals inlined"""
        n = strip(n)
        if n is None:
            return ""
        k = n.get("k")
        if k == "Ref" and n.get("dk") in ("local", "param"):
            d = n["d"]
            if extra and d in extra:
                return extra[d]
            if d in self.loopvars:
                return "$%d" % self.loopvars[d].depth
            if d in self.itervars:
                return "$it%d" % self.itervars[d].depth
            if d in self.alias:
                return self.alias[d]
            v = self.locals.get(d)
            if v is not None and self.is_single(d) and v.get("init") is not None and not v.get("param"):
                return self.canon(v["init"], extra)
            if v is not None and v.get("ref") and v.get("init") is not None:
                return self.canon(v["init"], extra)
            r1 = self._resolve_local(n)
            if r1 is not n and r1 is not None:
                return self.canon(r1, extra)
            return n["n"]
        s = None
        if k in ("MCall", "Bin", "Member", "Cond"):
            try:
                s = self.size(n)
            except RecursionError:
                s = None
        if s is not None:
            return repr(s)
        dr = _is_deref(n)
        if dr is not None:
            return "*" + self.canon(dr, extra)
        sub = _subscript(n)
        if sub is not None:
            a = self.sub_arr(n)
            return "%s[%s]" % (a.key if a is not None else self.canon(sub[0], extra), self.canon(sub[1], extra))
        if k == "Bin":
            return "(%s %s %s)" % (self.canon(n["lhs"], extra), n["op"], self.canon(n["rhs"], extra))
        if k == "Assign":
            return "(%s %s %s)" % (self.canon(n["lhs"], extra), n["op"], self.canon(n["rhs"], extra))
        if k == "Un":
            if n["op"] == "&":
                return "&" + self.canon(n["e"], extra)
            if n["op"] == "!":
                return "!" + self.canon(n["e"], extra)
            return "%s%s" % (n["op"], self.canon(n["e"], extra))
        if k == "MCall":
            o = self.okey(n.get("obj")) if n.get("obj") is not None else self.this_key
            if o is None:
                o = self.canon(n.get("obj"), extra)
            return "%s.%s(%s)" % (o, n.get("n"), ",".join(self.canon(a, extra) for a in n.get("a", [])))
        if k in ("Call", "OpCall", "Construct", "TempObj"):
            nm = n.get("op") or strip_targs(n.get("callee") or "")
            return "%s(%s)" % (nm, ",".join(self.canon(a, extra) for a in n.get("a", [])))
        if k == "Member":
            return self.okey(n) or render(n)
        if k in ("Int", "Bool", "Null", "Char", "Float", "Str"):
            return render(n)
        if k == "Cond":
            return "(%s?%s:%s)" % (self.canon(n["c"], extra), self.canon(n["then"], extra), self.canon(n["else"], extra))
        return render(n)

    def norm_for(self, f, prev_decls):
        """normalise a For statement -> Loop or None (unknown)"""
        depth = sum(1 for fr in self.frames if fr.kind == "loop")
        init, c, inc = f.get("init"), strip(f.get("c")), f.get("inc")
        incs = _comma_list(inc)
        # the loop variable: the one compared in the condition
        if c is None:
            return None
        cmp_op = None
        lhs = rhs = None
        pd = self._postdec_loop(f, depth, init, incs, c)
        if pd is not None:
            return pd
        if c.get("k") == "Bin" and c.get("op") in ("<", "<=", "!=", ">", ">="):
            cmp_op, lhs, rhs = c["op"], strip(c["lhs"]), strip(c["rhs"])
        elif c.get("k") == "OpCall" and c.get("op") in ("!=", "<") and len(c.get("a", [])) == 2:
            cmp_op, lhs, rhs = c["op"], strip(c["a"][0]), strip(c["a"][1])
        elif c.get("k") == "Bin" and c.get("op") == "&&":
            # conjunction: first conjunct bounds the variable, the rest is a data guard
            l = strip(c["lhs"])
            if l.get("k") == "Bin" and l.get("op") in ("<", ">"):
                cmp_op, lhs, rhs = l["op"], strip(l["lhs"]), strip(l["rhs"])
                lp = self._norm_counted(f, depth, init, incs, cmp_op, lhs, rhs, prev_decls)
                if lp is not None:
                    lp.extra_guard = c["rhs"]
                return lp
            return None
        else:
            return None
        # iterator loop?
        var = None
        if lhs.get("k") == "Ref" and lhs.get("dk") == "local":
            var = lhs
        elif lhs.get("k") == "Bin" and lhs.get("op") == "+" and strip(lhs["lhs"]).get("k") == "Ref":
            var = strip(lhs["lhs"])
        if var is None:
            return None
        vdecl = self.locals.get(var["d"])
        ty = self.fn.type(vdecl.get("t")) if vdecl is not None else ""
        start_call = None
        if cmp_op == "!=" and vdecl is not None:
            sc = self._resolve_iter_start(vdecl.get("init"))
            if sc is not None and sc.get("k") == "MCall":
                start_call = sc
        if start_call is not None and start_call.get("n") in ("begin", "cbegin") and not start_call.get("a"):
            end_call = self._resolve_iter_start(rhs)
            o1 = self.okey(start_call.get("obj")) or ("<%s>" % self.canon(start_call.get("obj")))
            o2 = (self.okey(end_call.get("obj")) or ("<%s>" % self.canon(end_call.get("obj")))) if end_call is not None else None
            if end_call is not None and end_call.get("n") in ("end", "cend") and o1 == o2:
                ok_inc = any((_is_incdec(x) or (None, 0))[0] is not None and _is_incdec(x)[0].get("d") == var["d"] for x in incs)
                if ok_inc:
                    lp = Loop("adj", f, var=var["d"], obj=o1, obj_end=o1, node_expr=None, node_expr_end=None, depth=depth,
                              begin_call=start_call, end_call=end_call, extra_inc=[x for x in incs if not (_is_incdec(x) and _is_incdec(x)[0].get("d") == var["d"])],
                              varname=var["n"], container=True)
                    lp.elem = Top("data", "element of container %s" % o1)
                    lp.dom = None
                    lp.pair_ok = True
                    lp.canon = "each(%s)" % o1
                    return lp
        if start_call is not None and start_call.get("n") == self.ct.adj_begin:
            end_call = self._resolve_iter_start(rhs)
            if end_call is None or end_call.get("n") != self.ct.adj_end:
                return None
            o1 = self.okey(start_call.get("obj")) if start_call.get("obj") is not None else self.this_key
            o2 = self.okey(end_call.get("obj")) if end_call.get("obj") is not None else self.this_key
            n1 = start_call["a"][0] if start_call.get("a") else None
            n2 = end_call["a"][0] if end_call.get("a") else None
            ok_inc = False
            extra_inc = []
            for x in incs:
                t = _is_incdec(x)
                if t and t[0].get("k") == "Ref" and t[0].get("d") == var["d"] and t[1] == 1:
                    ok_inc = True
                else:
                    extra_inc.append(x)
            if not ok_inc or o1 is None:
                return None
            lp = Loop("adj", f, var=var["d"], obj=o1, obj_end=o2, node_expr=n1, node_expr_end=n2, depth=depth,
                      begin_call=start_call, end_call=end_call, extra_inc=extra_inc, varname=var["n"])
            lp.elem = Rng(0, self.norm(Lin.atom(self.ct.adj_img.format(o=o1))))
            lp.dom = self.norm(Lin.atom(self.ct.adj_dom.format(o=o1)))
            lp.pair_ok = (o1 == o2) and self.canon(n1) == self.canon(n2)
            lp.canon = "adj(%s,%s)" % (o1, self.canon(n1))
            return lp
        return self._norm_counted(f, depth, init, incs, cmp_op, lhs, rhs, prev_decls)

    def _postdec_loop(self, f, depth, init, incs, c):
        """the unsigned reverse idiom `for(k = N; k-- > c; )`: the body sees k = N-1, N-2, ..., c (descending) -> Loop('down') over [c, N)"""
        if c.get("k") != "Bin" or c.get("op") not in (">", "!=") or [x for x in incs if x is not None]:
            return None
        l = strip(c["lhs"])
        if not (l.get("k") == "Un" and l.get("op") == "--" and l.get("post") and strip(l["e"]).get("k") == "Ref" and strip(l["e"]).get("dk") == "local"):
            return None
        var = strip(l["e"])
        d = var["d"]
        c0 = self.size(c["rhs"])
        if c0 is None or not c0.is_const() or (c["op"] == "!=" and c0.c != 0):
            return None
        if len(self.mut.get(d, [])) != 1:
            return None
        start = None
        init_s = strip(init) if init is not None else None
        if init_s is not None and init_s.get("k") == "Decl":
            for v in init_s.get("vars", []):
                if v["d"] == d:
                    start = v.get("init")
        elif init_s is None:
            vdecl = self.locals.get(d)
            if vdecl is not None and vdecl.get("init") is not None and self.decl_depth.get(d, -1) == sum(1 for fr in self.frames if fr.kind == "loop"):
                start = vdecl["init"]
        hi_s = self.size(start) if start is not None else None
        if hi_s is None:
            return None
        lp = Loop("down", f, var=d, lo=c0.c, hi=self.norm(hi_s), depth=depth, extra_inc=[], varname=var["n"], start=self.norm(hi_s - 1), start_expr=start, postdec=True)
        lp.rng = Rng(c0.c, self.norm(hi_s))
        lp.canon = "down(%d,%r)" % (c0.c, self.norm(hi_s))
        return lp

    def _norm_counted(self, f, depth, init, incs, cmp_op, lhs, rhs, prev_decls):
        # counted loop on an integer variable
        var = None
        plus = 0
        if lhs.get("k") == "Ref" and lhs.get("dk") == "local":
            var = lhs
        elif lhs.get("k") == "Bin" and lhs.get("op") == "+" and strip(lhs["lhs"]).get("k") == "Ref":
            s = self.size(lhs["rhs"])
            if s is not None and s.is_const():
                var, plus = strip(lhs["lhs"]), s.c
        if var is None:
            return None
        d = var["d"]
        vdecl = self.locals.get(d)
        if vdecl is None:
            return None
        # start value: declared in the for-init, or assigned in the for-init
        start = None
        init_s = strip(init) if init is not None else None
        if init_s is not None and init_s.get("k") == "Decl":
            for v in init_s.get("vars", []):
                if v["d"] == d:
                    start = v.get("init")
        elif init_s is not None and init_s.get("k") == "Assign" and strip(init_s["lhs"]).get("d") == d:
            start = init_s["rhs"]
        elif init_s is None:
            # `T v(init); ...; for(; v < E; ++v)`: the declaration is the init statement when it belongs to the same iteration of the enclosing
            # loop (same loop depth) and the header increment is the only mutation of v
            if vdecl.get("init") is not None and not vdecl.get("param") and \
                    self.decl_depth.get(d, -1) == sum(1 for fr in self.frames if fr.kind == "loop"):
                start = vdecl["init"]
        if start is None:
            return None
        step = None
        extra_inc = []
        for x in incs:
            t = _is_incdec(x)
            if t and t[0].get("k") == "Ref" and t[0].get("d") == d:
                step = t[1]
            else:
                extra_inc.append(x)
        # mutations of the loop variable outside the header make it unknown
        for m in self.mut.get(d, []):
            if not any(m is x or m is strip(x) for x in incs) and not (init_s is not None and m is init_s):
                return None
        if step == 1 and cmp_op in ("<", "<=", "!="):
            hi = self.size(rhs)
            st = strip(start)
            # segment loop: for(j = P[n]; j < P[n+1]; ++j)
            s_sub, e_sub = _subscript(self._resolve_local(st)), _subscript(self._resolve_local(rhs))
            if s_sub is not None and e_sub is not None and cmp_op in ("<", "!=") and plus == 0:
                a1, a2 = self.array_of(s_sub[0]), self.array_of(e_sub[0])
                if a1 is not None and a2 is not None:
                    n1 = self.canon(s_sub[1])
                    n2 = self.canon(e_sub[1])
                    lp = Loop("seg", f, var=d, arr=a1, arr_end=a2, node_expr=s_sub[1], node_expr_end=e_sub[1], depth=depth,
                              extra_inc=extra_inc, varname=var["n"])
                    lp.pair_ok = (a1.key == a2.key) and (n2 == "(%s + 1)" % n1 or self._is_succ(s_sub[1], e_sub[1]))
                    el = a2.elem
                    if isinstance(el, Rng):
                        lp.rng = Rng(0, el.hi - 1)
                    else:
                        lp.rng = Top("data", "segment of %s without offset contract" % a2.key)
                    lp.canon = "seg(%s,%s)" % (a1.key, n1)
                    return lp
            if hi is None:
                # bound is a data-dependent scalar (counter / mutable field): a loop over [lo, <data>)
                rb = strip(rhs)
                if rb.get("k") in ("Ref", "Member") or (rb.get("k") == "Bin" and rb.get("op") in ("+", "-")):
                    lo_s = self.size(st)
                    lp = Loop("range", f, var=d, lo=(lo_s.c if lo_s is not None and lo_s.is_const() else 0), lo_lin=lo_s, hi=None, depth=depth,
                              extra_inc=extra_inc, varname=var["n"], cmp=cmp_op, plus=plus, data_bound=rhs)
                    lp.rng = Top("data", "loop bounded by the data-dependent value %s" % render(rhs))
                    lp.canon = "range(%s,<%s>)" % (repr(lo_s) if lo_s is not None else self.canon(st), self.canon(rhs))
                    return lp
                return None
            lo_s = self.size(st)
            if lo_s is None:
                r0 = self.rng(st)
                if isinstance(r0, Rng):
                    lo = r0.lo
                    lo_lin = None
                else:
                    return None
            elif lo_s.is_const():
                lo, lo_lin = lo_s.c, lo_s
            else:
                lo, lo_lin = 0, lo_s
            hi_eff = hi - plus + (1 if cmp_op == "<=" else 0)
            lp = Loop("range", f, var=d, lo=lo, lo_lin=lo_lin, hi=self.norm(hi_eff), depth=depth, extra_inc=extra_inc,
                      varname=var["n"], cmp=cmp_op, plus=plus)
            lp.rng = Rng(lo, self.norm(hi_eff))
            lp.canon = "range(%s,%r)" % (repr(lo_lin) if lo_lin is not None else lo, self.norm(hi_eff))
            return lp
        if step == -1 and cmp_op in (">", ">=", "!=") and plus == 0:
            lo_s = self.size(rhs)
            if lo_s is None or not lo_s.is_const():
                return None
            lo = lo_s.c + (1 if cmp_op in (">", "!=") else 0)
            hi_s = self.size(start)
            st = strip(start)
            if hi_s is None and st is not None and st.get("k") == "Cond":
                # start = c ? A : c0 with a constant c0 below the loop's lower bound: from c0 the body never runs, from A the
                # variable visits [lo, A]; so [lo, A+1) bounds the variable whatever the condition is (guarded start `n > 0 ? n-1 : 0`)
                a, b = self.size(st["then"]), self.size(st["else"])
                for x, y in ((a, b), (b, a)):
                    if x is not None and y is not None and y.is_const() and y.c < lo:
                        hi_s = x
                        break
            if hi_s is None:
                return None
            lp = Loop("down", f, var=d, lo=lo, hi=self.norm(hi_s + 1), depth=depth, extra_inc=extra_inc, varname=var["n"],
                      start=self.norm(hi_s), start_expr=start)
            lp.rng = Rng(lo, self.norm(hi_s + 1))
            lp.canon = "down(%d,%r)" % (lo, self.norm(hi_s + 1))
            return lp
        return None

    def _resolve_local(self, n, depth=0):
        n = strip(n)
        if n is not None and n.get("k") == "Ref" and n.get("dk") == "local" and depth < 6:
            d = n["d"]
            v = self.locals.get(d)
            if v is not None and v.get("init") is not None and self.is_single(d):
                return self._resolve_local(v["init"], depth + 1)
            # assigned exactly once, no initialiser (lower_bound = domain_ptr[i];)
            ms = self.mut.get(d, [])
            if v is not None and v.get("init") is None and len(ms) == 1 and ms[0].get("k") == "Assign" and ms[0].get("op") == "=":
                return self._resolve_local(ms[0]["rhs"], depth + 1)
        return n

    def _is_succ(self, a, b):
        sa, sb = self.size(a), self.size(b)
        if sa is not None and sb is not None:
            return self.norm(sb - sa) == Lin.const(1)
        ra, rb = self.rng(a), self.rng(b)
        b = strip(b)
        if b.get("k") == "Bin" and b.get("op") == "+":
            c = self.size(b["rhs"])
            if c is not None and c.is_const() and c.c == 1 and self.canon(b["lhs"]) == self.canon(a):
                return True
        return False

    # ---------------------------------------------------------------------------------------------
    # the walker
    # ---------------------------------------------------------------------------------------------
    def ev(self, kind, node, **kw):
        self.seq += 1
        e = Event(kind, node, self.frames, self.seq, **kw)
        self.events.append(e)
        return e

    def run(self):
        fn = self.fn
        # constructor initialisers
        for ini in fn.d.get("inits", []) or []:
            self._ctor_init(ini)
        if fn.body is not None:
            self.stmt(fn.body)
        self.returns.append((None, dict(self.fields), {k: (a.extent, a.cond) for k, a in self.arrs.items()}))
        return self

    def _ctor_init(self, ini):
        name = ini.get("n") or ini.get("field") or ini.get("member")
        init = ini.get("init")
        if name is None or init is None:
            return
        key = "%s.%s" % (self.this_key, name)
        i0 = strip(init)
        if i0 is not None and i0.get("k") in ("Construct", "TempObj") and self.ct.ctor_hook is not None:
            self.ct.ctor_hook(self, key, i0, init)
        self.ev("member-init", init, key=key, init=init, src_key=self.okey(init))
        a = self.alloc_from_ctor(key, init, "this", init)
        if a is not None:
            self.arrs[key] = a
            self.ev("alloc", init, arr=a)
            self.expr(init, skip_top=True)
            return
        i2 = strip(init)
        s = self.size(i2)
        if s is not None:
            self.fields[key] = s
            self.field_hist.setdefault(key, []).append((self.seq, s, init))
            self.ev("field", init, key=key, val=s)
        self.expr(init)

    def stmt(self, s):
        if s is None:
            return
        k = s.get("k")
        if k == "Block":
            lst = s.get("s", [])
            i = 0
            while i < len(lst):
                grp = self._enum_if_sequence(lst, i)
                if grp is not None:
                    self._switch_chain(lst[i], grp[0], None)
                    i = grp[1]
                    continue
                self.stmt(lst[i])
                i += 1
            return
        if k == "Decl":
            for v in s.get("vars", []):
                self.decl(v, s)
            return
        if k == "For":
            self.for_(s)
            return
        if k == "ForRange":
            self.forrange(s)
            return
        if k in ("While", "Do"):
            self.while_(s)
            return
        if k == "If":
            self.if_(s)
            return
        if k == "Switch":
            self.switch(s)
            return
        if k in ("Case", "Default"):
            inner = s.get("s")
            for x in (inner if isinstance(inner, list) else ([inner] if inner else [])):
                self.stmt(x)
            return
        if k == "Return":
            if s.get("e") is not None:
                self.expr(s["e"])
            self.ev("return", s)
            self.returns.append((s, dict(self.fields), {k2: (a.extent, a.cond) for k2, a in self.arrs.items()}))
            return
        if k in ("Break", "Continue"):
            self.ev(k.lower(), s)
            return
        if k == "OMP":
            self.stmt(s.get("body"))
            return
        if k == "Try":
            self.unk("try block", s)
            return
        # expression statement
        self.expr(s, stmt=True)

    def decl(self, v, s):
        init = v.get("init")
        d = v["d"]
        ty = self.fn.type(v.get("t"))
        if init is None:
            return
        i2 = strip(init)
        # std::vector local
        a = self.alloc_from_ctor(v["n"], init, "local", s)
        if a is not None and v["n"] in self.dynamic_arrays:
            a.extent = None
        if a is not None and ("vector" in ty or "Vector" in ty):
            self.arrs[v["n"]] = a
            self.ev("alloc", s, arr=a)
            self.expr(init, skip_top=True)
            return
        if i2.get("k") in ("Construct", "TempObj") and self.ct.ctor_hook is not None:
            self.ct.ctor_hook(self, v["n"], i2, s)
        # object constructed with sizes: Graph g(num_nodes_domain, num_nodes_image, num_indices_image)
        if i2.get("k") in ("Construct", "TempObj"):
            for cre, pmap in self.ct.ctor_sizes.items():
                if re.search(cre, i2.get("callee") or "") and set(pmap).issubset(set(i2.get("pn", []))):
                    okey = v["n"]
                    for pname, tm in pmap.items():
                        arg = i2["a"][i2["pn"].index(pname)]
                        sz = self.size(arg)
                        if sz is not None:
                            self.unify(Lin.atom(tm.format(o=okey)), sz, "construction %s(%s)" % (okey, render(arg)))
                    self.constructed.add(okey)
                    self.ev("construct", s, obj=okey, callee=i2.get("callee"))
        if i2.get("k") == "New" and i2.get("size") is not None:
            a = Arr(v["n"], extent=self.size(i2["size"]), fresh=True, node=s, owner="local", zero=False)
            a.extent_expr = i2["size"]
            self.arrs[v["n"]] = a
            self.ev("alloc", s, arr=a)
            self.expr(i2["size"])
            return
        # pointer / reference alias of an array
        if ty.endswith("*") or ty.endswith("* const") or v.get("ref") or ty.endswith("&"):
            arr = self.array_of(i2)
            if arr is not None and not (_subscript(i2) is not None):
                self.alias[d] = arr.key
                self.expr(init)
                return
        # cursor: pointer into an array (&A[e]) or reference to an element of a cursor array
        tgt = i2
        if tgt.get("k") == "Un" and tgt.get("op") == "&":
            sub = _subscript(tgt["e"])
            if sub is not None:
                arr = self.sub_arr(tgt["e"])
                if arr is not None:
                    self.cursor[d] = {"arr": arr.key, "kind": "ptr", "start": sub[1], "node": s, "var": v["n"], "frames": list(self.frames)}
                    self.ev("cursor-init", s, var=d, arr=arr, start=sub[1], start_rng=self.rng(sub[1]), form="ptr", start_canon=self.canon(sub[1]))
                    self.expr(sub[1])
                    return
        sub = _subscript(i2)
        if sub is not None and v.get("ref"):
            arr = self.sub_arr(i2)
            if arr is not None and getattr(arr, "cursor_of", None):
                self.cursor[d] = {"arr": arr.cursor_of, "kind": "ref", "via": arr.key, "sel": sub[1], "node": s, "var": v["n"], "frames": list(self.frames)}
                self.ev("cursor-sel", s, var=d, arr=arr, sel=sub[1], sel_rng=self.rng(sub[1]), sel_canon=self.canon(sub[1]))
                self.subscript_event(i2, "read")
                self.expr(sub[1])
                return
        # integer cursor: k = P[i] that is later advanced
        if sub is not None and self.mut.get(d):
            arr = self.sub_arr(i2)
            if arr is not None and getattr(arr, "offset", False) and arr.fresh:
                self.cursor[d] = {"arr": None, "kind": "idx", "start": i2, "offarr": arr.key, "startidx": sub[1], "node": s, "var": v["n"], "frames": list(self.frames)}
                self.ev("cursor-init", s, var=d, arr=None, offarr=arr, start=sub[1], start_rng=self.rng(sub[1]), form="idx",
                        start_canon="%s[%s]" % (arr.key, self.canon(sub[1])))
                self.subscript_event(i2, "read")
                self.expr(sub[1])
                return
        self.expr(init)

    def _data_loop(self, f):
        """loop over an integer variable with +-1 step whose bounds are data dependent"""
        depth = sum(1 for fr in self.frames if fr.kind == "loop")
        incs = _comma_list(f.get("inc"))
        c = strip(f.get("c"))
        if c is None:
            return None
        cands = []
        for x in incs:
            t = _is_incdec(x)
            if t and t[0].get("k") == "Ref" and t[0].get("dk") == "local":
                cands.append((t[0], t[1], x))
        ctext_vars = {x.get("d") for x in walk(c) if x.get("k") == "Ref"}
        for var, step, node in cands:
            if var["d"] in ctext_vars and self._is_integral(self.locals.get(var["d"], {})):
                lp = Loop("range", f, var=var["d"], lo=0, lo_lin=None, hi=None, depth=depth, varname=var["n"], cmp=None, plus=0,
                          extra_inc=[x for x in incs if x is not node], data_bound=c, step=step)
                lp.rng = Top("data", "loop with data-dependent bounds (%s)" % render(c)[:50])
                lp.canon = "data(%s)" % self.canon(c)
                return lp
        return None

    def for_(self, f):
        lp = self.norm_for(f, None)
        if lp is None:
            lp = self._data_loop(f)
            if lp is not None:
                init0 = f.get("init")
                if init0 is not None:
                    i0 = strip(init0)
                    if i0.get("k") == "Decl":
                        for v in i0.get("vars", []):
                            if v.get("init") is not None:
                                self.expr(v["init"])
                    else:
                        self.expr(i0)
                self.expr(f.get("c"))
                self.frames.append(Frame("loop", lp.canon, f, loop=lp))
                self.loopvars[lp.var] = lp
                for x in lp.extra_inc:
                    self.expr(x, stmt=True, in_header=True)
                self.stmt(f.get("body"))
                self.frames.pop()
                self.loopvars.pop(lp.var, None)
                self.ev("loop-end", f, loop=lp)
                return
        init = f.get("init")
        if lp is None and f.get("c") is not None and not f.get("from_while"):
            # for(init; c; inc) body  ==  init; while(c) { body; inc; }   (no `continue` in the body): read it as the while loop it is
            body = f.get("body")

            def has_continue(n):
                if n is None:
                    return False
                if n.get("k") == "Continue":
                    return True
                if n.get("k") in ("For", "While", "Do", "ForRange", "Lambda"):
                    return False
                return any(has_continue(c) for c in children(n))
            if not has_continue(body):
                if init is not None:
                    self.stmt(init) if strip(init).get("k") == "Decl" else self.expr(init, stmt=True)
                stmts = list(body.get("s", [])) if body is not None and body.get("k") == "Block" else ([body] if body is not None else [])
                wnode = {"k": "While", "i": f.get("i"), "l": f.get("l"), "c": f.get("c"),
                         "body": {"k": "Block", "i": (body or {}).get("i"), "l": f.get("l"), "s": stmts + _comma_list(f.get("inc"))}, "from_for": f}
                self.while_(wnode)
                return
        if lp is None:
            self.unk("loop header not recognised: for(%s; %s; %s)" % (render(init), render(f.get("c")), render(f.get("inc"))), f)
            # still walk the body so that events exist, with the variable unknown
            if init is not None:
                self.stmt(init) if strip(init).get("k") == "Decl" else self.expr(init)
            self.frames.append(Frame("loop", "unknown", f, loop=None))
            self.stmt(f.get("body"))
            self.frames.pop()
            return
        # header expressions are evaluated (subscripts in bounds are events)
        if lp.kind == "adj" and getattr(lp, "container", False):
            self.ev("eachloop", f, loop=lp)
        elif lp.kind == "adj":
            done = {id(e.node) for e in self.events if e.kind == "adjcall"}
            if id(lp.begin_call) not in done:
                self.ev("adjcall", lp.begin_call, obj=lp.obj, node_expr=lp.node_expr, rng=self.rng(lp.node_expr), dom=lp.dom, loop=lp,
                        node_canon=self.canon(lp.node_expr))
                self.expr(lp.node_expr)
            if id(lp.end_call) not in done:
                self.ev("adjcall", lp.end_call, obj=lp.obj_end, node_expr=lp.node_expr_end, rng=self.rng(lp.node_expr_end),
                        dom=self.norm(Lin.atom(self.ct.adj_dom.format(o=lp.obj_end))), loop=lp, node_canon=self.canon(lp.node_expr_end))
                self.expr(lp.node_expr_end)
            self.ev("adjloop", f, loop=lp, ok=lp.pair_ok)
        elif lp.kind == "seg":
            self.subscript_event_parts(lp.arr, lp.node_expr, "read", f)
            self.subscript_event_parts(lp.arr_end, lp.node_expr_end, "read", f)
            self.ev("segloop", f, loop=lp, ok=lp.pair_ok)
        else:
            if init is not None:
                i2 = strip(init)
                if i2.get("k") == "Decl":
                    for v in i2.get("vars", []):
                        if v["d"] != lp.var:
                            self.decl(v, i2)
                        elif v.get("init") is not None:
                            self.expr(v["init"])
            self.expr(strip(f.get("c")).get("rhs") if strip(f.get("c")).get("k") == "Bin" else None)
            if lp.kind == "down":
                self.ev("downloop", f, loop=lp)
        fr = Frame("loop", lp.canon, f, loop=lp)
        self.frames.append(fr)
        if lp.kind == "adj":
            self.itervars[lp.var] = lp
        else:
            self.loopvars[lp.var] = lp
        for x in lp.extra_inc:
            self.expr(x, stmt=True, in_header=True)
        if getattr(lp, "extra_guard", None) is not None:
            self.expr(lp.extra_guard)
        self.stmt(f.get("body"))
        self.frames.pop()
        if lp.kind == "adj":
            self.itervars.pop(lp.var, None)
        else:
            self.loopvars.pop(lp.var, None)
        self.ev("loop-end", f, loop=lp)

    def forrange(self, f):
        rng_e = f.get("range")
        arr = self.array_of(rng_e)
        depth = sum(1 for fr in self.frames if fr.kind == "loop")
        lp = Loop("foreach", f, var=f["var"]["d"], arr=arr, depth=depth, extra_inc=[], varname=f["var"].get("n"))
        lp.canon = "foreach(%s)" % (arr.key if arr is not None else self.canon(rng_e))
        lp.rng = arr.elem if (arr is not None and arr.elem is not None) else Top("data", "element of %s" % render(rng_e))
        self.frames.append(Frame("loop", lp.canon, f, loop=lp))
        self.loopvars[lp.var] = lp
        self.ev("foreach", f, loop=lp, arr=arr)
        self.stmt(f.get("body"))
        self.loopvars.pop(lp.var, None)
        self.frames.pop()
        self.ev("loop-end", f, loop=lp)

    def _guard_of(self, c):
        """(decl id, Rng) for a condition `v < e` on a local variable"""
        c = strip(c)
        if c is not None and c.get("k") == "Bin" and c.get("op") == "<":
            l = strip(c["lhs"])
            if l.get("k") == "Ref" and l.get("dk") in ("local", "param"):
                r = self.rng(c["rhs"])
                if isinstance(r, Rng):
                    return l["d"], Rng(0, r.hi - 1)
        return None

    def _counted_while(self, w):
        """while(v < E) { ...; ++v; } with v a local initialised before the loop and advanced only by the last statement of the body:
        the same iteration space as for(v = init; v < E; ++v)"""
        c = strip(w.get("c"))
        body = w.get("body")
        if c is None or c.get("k") != "Bin" or c.get("op") not in ("<", "<=", "!=") or body is None or body.get("k") != "Block" or not body.get("s"):
            return None
        l = strip(c["lhs"])
        plus = 0
        if l.get("k") == "Bin" and l.get("op") == "+" and strip(l["lhs"]).get("k") == "Ref":
            sz = self.size(l["rhs"])
            if sz is None or not sz.is_const():
                return None
            l, plus = strip(l["lhs"]), sz.c
        if l.get("k") != "Ref" or l.get("dk") != "local":
            return None
        d = l["d"]
        last = strip(body["s"][-1])
        t = _is_incdec(last)
        if not t or t[0].get("k") != "Ref" or t[0].get("d") != d or t[1] != 1:
            return None
        if len(self.mut.get(d, [])) != 1:
            return None
        for x in walk(body):
            if x.get("k") == "Continue":
                return None
        v = self.locals.get(d)
        if v is None or v.get("init") is None or self.decl_depth.get(d, -1) != sum(1 for fr in self.frames if fr.kind == "loop"):
            return None
        hi = self.size(c["rhs"])
        lo_s = self.size(v["init"])
        if hi is None or lo_s is None or not lo_s.is_const():
            return None
        depth = sum(1 for fr in self.frames if fr.kind == "loop")
        hi_eff = hi - plus + (1 if c["op"] == "<=" else 0)
        lp = Loop("range", w, var=d, lo=lo_s.c, lo_lin=lo_s, hi=self.norm(hi_eff), depth=depth, extra_inc=[], varname=l["n"], cmp=c["op"], plus=plus, tail=last)
        lp.rng = Rng(lo_s.c, self.norm(hi_eff))
        lp.canon = "range(%r,%r)" % (lo_s, self.norm(hi_eff))
        return lp

    def _while_as_for(self, w):
        """`while(c) { body; ++a; ++b; }` without `continue` is `for(; c; ++a, ++b) { body }`: returned as a synthetic For node when the for-loop
        normaliser recognises that header as an iterator / segment / counted loop with static bounds (otherwise None: generic while)"""
        if w.get("k") != "While" or w.get("from_for") is not None:
            return None
        body = w.get("body")
        if body is None or body.get("k") != "Block" or not body.get("s"):
            return None
        stmts = list(body["s"])
        incs = []
        while stmts:
            t = _is_incdec(stmts[-1])
            if t is None or t[0].get("k") != "Ref" or t[0].get("dk") != "local":
                break
            incs.insert(0, stmts.pop())
        if not incs:
            return None

        def has_continue(n):
            if n.get("k") == "Continue":
                return True
            if n.get("k") in ("For", "While", "Do", "ForRange", "Lambda"):
                return False
            return any(has_continue(c) for c in children(n))
        if any(has_continue(x) for x in stmts):
            return None
        inc = incs[0]
        for x in incs[1:]:
            inc = {"k": "Bin", "op": ",", "lhs": inc, "rhs": x, "l": x.get("l")}
        f = {"k": "For", "i": w.get("i"), "l": w.get("l"), "init": None, "c": w.get("c"), "inc": inc,
             "body": {"k": "Block", "i": body.get("i"), "l": body.get("l"), "s": stmts}, "from_while": w}
        try:
            lp = self.norm_for(f, None)
        except Exception:
            return None
        if lp is None:
            return None
        if lp.kind in ("adj", "seg") or (lp.kind in ("range", "down") and getattr(lp, "hi", None) is not None):
            return f
        return None

    def while_(self, w):
        lp0 = self._counted_while(w)
        if lp0 is not None:
            self.expr(strip(w.get("c")).get("rhs"))
            self.frames.append(Frame("loop", lp0.canon, w, loop=lp0))
            self.loopvars[lp0.var] = lp0
            for x in w["body"]["s"][:-1]:
                self.stmt(x)
            self.frames.pop()
            self.loopvars.pop(lp0.var, None)
            self.ev("loop-end", w, loop=lp0)
            return
        f0 = self._while_as_for(w)
        if f0 is not None:
            self.for_(f0)
            return
        c = w.get("c")
        depth = sum(1 for fr in self.frames if fr.kind == "loop")
        g = self._guard_of(c)
        lp = Loop("while", w, var=g[0] if g else None, depth=depth, extra_inc=[])
        lp.canon = "while(%s)" % self.canon(c)
        self.expr(c)
        self.frames.append(Frame("loop", lp.canon, w, loop=lp))
        old = None
        if g:
            old = self.guards.get(g[0])
            self.guards[g[0]] = g[1]
        self.ev("while", w, loop=lp, guard=g)
        self.stmt(w.get("body"))
        if g:
            if old is None:
                self.guards.pop(g[0], None)
            else:
                self.guards[g[0]] = old
        self.frames.pop()
        self.ev("loop-end", w, loop=lp)

    # ---- if-chains over one enumeration variable are the decision table a switch is ----------------------
    def _enum_labels(self, c):
        """(variable key, [labels]) for `x == E`, `E == x`, `x == E1 || x == E2` with x a parameter / local / member and E enumerators"""
        c = strip(c)
        if c is None:
            return None
        if c.get("k") == "Bin" and c.get("op") == "||":
            a, b = self._enum_labels(c["lhs"]), self._enum_labels(c["rhs"])
            if a is None or b is None or a[0] != b[0]:
                return None
            return a[0], a[1] + b[1]
        if c.get("k") == "Bin" and c.get("op") == "==":
            l, r = strip(c["lhs"]), strip(c["rhs"])
            for x, e in ((l, r), (r, l)):
                if e.get("k") == "Ref" and e.get("dk") == "enum" and x.get("k") in ("Ref", "Member") and x.get("dk") != "enum":
                    key = ("d", x.get("d")) if x.get("k") == "Ref" else ("m", self.okey(x))
                    return key, [self.canon(e)]
        return None

    @staticmethod
    def _single(stmt):
        """the statement inside `{ stmt }`"""
        while stmt is not None and stmt.get("k") == "Block" and len(stmt.get("s", [])) == 1:
            stmt = stmt["s"][0]
        return stmt

    def _enum_chain(self, s):
        """[(labels, then statement, if node)], final else statement for `if(x==A) .. else if(x==B) .. else ..` with at least two arms"""
        arms = []
        node = s
        var = None
        final = None
        while node is not None and node.get("k") == "If" and not node.get("constexpr"):
            el = self._enum_labels(node.get("c"))
            if el is None or (var is not None and el[0] != var):
                break
            var = el[0]
            arms.append((el[1], node.get("then"), node))
            nxt = self._single(node.get("else"))
            if nxt is not None and nxt.get("k") == "If" and self._enum_labels(nxt.get("c")) is not None and self._enum_labels(nxt.get("c"))[0] == var:
                node = nxt
                continue
            final = node.get("else")
            node = None
        if len(arms) < 2:
            return None
        return arms, final

    @staticmethod
    def _leaves_fn(stmt):
        if stmt is None:
            return False
        k = stmt.get("k")
        if k in ("Return", "Throw"):
            return True
        if k in ("Call", "MCall") and stmt.get("noreturn"):
            return True
        if k == "Block":
            return any(FnKinds._leaves_fn(x) for x in stmt.get("s", []))
        if k == "If":
            return stmt.get("else") is not None and FnKinds._leaves_fn(stmt.get("then")) and FnKinds._leaves_fn(stmt.get("else"))
        return False

    def _enum_if_sequence(self, lst, i):
        """consecutive `if(x == A) { ...; return; }  if(x == B) { ... }` statements of a block (every arm but the last leaves the function):
        the same decision table.  -> ([(labels, then, node)], index behind the sequence) or None"""
        arms = []
        var = None
        j = i
        while j < len(lst):
            n = lst[j]
            if n.get("k") != "If" or n.get("else") is not None or n.get("constexpr"):
                break
            el = self._enum_labels(n.get("c"))
            if el is None or (var is not None and el[0] != var):
                break
            var = el[0]
            arms.append((el[1], n.get("then"), n))
            j += 1
            if not self._leaves_fn(n.get("then")):
                break
        if len(arms) < 2:
            return None
        return arms, j

    def _switch_chain(self, s, arms, final):
        for labels, then, node in arms:
            self.expr(node.get("c"))
        self.ev("switch", s, cond=strip(arms[0][2].get("c")), chain=True)
        self.cond_depth += 1
        for labels, then, node in arms:
            fr = Frame("case", "|".join(labels), node)
            fr.labels = labels
            self.frames.append(fr)
            self.ev("case", node, labels=labels)
            self.stmt(then)
            self.frames.pop()
        if final is not None:
            fr = Frame("case", "default", final)
            fr.labels = ["default"]
            self.frames.append(fr)
            self.ev("case", final, labels=["default"])
            self.stmt(final)
            self.frames.pop()
        self.cond_depth -= 1
        for k, a in self.arrs.items():
            if getattr(a, "alloc_cond_depth", 0) > self.cond_depth:
                a.cond = True

    def if_(self, s):
        ch = self._enum_chain(s)
        if ch is not None:
            self._switch_chain(s, ch[0], ch[1])
            return
        c = s.get("c")
        self.expr(c)
        cc = self.canon(c)
        self.ev("if", s, cond=c, canon=cc)
        snapshot_arrs = set(self.arrs.keys())
        ext_before = {k: a.extent for k, a in self.arrs.items()}
        self.frames.append(Frame("if", cc, s, branch="then"))
        self.cond_depth += 1
        g = self._guard_of(c)
        old = None
        if g:
            old = self.guards.get(g[0])
            self.guards[g[0]] = g[1]
        self.stmt(s.get("then"))
        if g:
            if old is None:
                self.guards.pop(g[0], None)
            else:
                self.guards[g[0]] = old
        self.frames.pop()
        if s.get("else") is not None:
            self.frames.append(Frame("if", cc, s, branch="else"))
            self.stmt(s.get("else"))
            self.frames.pop()
        self.cond_depth -= 1
        # arrays (re)allocated under the condition have no definite extent afterwards
        for k, a in self.arrs.items():
            if getattr(a, "alloc_cond_depth", 0) > self.cond_depth:
                a.cond = True

    def switch(self, s):
        self.expr(s.get("c"))
        body = s.get("body")
        stmts = body.get("s", []) if body is not None and body.get("k") == "Block" else ([body] if body else [])
        # group statements by their case labels
        cur_labels = []
        self.ev("switch", s, cond=s.get("c"))
        self.cond_depth += 1

        def run_case(c):
            labels = []
            node = c
            # nested labels: case A: case B: stmt
            while node is not None and node.get("k") in ("Case", "Default"):
                labels.append(self.canon(node.get("v")) if node.get("k") == "Case" else "default")
                inner = node.get("s")
                if isinstance(inner, list):
                    inner = inner[0] if len(inner) == 1 else ({"k": "Block", "s": inner} if inner else None)
                node = inner
            return labels, ([node] if node is not None else [])
        i = 0
        pending = None
        for x in stmts:
            if x.get("k") in ("Case", "Default"):
                labels, inner = run_case(x)
                pending = Frame("case", "|".join(labels), x)
                pending.labels = labels
                self.frames.append(pending)
                self.ev("case", x, labels=labels)
                for y in inner:
                    self.stmt(y)
                self.frames.pop()
            else:
                # statements following a label at switch-body level belong to the last arm
                if pending is not None:
                    self.frames.append(pending)
                    self.stmt(x)
                    self.frames.pop()
                else:
                    self.stmt(x)
        self.cond_depth -= 1
        for k, a in self.arrs.items():
            if getattr(a, "alloc_cond_depth", 0) > self.cond_depth:
                a.cond = True

    # ---------------------------------------------------------------------------------------------
    def subscript_event_parts(self, arr, idx, mode, node, val=None, op=None):
        r = self.rng(idx)
        ok = None
        if arr is not None and arr.extent is not None and not arr.cond:
            ok = self.within(r, arr.extent)
        return self.ev("sub", node, arr=arr, idx=idx, rng=r, mode=mode, ok=ok, val=val, op=op,
                       idx_canon=self.canon(idx), val_canon=(self.canon(_assigned_value(val)) if val is not None else None),
                       val_terms=(self._add_terms(_assigned_value(val)) if val is not None and mode == "write" else None),
                       val_rng=(self.rng(val) if val is not None and mode == "write" else None),
                       extent=(self.norm(arr.extent) if arr is not None and arr.extent is not None else None))

    def subscript_event(self, n, mode, val=None, op=None, addr=False):
        sub = _subscript(n)
        arr = self.sub_arr(n)
        if arr is None:
            # subscript on something that is not a tracked array: e.g. vector of sets, TargetSet
            e = self.ev("sub-untracked", n, base=sub[0], idx=sub[1], rng=self.rng(sub[1]), mode=mode, val=val, base_key=self.okey(sub[0]),
                        idx_canon=self.canon(sub[1]), val_canon=(self.canon(_assigned_value(val)) if val is not None else None),
                        base_decl=(strip(sub[0]).get("d") if strip(sub[0]).get("k") == "Ref" else None))
            self.expr(sub[0])
            self.expr(sub[1])
            return e
        e = self.subscript_event_parts(arr, sub[1], mode, n, val=val, op=op)
        e.addr = addr
        self.expr(sub[1])
        return e

    def lvalue_write(self, lhs, node, val=None, op="="):
        """record a write through lvalue expression lhs"""
        l = strip(lhs)
        if _subscript(l) is not None:
            v2 = strip(val) if val is not None else None
            if v2 is not None and v2.get("k") == "Un" and v2.get("op") == "&" and _subscript(v2["e"]) is not None:
                tsub = _subscript(v2["e"])
                tarr = self.array_of(tsub[0])
                carr = self.array_of(_subscript(l)[0])
                if tarr is not None and carr is not None:
                    carr.cursor_of = tarr.key
                    self.ev("cursor-array-init", node, arr=carr, target=tarr, sel=_subscript(l)[1], sel_rng=self.rng(_subscript(l)[1]),
                            start=tsub[1], start_rng=self.rng(tsub[1]), sel_canon=self.canon(_subscript(l)[1]), start_canon=self.canon(tsub[1]))
            elif v2 is not None and op == "=" and _subscript(v2) is not None and v2.get("k") != "Cast":
                # array of integer write positions taken from a CSR offset array under construction: C[sel] = P[start]  (the index form of the cursor array)
                parr = self.sub_arr(v2)
                carr = self.array_of(_subscript(l)[0])
                if parr is not None and carr is not None and parr is not carr and getattr(parr, "offset", False) and parr.fresh and carr.fresh and carr.owner == "local" \
                        and not getattr(carr, "offset", False):
                    carr.cursor_of = "@positions"
                    carr.cursor_positions_from = parr.key
                    self.ev("cursor-array-init", node, arr=carr, target=None, sel=_subscript(l)[1], sel_rng=self.rng(_subscript(l)[1]),
                            start=v2, start_rng=self.rng(v2), sel_canon=self.canon(_subscript(l)[1]), start_canon=self.canon(v2), form="idx")
            return self.subscript_event(l, "write", val=val, op=op)
        d = _is_deref(l)
        if d is not None and d.get("k") == "Ref" and d.get("d") in self.cursor:
            cu = self.cursor[d["d"]]
            return self.ev("cursor-write", node, var=d["d"], cursor=cu, val=val, val_rng=self.rng(val) if val is not None else None, op=op,
                           val_canon=self.canon(val) if val is not None else None)
        if l.get("k") == "Ref" and l.get("dk") in ("local", "param"):
            dd = l["d"]
            if dd in self.cursor and op in ("++", "--", "+=", "-="):
                return self.ev("cursor-adv", node, var=dd, cursor=self.cursor[dd], op=op, val=val, amount=(self.size(val) if val is not None else Lin.const(1)))
            v = self.locals.get(dd)
            if v is not None and v.get("ref") and v.get("init") is not None and _subscript(v["init"]) is not None:
                # write through a reference to an array element
                return self.subscript_event(v["init"], "write", val=val, op=op)
            if dd in self.guards:
                del self.guards[dd]
            return self.ev("scalar", node, var=dd, name=l["n"], val=val, op=op, val_canon=self.canon(val) if val is not None else None)
        if l.get("k") == "Member" and self.okey(l) is None:
            return self.ev("opaque-write", node, target=l, val=val, op=op)
        if l.get("k") == "Member":
            key = self.okey(l)
            ty = self.fn.ntype(l)
            if op == "=" and val is not None:
                a = self.alloc_from_ctor(key, val, "this" if key.startswith(self.this_key + ".") else "field", node)
                if a is not None:
                    a.alloc_cond_depth = self.cond_depth
                    a.in_loop = any(fr.kind == "loop" for fr in self.frames)
                    self.arrs[key] = a
                    self.ev("alloc", node, arr=a)
                    self.expr(val, skip_top=True)
                    return None
                s = self.size(val)
                if s is not None and not any(fr.kind == "loop" for fr in self.frames) and key not in self.mutable_fields:
                    self.fields[key] = s
                    self.field_hist.setdefault(key, []).append((self.seq, s, node))
                    return self.ev("field", node, key=key, val=s, cond=self.cond_depth > 0)
                if key in self.fields:
                    del self.fields[key]
                return self.ev("field", node, key=key, val=None, val_expr=val, cond=self.cond_depth > 0)
            if key in self.fields:
                del self.fields[key]
            return self.ev("field", node, key=key, val=None, op=op, val_expr=val)
        if d is not None:
            return self.ev("deref-write", node, target=d, val=val, op=op)
        if l.get("k") in ("OpCall", "MCall"):
            # element access through a reference-returning call: index_set(i, j) = v
            self.expr(l)
            return self.ev("call-write", node, target=l, val=val, op=op, val_rng=self.rng(val) if val is not None else None,
                           target_canon=self.canon(l))
        self.unk("write through %s" % render(l)[:60], node)
        return None

    def expr(self, n, stmt=False, skip_top=False, in_header=False):
        """walk an expression, recording subscripts / calls / writes"""
        n = strip(n)
        if n is None:
            return
        k = n.get("k")
        if skip_top:
            for a in n.get("a", []):
                self.expr(a)
            return
        inc0 = _is_incdec(n)
        if inc0 is not None and k == "Assign":
            tgt = inc0[0]
            self.lvalue_write(tgt, n, val=None, op="++" if inc0[1] == 1 else "--")
            return
        if k == "Assign":
            rhs = n["rhs"]
            if n.get("op") == "=":
                self.expr(rhs)
                self.lvalue_write(n["lhs"], n, val=rhs, op="=")
            else:
                self.expr(rhs)
                self.lvalue_write(n["lhs"], n, val=rhs, op=n["op"])
                self._read_lhs(n["lhs"])
            return
        inc = _is_incdec(n)
        if inc is not None and k in ("Un", "OpCall"):
            tgt = inc[0]
            if tgt.get("k") == "Ref" and (tgt.get("d") in self.itervars):
                return
            self.lvalue_write(tgt, n, val=None, op="++" if inc[1] == 1 else "--")
            return
        if k == "OpCall" and n.get("op") == "=" and len(n.get("a", [])) == 2 and _subscript(n["a"][0]) is not None \
                and self.sub_arr(n["a"][0]) is not None:
            self.expr(n["a"][1])
            self.lvalue_write(n["a"][0], n, val=n["a"][1], op="=")
            return
        if k == "OpCall" and n.get("op") == "=" and len(n.get("a", [])) == 2:
            # class-type assignment: vector = vector(...)
            lhs, rhs = n["a"]
            l = strip(lhs)
            key = self.okey(l)
            if key is not None:
                a = self.alloc_from_ctor(key, rhs, "this" if key.startswith(self.this_key + ".") else "local", n)
                if a is not None:
                    a.alloc_cond_depth = self.cond_depth
                    a.in_loop = any(fr.kind == "loop" for fr in self.frames)
                    self.arrs[key] = a
                    self.ev("alloc", n, arr=a)
                    self.expr(rhs, skip_top=True)
                    return
            self.expr(rhs)
            self.ev("obj-assign", n, key=key, rhs=rhs)
            return
        sub = _subscript(n)
        if sub is not None:
            self.subscript_event(n, "read")
            return
        if k == "Un" and n.get("op") == "&":
            sub = _subscript(n["e"])
            if sub is not None:
                self.subscript_event(n["e"], "addr", addr=True)
                return
        if k == "MCall":
            name = n.get("n")
            if name in (self.ct.adj_begin, self.ct.adj_end) and n.get("a"):
                o = self.okey(n.get("obj")) if n.get("obj") is not None else self.this_key
                self.ev("adjcall", n, obj=o, node_expr=n["a"][0], rng=self.rng(n["a"][0]),
                        dom=self.norm(Lin.atom(self.ct.adj_dom.format(o=o))) if o else None, loop=None, node_canon=self.canon(n["a"][0]))
                self.expr(n["a"][0])
                return
            self.ev("call", n, callee=n.get("callee"), name=name, obj=self.okey(n.get("obj")) if n.get("obj") is not None else self.this_key,
                    args_canon=[self.canon(a) for a in n.get("a", [])], args_rng=[self.rng(a) for a in n.get("a", [])] if name in ("push_back", "emplace_back", "insert") else None)
            self._index_params(n)
            if n.get("obj") is not None:
                self.expr(n["obj"])
            for a in n.get("a", []):
                self.expr(a)
            return
        if k == "Call" and (n.get("callee") or "").endswith("FEAT::assertion") and n.get("a"):
            pr = self._assert_eq(n)
            cond = strip(n["a"][0])
            self.ev("assert", n, cond=cond, canon=self.canon(cond))
            g = self._guard_of(cond)
            if g:
                self.guards[g[0]] = g[1]
            if pr:
                a, b = self.size(pr[0]), self.size(pr[1])
                if a is not None and b is not None:
                    self.unify(a, b, "XASSERT(%s)" % render(cond))
            self.expr(cond)
            return
        if k in ("Call", "Construct", "TempObj", "OpCall"):
            self.ev("call", n, callee=n.get("callee"), name=(n.get("callee") or "").rsplit("::", 1)[-1], obj=None)
            self._index_params(n)
            for a in n.get("a", []):
                self.expr(a)
            return
        if k == "Lambda":
            self.unk("lambda", n)
            return
        for c in children(n):
            self.expr(c)

    def _read_lhs(self, lhs):
        pass

    def _index_params(self, call):
        callee = call.get("callee") or ""
        pn = call.get("pn", [])
        for cre, spec in self.ct.value_calls.items():
            if re.search(cre, callee) and spec[0] in pn:
                args = call.get("a", [])
                if call.get("k") == "OpCall":
                    objn, args = args[0], args[1:]
                else:
                    objn = call.get("obj")
                o = self.okey(objn)
                i = pn.index(spec[0])
                if o is not None and i < len(args):
                    ext = self.norm(Lin.atom(spec[1].format(o=o)))
                    r = self.rng(args[i])
                    self.ev("index-arg", call, callee=callee, param=spec[0], arg=args[i], rng=r, extent=ext, ok=self.within(r, ext), obj=o,
                            arg_canon=self.canon(args[i]))
        for (cre, p), tm in self.ct.index_params.items():
            if p in pn and re.search(cre, callee):
                i = pn.index(p)
                if i < len(call.get("a", [])):
                    o = self.okey(call.get("obj")) if call.get("obj") is not None else self.this_key
                    arg = call["a"][i]
                    if callable(tm):
                        ext = tm(self, o, call)
                    else:
                        an = tm.format(o=o)
                        ext = self.norm(self.fields[an]) if an in self.fields else self.norm(Lin.atom(an))
                    r = self.rng(arg)
                    self.ev("index-arg", call, callee=callee, param=p, arg=arg, rng=r, extent=ext, ok=self.within(r, ext), obj=o, arg_canon=self.canon(arg))


# -------------------------------------------------------------------------------------------------
# judgments shared by the property checks
# -------------------------------------------------------------------------------------------------

def mask_test(canon):
    """(mask array, element) for the conditions `M[x] == 0`, `0 == M[x]`, `!M[x]`, `M[x] != 1`"""
    for pat in (r"^\((\w+)\[(.*)\] == 0\)$", r"^\(0 == (\w+)\[(.*)\]\)$", r"^!(\w+)\[(.*)\]$", r"^\((\w+)\[(.*)\] != 1\)$"):
        m = re.search(pat, canon or "")
        if m:
            return m.group(1), m.group(2)
    return None


def frames_key(frames):
    out = []
    for f in frames:
        mt = mask_test(f.canon) if f.kind == "if" else None
        out.append("if:unmarked(%s[%s])/%s" % (mt[0], mt[1], f.branch) if mt else repr(f))
    return " > ".join(out)


def coverage(fk, key, base_frames=(), after_seq=0, case=None):
    """Is array `key` assigned on its whole extent (as of its last allocation) by loops / single writes at
    the nesting level `base_frames`?  -> (ok, detail).  ok None: a write form that is not understood."""
    arr = None
    alloc_seq = after_seq
    for e in fk.events:
        if e.kind == "alloc" and e.arr.key == key:
            arr, alloc_seq = e.arr, max(e.seq, after_seq)
    if arr is None:
        arr = fk.arrs.get(key)
    if arr is None or arr.extent is None:
        return None, "array %s has no known extent" % key
    ext = fk.norm(arr.extent)
    if arr.fresh and arr.zero and getattr(arr, "fill", None) is not None:
        return True, "allocated with an explicit fill value over its extent %r" % ext
    nb = len(base_frames)
    pieces = []     # (lo Lin, hi Lin, text)
    skipped = []    # writes whose form is not understood (they may or may not cover something)
    cond_writes = {}
    for e in fk.events:
        if e.kind != "sub" or e.mode != "write" or e.arr.key != key or e.seq <= alloc_seq:
            continue
        if e.op != "=" and not arr.zero:
            continue
        fr = e.frames[nb:]
        if [repr(x) for x in e.frames[:nb]] != [repr(x) for x in base_frames]:
            continue
        loops = [x for x in fr if x.kind == "loop"]
        ifs = [x for x in fr if x.kind == "if"]
        cases = [x for x in fr if x.kind == "case"]
        if case is not None and not any(case in getattr(c, "labels", []) for c in cases):
            continue
        if case is None and cases:
            continue
        r = e.rng
        if isinstance(r, Top):
            # scatter through a bijection: A[V[i]] with V a permutation array by contract
            sub = _subscript(e.idx)
            if sub is not None and len(loops) == 1:
                v = fk.array_of(sub[0])
                if v is not None and isinstance(v.elem, Rng) and v.extent is not None and fk.norm(v.elem.hi) == ext and fk.norm(v.extent) == ext:
                    lp = loops[0].loop
                    if lp is not None and lp.kind == "range" and lp.hi is not None and not ifs:
                        pieces.append((Lin.const(lp.lo), fk.norm(lp.hi), "scatter %s[%s[.]] through the index array %s (a permutation by contract)" % (key, v.key, v.key)))
                        continue
            skipped.append("%s[%s] (index %r)" % (key, render(e.idx), r))
            continue
        if ifs:
            # both branches of one if must write the same element
            ik = (id(ifs[-1].node), e.idx_canon, tuple(id(l.node) for l in loops))
            cond_writes.setdefault(ik, set()).add(ifs[-1].branch)
            if cond_writes[ik] != {"then", "else"} or len(ifs) > 1:
                continue
        if not loops:
            if r.exact is not None:
                pieces.append((fk.norm(r.exact), fk.norm(r.exact) + 1, "%s[%s]" % (key, render(e.idx))))
            continue
        if len(loops) > 1:
            skipped.append("%s[%s] in nested loops" % (key, render(e.idx)))
            continue
        lp = loops[0].loop
        if lp is None or lp.kind not in ("range", "down") or getattr(lp, "hi", None) is None:
            skipped.append("%s[%s] in loop %s" % (key, render(e.idx), loops[0].canon))
            continue
        pieces.append((Lin.const(r.lo), fk.norm(r.hi), "%s[%s] in loop %s" % (key, render(e.idx), lp.canon)))
    if arr.fresh and arr.zero and getattr(arr, "valueinit", False) and getattr(arr, "offset", False) and not getattr(arr, "in_loop", False):
        # std::vector<Index>(n) value-initialises: the first entry of a CSR offset array is the 0 it has to be
        pieces.append((Lin.const(0), Lin.const(1), "%s[0] = 0 by value-initialisation of the offset array" % key))
    early = _early_exit_before(fk, key, ext, base_frames, alloc_seq, case)
    cur = Lin.const(0)
    used = []
    for _ in range(len(pieces) + 1):
        if cur == ext:
            if early is not None:
                return early
            return True, "extent %r covered by %s" % (ext, "; ".join(used))
        nxt = [p for p in pieces if p[0] == cur or (p[0].is_const() and cur.is_const() and p[0].c <= cur.c)]
        nxt = [p for p in nxt if p[1] != cur]
        if not nxt:
            break
        best = nxt[0]
        used.append("%s = [%r,%r)" % (best[2], best[0], best[1]))
        cur = best[1]
    if cur == ext:
        if early is not None:
            return early
        return True, "extent %r covered by %s" % (ext, "; ".join(used))
    if skipped or fk.unknown:
        return None, "coverage of %s not evaluable: assignments %s are not of a modelled form" % (key, "; ".join(skipped) or "inside unmodelled constructs")
    return False, "extent is [0,%r) but the assignments only cover [0,%r)%s" % (ext, cur, (" (" + "; ".join("%s=[%r,%r)" % (p[2], p[0], p[1]) for p in pieces) + ")") if pieces else " (no covering assignment found)")


def _early_exit_before(fk, key, ext, base_frames, alloc_seq, case):
    """a `return` between the allocation of `key` and its last assignment, at the nesting level of the assignments and only under if-conditions:
    the path through it leaves the array (partly) unassigned unless the condition says the extent is 0.
    -> None (no such exit / harmless), (False, text) for a condition that admits a positive extent, (None, text) if the condition is not read"""
    nb = len(base_frames)
    writes = [e for e in fk.events if e.kind == "sub" and e.mode == "write" and e.arr is not None and e.arr.key == key and e.seq > alloc_seq
              and [repr(x) for x in e.frames[:nb]] == [repr(x) for x in base_frames]]
    if not writes:
        return None
    last = max(e.seq for e in writes)
    for r in fk.events:
        if r.kind != "return" or r.seq <= alloc_seq or r.seq >= last:
            continue
        if [repr(x) for x in r.frames[:nb]] != [repr(x) for x in base_frames]:
            continue
        extra = r.frames[nb:]
        if not extra or any(f.kind == "loop" for f in extra):
            continue
        if any(f.kind == "case" for f in extra):
            if case is None or not any(case in getattr(f, "labels", []) for f in extra if f.kind == "case"):
                continue
        ifs = [f for f in extra if f.kind == "if"]
        if not ifs:
            continue
        verdicts = [_extent_test(fk, f.node.get("c"), ext, f.branch == "then") for f in ifs]
        if any(v == "zero" for v in verdicts):
            continue          # only taken for an empty array
        line = r.node.get("l")
        pos = [v for v in verdicts if isinstance(v, tuple)]
        if pos and len(ifs) == 1:
            return False, "the function returns at line %s under `%s`, i.e. also for the extent %r = %d, before %s is assigned on [0,%r): the array stays uninitialised on that path" % (
                line, ifs[0].canon, ext, pos[0][1], key, ext)
        return None, "coverage of %s not evaluable: a return at line %s under `%s` precedes the assignments" % (key, line, " && ".join(f.canon for f in ifs))
    return None


def _extent_test(fk, cond, ext, positive):
    """'zero': the condition (taken as true if `positive`, else as false) implies extent == 0; ('pos', n): it holds for the positive extent n; None: not read"""
    c = strip(cond)
    if c is None:
        return None
    if c.get("k") == "Un" and c.get("op") == "!":
        return _extent_test(fk, c["e"], ext, not positive)
    if c.get("k") == "MCall" and c.get("n") == "empty" and not c.get("a"):
        a = fk.array_of(c.get("obj")) if c.get("obj") is not None else None
        s0 = fk.norm(a.extent) if a is not None and a.extent is not None else fk.norm(Lin.atom("size(%s)" % fk.okey(c.get("obj"))))
        if s0 == ext:
            return "zero" if positive else None
        return None
    if c.get("k") == "Bin" and c.get("op") in ("==", "!=", "<", "<=", ">", ">="):
        op = c["op"]
        a, b = fk.size(c["lhs"]), fk.size(c["rhs"])
        if a is None or b is None:
            return None
        a, b = fk.norm(a), fk.norm(b)
        if b == ext and a.is_const():
            a, b = b, a
            op = {"<": ">", "<=": ">=", ">": "<", ">=": "<=", "==": "==", "!=": "!="}[op]
        if a != ext or not b.is_const():
            return None
        if not positive:
            op = {"<": ">=", "<=": ">", ">": "<=", ">=": "<", "==": "!=", "!=": "=="}[op]
        n = b.c
        # now: ext op n holds on the returning path
        if (op == "==" and n == 0) or (op == "<" and n == 1) or (op == "<=" and n == 0):
            return "zero"
        if op == "==" and n > 0:
            return ("pos", n)
        if op == "<=" and n >= 1:
            return ("pos", n)
        if op == "<" and n >= 2:
            return ("pos", n - 1)
        if op in (">", ">=", "!="):
            return ("pos", max(n, 0) + 1)
        return None
    return None


def elsewhere(fk, keys=(), names=()):
    """Could an effect that a rule does not find in `fk.fn` be achieved by a construct the engine does not model?
    -> description of the first such construct (a member helper of the same class, a lambda, a call that receives one of the
    objects/arrays `keys` (or a pointer/reference/iterator derived from it) in a mutable position), or None."""
    cls = fk.fn.cls or ""
    known = ("FEAT::assertion", "FEAT::abortion")
    for e in fk.events:
        if e.kind != "call":
            continue
        n = e.node
        callee = n.get("callee") or ""
        if callee in known or callee.startswith("std::") and not n.get("a"):
            continue
        if n.get("k") in ("Construct", "TempObj") and len(n.get("a", [])) == 1:
            continue          # copy / move construction (return value, pass by value): does not change the source's contents
        # helper of the same class (not one of the names the rule itself interprets)
        if cls and n.get("ccls") == cls and e.name not in names and not n.get("cconst") and n.get("k") == "MCall" and e.obj == fk.this_key:
            return "member helper %s() may do it" % e.name
        pts = n.get("pt", [])
        for i, a in enumerate(n.get("a", [])):
            a2 = strip(a)
            if a2 is None:
                continue
            if a2.get("k") == "Lambda":
                return "a lambda passed to %s may do it" % (e.name or callee)
            k = None
            if a2.get("k") == "Un" and a2.get("op") == "&":
                sub = _subscript(a2["e"])
                k = (fk.sub_arr(a2["e"]).key if sub is not None and fk.sub_arr(a2["e"]) is not None else fk.okey(a2["e"]))
            elif a2.get("k") == "MCall" and a2.get("n") in ("data", "begin", "end") and a2.get("obj") is not None:
                k = fk.okey(a2.get("obj"))
            else:
                arr = fk.array_of(a2) if a2.get("k") in ("Ref", "Member") else None
                k = arr.key if arr is not None else fk.okey(a2)
            if k is None and _subscript(a2) is not None and a2.get("k") in ("Index", "OpCall", "MCall"):
                # a single element of one of the arrays handed on by (non-const) reference: std::swap(A[i], A[j]), helper(A[i])
                sa = fk.sub_arr(a2)
                ty0 = fk.fn.type(pts[i]) if i < len(pts) else ""
                if sa is not None and sa.key in keys and ty0.rstrip().endswith("&") and not ty0.startswith("const") and e.name not in names:
                    return "an element of %s is handed to %s() by reference, which is not modelled" % (sa.key, e.name or callee)
            if k is not None and k in keys:
                ty = fk.fn.type(pts[i]) if i < len(pts) else ""
                if not (ty.startswith("const") and ty.endswith("&")) and not (callee.startswith("std::") and e.name in ("size", "empty")):
                    if e.name in names:
                        continue
                    return "%s is handed to %s(), which is not modelled" % (k, e.name or callee)
    for n in fk.fn.nodes():
        if n.get("k") == "Lambda":
            return "a lambda in the function may do it"
    return None


def frames_canon(frames, upto=None):
    out = []
    for fr in frames:
        out.append(repr(fr))
    return " > ".join(out)
