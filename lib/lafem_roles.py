"""lafem_roles: small helpers shared by the LAFEM operation checks (C03, C04).

* argument normalisation: strip casts / copy-constructions, resolve never-reassigned locals through their
  initialiser (so that hoisting `this->rows()` into a `const Index n` is invisible to the rules);
* accessor classification of a call-site argument: (object, accessor name, perspective);
* translation of kernel expressions to sympy over symbols for array cells / scalars (engine E5);
* recognition of canonical counting loops.
"""
import re

import sympy

from featlib import walk, render, is_call


class Unknown(Exception):
    """construct outside the modelled fragment -> the caller reports analysis-incomplete"""
    pass


def strip_targs(s):
    out = []
    depth = 0
    for ch in s or "":
        if ch == "<":
            depth += 1
        elif ch == ">":
            depth -= 1
        elif depth == 0:
            out.append(ch)
    return "".join(out)


def defile(fn):
    """file that holds the body (out-of-line member templates are located at their declaration)"""
    return fn.d.get("bfile") or fn.file


def strip(n):
    """drop explicit casts and copy/conversion constructions of a single value"""
    while n is not None:
        k = n.get("k")
        if k == "Cast" and n.get("e") is not None:
            n = n["e"]
            continue
        if k in ("Construct", "TempObj") and len(n.get("a", [])) == 1 and n["a"][0].get("k") in ("Ref", "Member", "Index", "Cast"):
            a = n["a"][0]
            # copy construction of an lvalue of the same class
            n = a
            continue
        return n
    return n


class Locals:
    """initialisers of locals that are never written after their declaration"""

    def __init__(self, fn):
        self.fn = fn
        self.var = {}
        written = set()
        for n in fn.nodes():
            k = n.get("k")
            if k == "Var":
                self.var[n["d"]] = n
            elif k == "Assign":
                t = strip(n["lhs"])
                if t.get("k") == "Ref":
                    written.add(t.get("d"))
            elif k == "Un" and n.get("op") in ("++", "--"):
                t = strip(n["e"])
                if t.get("k") == "Ref":
                    written.add(t.get("d"))
            elif k == "Un" and n.get("op") == "&":
                t = strip(n["e"])
                if t.get("k") == "Ref":
                    written.add(t.get("d"))
        self.written = written

    def resolve(self, n, depth=0):
        """strip wrappers and replace a single-assignment local by its initialiser"""
        n = strip(n)
        while n is not None and n.get("k") == "Ref" and n.get("dk") == "local" and depth < 8:
            v = self.var.get(n.get("d"))
            if v is None or n.get("d") in self.written or v.get("init") is None:
                return n
            n = strip(v["init"])
            depth += 1
        return n


def perspective(call):
    m = re.search(r"<FEAT::LAFEM::Perspective::(\w+)>$", call.get("cfull", "") or "")
    return m.group(1) if m else None


def objkey(n):
    """identity of the object an accessor is called on"""
    n = strip(n) if n is not None else None
    if n is None or n.get("k") == "This":
        return "this"
    if n.get("k") == "Un" and n.get("op") == "*":
        return objkey(n.get("e"))
    if n.get("k") == "Ref":
        return n["n"]
    return render(n)


def accessor(loc, n):
    """-> dict(obj, name, persp, node) if n is `obj.name<persp>()` (member call without arguments), else None"""
    n = loc.resolve(n)
    if n is not None and n.get("k") == "MCall" and not n.get("a"):
        o = n.get("obj")
        if o is not None and strip(o).get("k") == "Ref" and strip(o).get("dk") == "local":
            o = loc.resolve(o)          # `const DenseVector& xx = x;  xx.elements()`
        return {"obj": objkey(o), "name": n.get("n"), "persp": perspective(n), "node": n, "cls": n.get("ccls", "")}
    return None


def const_value(loc, n):
    """numeric literal (possibly wrapped in DT_(..)) -> sympy number, else None"""
    n = loc.resolve(n)
    if n is None:
        return None
    if n.get("k") == "Int":
        return sympy.Integer(int(n["v"]))
    if n.get("k") == "Float":
        return sympy.Rational(n.get("text") or n["v"]) if re.match(r"^[0-9.]+$", str(n.get("text") or n["v"])) else None
    if n.get("k") == "Ref" and "v" in n:
        return sympy.Integer(int(n["v"]))
    if n.get("k") == "Un" and n.get("op") == "-":
        v = const_value(loc, n["e"])
        return -v if v is not None else None
    return None


def assertions(fn):
    """conditions of the function's own XASSERT/XASSERTM (always-on beliefs)"""
    out = []
    for c in fn.calls(callee_re=r"^FEAT::assertion$"):
        if c.get("a"):
            out.append((c["a"][0], c))
    return out


# -------------------------------------------------------------------------------------------------
# canonical loops
# -------------------------------------------------------------------------------------------------

def counting_loop(n):
    """`for(T v(lo); v < hi; ++v)` -> (decl id of v, lo node, hi node) else None"""
    if n.get("k") != "For":
        return None
    init, c, inc = n.get("init"), n.get("c"), n.get("inc")
    if init is None or c is None or inc is None:
        return None
    if init.get("k") != "Decl" or len(init.get("vars", [])) != 1:
        return None
    v = init["vars"][0]
    if v.get("init") is None:
        return None
    if c.get("k") != "Bin" or c.get("op") not in ("<", "!="):
        return None
    l = strip(c["lhs"])
    if l.get("k") != "Ref" or l.get("d") != v["d"]:
        return None
    if inc.get("k") != "Un" or inc.get("op") != "++":
        return None
    t = strip(inc["e"])
    if t.get("k") != "Ref" or t.get("d") != v["d"]:
        return None
    return v["d"], strip(v["init"]), strip(c["rhs"])


def is_zero(n):
    n = strip(n)
    return n is not None and n.get("k") == "Int" and int(n["v"]) == 0


def flatten_if_chain(n):
    """if(c1) B1 else if(c2) B2 else G -> [(c1,B1),(c2,B2),(None,G)]"""
    out = []
    while n is not None and n.get("k") == "If":
        out.append((n["c"], n["then"]))
        n = n.get("else")
        if n is not None and n.get("k") == "Block" and len(n.get("s", [])) == 1 and n["s"][0].get("k") == "If":
            n = n["s"][0]
    if n is not None:
        out.append((None, n))
    return out


def stmts(n):
    if n is None:
        return []
    if n.get("k") == "Block":
        out = []
        for s in n.get("s", []):
            out.extend(stmts(s))
        return out
    return [n]


def live_must_pass(fn, pred):
    """like CFG.must_pass, but edges of `if constexpr` whose branch was discarded at instantiation are dead:
    every live path entry -> normal exit passes a statement satisfying pred"""
    cfg = fn.cfg
    dead = set()
    for b in cfg.blocks.values():
        if b.get("term") == "IfStmt" and b.get("term_id") is not None and len(b.get("succ", [])) == 2:
            n = fn.by_id(b["term_id"])
            if n is not None and n.get("constexpr"):
                if n.get("else") is None and n.get("then") is not None:
                    dead.add((b["id"], 1))      # condition was true (or no else written: then the false edge skips, keep it)
                    if not _has_else_in_source(n):
                        dead.discard((b["id"], 1))
                elif n.get("then") is None:
                    dead.add((b["id"], 0))
    marked = set()
    for b in cfg.blocks.values():
        for e in b["el"]:
            n = fn.by_id(e)
            if n is not None and pred(n):
                marked.add(b["id"])
                break
    seen = set()
    st = [cfg.entry]
    while st:
        b = st.pop()
        if b in seen or b in marked:
            continue
        seen.add(b)
        for k, s2 in enumerate(cfg.blocks[b].get("succ", [])):
            if s2 is None or (b, k) in dead:
                continue
            st.append(s2)
    bad = []
    for t in cfg.normal_exit_preds():
        if t in seen and any(s2 == cfg.exit and (t, k) not in dead for k, s2 in enumerate(cfg.blocks[t].get("succ", []))):
            bad.append(t)
    return not bad, bad


def _has_else_in_source(n):
    # an instantiated `if constexpr` drops the discarded branch; the plugin marks nothing about the source form, so a
    # missing else is read as "condition true, else discarded" only when the then-branch ends every path (return/abort);
    # otherwise the false edge is kept (conservative: more paths)
    for x in walk(n.get("then")):
        if x.get("k") == "Return" or x.get("noreturn"):
            return True
    return False
