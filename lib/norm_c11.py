"""Alias resolution / copy propagation on featx fact trees (used by checks/c11.py; generic, no property knowledge).

A behaviour-preserving edit that gives a sub-expression a name must not change a verdict:

    const Index n = _count;                      value alias      (single-assignment scalar local)
    Index& target = _indices[_read];             reference alias  (bound once to the lvalue of its initialiser)
    Index* const tuple = &_indices[_read*k];     pointer alias    (tuple[i] is _indices[_read*k + i], *tuple is _indices[_read*k])

`resolve_aliases(fn)` annotates every `Ref` to such a local with `_init` = the initialiser (the convention the normal forms
of checks/c11.py already follow for const integral locals: `strip()` continues with `_init`) and REWRITES the uses of a pointer
alias in place (`p[i]`, `*p`, `*(p+i)`, `p->m`) to the subscript expression on the aliased array they denote.

Soundness condition (checked per use on the statement-level CFG): re-evaluating the initialiser at the use yields the same
value/lvalue as at the declaration, i.e. no statement that may modify a variable the initialiser reads lies on a path
declaration -> use that does not pass through the declaration again.  Uses that fail the test are left untouched (the rule
that meets the unresolved local then answers as before - typically `incomplete`).
"""
import copy
import re

from featlib import walk, children, is_call

PURE_VALUE_KINDS = ("Int", "Float", "Bool", "Ref", "Member", "This", "Cast", "Bin", "Un", "MCall", "Str", "Char", "Index", "Cond")
PURE_LVALUE_KINDS = PURE_VALUE_KINDS + ("OpCall",)
LVALUE_OPS = ("[]", "*", "->", "()")
ACCESSOR_RE = re.compile(r"^(get_|at$|front$|back$|data$|operator\[\]$|operator\(\)$|operator->$|operator\*$|first$|second$|parser$|c_str$|size$|empty$|begin$|end$|cbegin$|cend$|find$)")
READ_RE = re.compile(r"^(front|back|at|operator\[\]|size|length|empty|find|rfind|find_first_of|find_first_not_of|find_last_of|find_last_not_of|compare|count|begin|end|cbegin|cend|top|c_str|data|starts_with|ends_with)$")
SCALAR_T = re.compile(r"^(const )?(unsigned |signed |long |short )*(int|long|short|char|bool|FEAT::Index|Index|std::size_t|size_t|std::ptrdiff_t|std::u?int\d+_t|u?int\d+_t|FEAT::IndexType|IndexType)\b( const)?$")
MUT_OPS = ("=", "+=", "-=", "*=", "/=", "%=", "|=", "&=", "^=", "<<=", ">>=", "++", "--")


def _unc(n):
    while isinstance(n, dict) and n.get("k") == "Cast":
        n = n.get("e")
    return n


def _root(n):
    """(decl id or '@field', direct?) of the variable an lvalue expression is rooted at"""
    n = _unc(n)
    direct = True
    while n is not None:
        k = n.get("k")
        if k == "Ref":
            return n.get("d"), direct
        if k == "Member":
            b = _unc(n.get("b"))
            if b is None or b.get("k") == "This":
                return "@" + n["n"], direct
            n = b
        elif k == "Index":
            n, direct = _unc(n["b"]), False
        elif k == "OpCall" and n.get("a"):
            n, direct = _unc(n["a"][0]), False
        elif k == "MCall":
            n, direct = _unc(n.get("obj")), False
        elif k == "Un" and n.get("op") == "*":
            n, direct = _unc(n["e"]), False
        elif k == "Bin" and n.get("op") in ("+", "-"):
            n, direct = _unc(n["lhs"]), False          # pointer arithmetic: an address inside the array the left operand points to
        elif k == "Un":
            n = _unc(n["e"])
        else:
            return None, direct
    return None, direct


def _vars(n):
    """variables (decl ids / '@field') an expression reads"""
    out = set()

    def rec(x):
        if not isinstance(x, dict):
            return
        k = x.get("k")
        if k == "Ref" and x.get("dk") in ("local", "param"):
            out.add(x.get("d"))
        elif k == "Member" and (x.get("b") is None or (_unc(x["b"]) or {}).get("k") == "This"):
            out.add("@" + x["n"])
            return
        elif k == "This":
            out.add("@*")
        for c in children(x):
            rec(c)
    rec(n)
    return out


def _content_vars(n):
    """variables whose element CONTENT (not only their own value / shape) the expression reads: everything that occurs in a
    subscript, in a call argument, or below a dereference that is not the outermost lvalue chain"""
    out = set()

    def chain(x):
        x = _unc(x)
        if x is None:
            return
        k = x.get("k")
        if k == "Index":
            chain(x["b"])
            out.update(_vars(x["idx"]))
        elif k == "OpCall" and x.get("a"):
            chain(x["a"][0])
            for a in x["a"][1:]:
                out.update(_vars(a))
        elif k == "MCall":
            chain(x.get("obj"))
            for a in x.get("a", []):
                out.update(_vars(a))
        elif k in ("Member", "Un"):
            chain(x.get("b") if k == "Member" else x.get("e"))
        elif k == "Bin" and x.get("op") in ("+", "-"):
            chain(x["lhs"])                       # pointer arithmetic base + offset
            out.update(_vars(x["rhs"]))
        elif k in ("Ref", "This"):
            return
        else:
            out.update(_vars(x))
    chain(n)
    return out


class _Flow:
    """statement-level flow graph of one function (CFG elements plus one end node per block)"""

    def __init__(self, fn):
        self.fn = fn
        cfg = fn.cfg
        self.pos = {}         # stmt id -> node
        self.cond = {}        # id of a block's branch condition -> end node of that block
        self.succ = {}
        self.stmt = {}        # node -> stmt id
        first = {}
        for bid, b in cfg.blocks.items():
            nodes = [("s", bid, p) for p in range(len(b["el"]))] + [("e", bid)]
            first[bid] = nodes[0]
            for p, e in enumerate(b["el"]):
                self.pos.setdefault(e, nodes[p])
                self.stmt[nodes[p]] = e
            for a, c in zip(nodes, nodes[1:]):
                self.succ.setdefault(a, []).append(c)
            if b.get("cond") is not None:
                self.cond.setdefault(b["cond"], nodes[-1])
        for bid, b in cfg.blocks.items():
            for s in b.get("succ", []):
                if s is not None and s in first:
                    self.succ.setdefault(("e", bid), []).append(first[s])
        self.parents = {}
        for root in [i.get("init") for i in (fn.d.get("inits") or [])] + [fn.body]:
            for x in walk(root):
                for c in children(x):
                    self.parents[id(c)] = x
        self._kills = None

    def where(self, node):
        x = node
        while x is not None:
            i = x.get("i")
            if i in self.pos:
                return self.pos[i]
            if i in self.cond:
                return self.cond[i]
            x = self.parents.get(id(x))
        return None

    def kills(self):
        """node -> (hard set, soft set) of variables the statement may modify (soft: only through an element access)"""
        if self._kills is not None:
            return self._kills
        fn = self.fn
        out = {}
        for sid, node in self.pos.items():
            n = fn.by_id(sid)
            if n is None:
                continue
            hard, soft = set(), set()

            def mark(e):
                r, direct = _root(e)
                if r is not None and r in getattr(self, "opaque", ()):
                    # write through a reference / pointer local: its target is only known once that local is resolved
                    # (('via', d) is interpreted per candidate; a reference local is never re-seated, so direct == through)
                    if not direct or r in getattr(self, "reflocals", ()):
                        hard.add(("via", r))
                    else:
                        hard.add(r)
                elif r is not None:
                    (hard if direct else soft).add(r)
            # the statement and the side effects nested in it that are not CFG elements of their own
            for x in walk(n, prune=lambda y: y is not n and y.get("i") in self.pos):
                k = x.get("k")
                if k == "Assign":
                    mark(x["lhs"])
                elif k == "Un" and x.get("op") in ("++", "--"):
                    mark(x["e"])
                elif is_call(x):
                    pt = x.get("pt") or []
                    args = x.get("a", [])
                    if k == "OpCall" and x.get("op") == "()" and args and (x.get("ccls") == "<lambda>" or "lambda" in (fn.ntype(_unc(args[0]) or {}) or "")):
                        hard.add(("via", "<lambda>"))        # a local lambda may write whatever it captured by reference
                    if k == "OpCall" and x.get("op") in MUT_OPS and args:
                        mark(args[0])
                    off = 1 if (k == "OpCall" and len(args) == len(pt) + 1) else 0
                    for i, a in enumerate(args):
                        j = i - off
                        if 0 <= j < len(pt):
                            t = pt[j] if isinstance(pt[j], str) else fn.type(pt[j])
                            t = (t or "").strip()
                            if (t.endswith("&") and not t.endswith("&&") and not t.startswith("const ")) or (t.endswith("*") and not t.startswith("const ")):
                                mark(a)
                    if k == "MCall" and not x.get("cconst") and not x.get("cstatic"):
                        o = _unc(x.get("obj"))
                        if o is None or o.get("k") == "This":
                            hard.add("@*")           # a non-const member function of the own object may change any field
                        elif not ((x.get("ccls") or "").startswith("std::") and ACCESSOR_RE.match(x.get("n") or "")):
                            mark(o)
            if hard or soft:
                out[node] = (hard, soft)
        self._kills = out
        return out

    def reach(self, starts, avoid):
        seen, st = set(), []
        for s in starts:
            st.extend(self.succ.get(s, []))
        while st:
            x = st.pop()
            if x in seen or x == avoid:
                continue
            seen.add(x)
            st.extend(self.succ.get(x, []))
        return seen


def _pure(init, lvalue):
    kinds = PURE_LVALUE_KINDS if lvalue else PURE_VALUE_KINDS
    for x in walk(init):
        k = x.get("k")
        if k == "Call" and re.match(r"^std::numeric_limits<.*>::(max|min|lowest|epsilon|digits)$", x.get("callee") or x.get("cfull") or "") and not x.get("a"):
            continue          # compile-time constant
        if k == "OpCall" and not lvalue and x.get("op") == "[]" and (x.get("cconst") or re.match(r"^(std::|FEAT::String$)", x.get("ccls") or "")):
            continue          # element read of a string / standard container
        if k not in kinds:
            return False
        if k == "MCall" and not (x.get("cconst") or (lvalue and ACCESSOR_RE.match(x.get("n") or "")) or
                                 (READ_RE.match(x.get("n") or "") and re.match(r"^(std::|FEAT::String$)", x.get("ccls") or ""))):
            return False
        if k == "OpCall" and x.get("op") not in LVALUE_OPS:
            return False
        if k == "Un" and x.get("op") in ("++", "--"):
            return False
    return True


def _strip_ids(n):
    """deep copy of an expression without statement ids (a copy must not shadow the original in by_id / CFG look-ups)"""
    c = copy.deepcopy(n)
    for x in walk(c):
        x.pop("i", None)
    return c


OBJ = "<object>"       # offset marker of _ptr_target: the pointer denotes a single object, not an array position


def _ptr_target(init):
    """initialiser of a pointer alias -> (array expression, offset expression or None)"""
    e = _unc(init)
    if e is None:
        return None
    if e.get("k") == "Un" and e.get("op") == "&":
        t = _unc(e["e"])
        if t is not None and t.get("k") == "Index":
            return t["b"], t["idx"]
        if t is not None and t.get("k") in ("OpCall", "MCall", "Member", "Ref"):
            return t, OBJ           # pointer to one object: *p is that object, p->m its member
        return None
    if e.get("k") == "Bin" and e.get("op") == "+":
        return e["lhs"], e["rhs"]
    if e.get("k") in ("Member", "Ref"):
        return e, None
    return None


def _comma_parts(n):
    if n is None:
        return []
    if n.get("k") == "Bin" and n.get("op") == ",":
        return _comma_parts(n["lhs"]) + _comma_parts(n["rhs"])
    return [n]


def _step(x, d):
    """+1 if expression x advances the variable with decl id d by one"""
    x = _unc(x)
    if x is None:
        return 0
    if x.get("k") == "Un" and x.get("op") == "++" and (_unc(x.get("e")) or {}).get("d") == d:
        return 1
    if x.get("k") == "Assign" and x.get("op") == "+=" and (_unc(x.get("lhs")) or {}).get("d") == d and (_unc(x.get("rhs")) or {}).get("k") == "Int" \
       and _unc(x["rhs"]).get("v") == "1":
        return 1
    return 0


def _range_cursor(fn, par, var, uses, mod):
    """pointer local advanced by ONE unconditional `++p;` that is the last statement of the body of a range-for loop, declared in front
    of the loop and used only inside its body: in iteration number k (0-based) of the loop p == p0 + k.  The iteration number gets a
    synthetic induction variable `$it<line>` (recorded on the loop node as `_iter`, with the range expression as its extent).
    -> (loop node, synthetic Var node, 0) or None"""
    blk = par.get(id(mod))
    loop = par.get(id(blk)) if blk is not None else None
    if blk is None or blk.get("k") != "Block" or loop is None or loop.get("k") != "ForRange" or loop.get("body") is not blk:
        return None
    stmts = blk.get("s") or []
    if not stmts or stmts[-1] is not mod:
        return None
    if any(y.get("k") in ("Continue", "Goto") for y in walk(blk, prune=lambda z: z.get("k") in ("For", "While", "Do", "ForRange", "Lambda"))):
        return None
    if id(var) in {id(y) for y in walk(loop)}:
        return None
    inside = {id(y) for y in walk(blk)}
    if any(id(u) not in inside for u in uses):
        return None
    iv = loop.get("_iter")
    if iv is None:
        iv = {"k": "Var", "n": "$it%s" % (loop.get("l") or loop.get("i") or ""), "d": -(loop.get("i") or 1) - 1000000, "t": None, "l": loop.get("l"), "_synthetic": True}
        loop["_iter"] = iv
    loop["_cursor_step"] = mod
    return loop, iv, 0


def _cursor_loop(fn, par, var, uses):
    """pointer local advanced ONLY by the header of one counted for loop, in lock-step with its induction variable
    (`for(Index i(0); i < n; ++i, ++p)`), declared in front of the loop and used only inside it:
    inside the body p == p0 + (i - i0).  -> (loop node, induction Var node, i0) or None"""
    d = var["d"]
    mods = []
    for u in uses:
        p = par.get(id(u))
        x = u
        while p is not None and p.get("k") == "Cast":
            x, p = p, par.get(id(p))
        if p is None:
            continue
        if (p.get("k") == "Un" and p.get("op") in ("++", "--", "&") and p.get("e") is x) or (p.get("k") == "Assign" and p.get("lhs") is x):
            mods.append(p)
    if len(mods) != 1 or not _step(mods[0], d):
        return None
    rc = _range_cursor(fn, par, var, uses, mods[0])
    if rc is not None:
        return rc
    x, q = mods[0], par.get(id(mods[0]))
    while q is not None and q.get("k") == "Bin" and q.get("op") == ",":
        x, q = q, par.get(id(q))
    if q is None or q.get("k") != "For" or q.get("inc") is not x:
        return None
    loop = q
    init = loop.get("init")
    if init is None or init.get("k") != "Decl" or len(init.get("vars", [])) != 1:
        return None
    iv = init["vars"][0]
    i0 = _unc(iv.get("init"))
    while i0 is not None and i0.get("k") in ("Construct", "TempObj") and len(i0.get("a", [])) == 1:
        i0 = _unc(i0["a"][0])
    if i0 is None or i0.get("k") != "Int":
        return None
    parts = _comma_parts(loop.get("inc"))
    if sum(1 for y in parts if _step(y, iv["d"])) != 1:
        return None
    inside = {id(y) for y in walk(loop.get("body"))} | {id(y) for y in walk(loop.get("c"))}
    for y in walk(loop.get("body")):
        if y.get("k") in ("Assign", "Un") and y.get("op") in MUT_OPS and (_unc(y.get("lhs") or y.get("e")) or {}).get("d") == iv["d"]:
            return None
    if id(var) in {id(y) for y in walk(loop)}:
        return None
    for u in uses:
        if id(u) not in inside and par.get(id(u)) is not mods[0] and u is not _unc(mods[0].get("e") or mods[0].get("lhs")):
            return None
    return loop, iv, int(i0["v"])


def resolve_aliases(fn, value_aliases=True, ref_aliases=True, ptr_aliases=True, skip=None, stats=None):
    """see module doc.  `skip(var_node) -> True` excludes a local (e.g. one an older pass already resolved)."""
    if fn.body is None or fn.cfg is None or fn.d.get("_norm_aliases"):
        return
    fn.d["_norm_aliases"] = True
    cands = {}
    opaque = set()
    for n in fn.nodes():
        if n.get("k") != "Var" or "d" not in n:
            continue
        t = (fn.type(n.get("t")) or "").strip()
        is_ptr = bool(re.search(r"\*\s*(const)?$", t))
        if n.get("ref") or is_ptr:
            opaque.add(n["d"])
        if n.get("init") is None or (skip is not None and skip(n)):
            continue
        if n.get("ref"):
            if ref_aliases and not t.endswith("&&") and _pure(n["init"], True):
                cands[n["d"]] = ("ref", n)
        elif is_ptr:
            if ptr_aliases and _pure(n["init"], True) and _ptr_target(n["init"]) is not None:
                cands[n["d"]] = ("ptr", n)
        elif value_aliases and SCALAR_T.match(t) and _pure(n["init"], False):
            cands[n["d"]] = ("val", n)
    if not cands:
        return
    uses = {}
    for n in fn.nodes():
        if n.get("k") == "Ref" and n.get("d") in cands:
            uses.setdefault(n["d"], []).append(n)
    flow = _Flow(fn)
    opaque.add("<lambda>")
    flow.opaque = opaque
    flow.reflocals = {n["d"] for n in fn.nodes() if n.get("k") == "Var" and n.get("ref") and "d" in n}
    in_lambda = set()
    for n in fn.nodes():
        if n.get("k") == "Lambda":
            in_lambda |= {id(x) for x in walk(n.get("body"))}
    par = flow.parents
    cursors = {}
    # single assignment (references cannot be re-seated; writing THROUGH a reference / pointer alias is fine)
    for d, (kind, var) in list(cands.items()):
        for u0 in uses.get(d, []):
            u, p = u0, par.get(id(u0))
            while p is not None and p.get("k") == "Cast":
                u, p = p, par.get(id(p))
            if p is None:
                continue
            pk = p.get("k")
            bad = False
            if kind in ("val", "ptr"):
                if pk == "Assign" and _unc(p["lhs"]) is _unc(u):
                    bad = True
                elif pk == "Un" and p.get("op") in ("++", "--", "&"):
                    bad = True
                elif is_call(p):
                    pt = p.get("pt") or []
                    args = p.get("a", [])
                    off = 1 if (pk == "OpCall" and len(args) == len(pt) + 1) else 0
                    for i, a in enumerate(args):
                        if _unc(a) is _unc(u):
                            j = i - off
                            if pk == "OpCall" and i == 0 and p.get("op") in MUT_OPS:
                                bad = True
                            if 0 <= j < len(pt):
                                t = pt[j] if isinstance(pt[j], str) else fn.type(pt[j])
                                t = (t or "").strip()
                                if t.endswith("&") and not t.endswith("&&") and not t.startswith("const "):
                                    bad = True
                elif pk == "Var" and p.get("ref") and not (fn.type(p.get("t")) or "").startswith("const "):
                    bad = True
            if bad:
                cur = _cursor_loop(fn, par, var, uses.get(d, [])) if kind == "ptr" else None
                if cur is not None:
                    cursors[d] = cur
                else:
                    cands.pop(d, None)
                break
    if not cands:
        return
    order = sorted(cands, key=lambda d_: (cands[d_][1].get("l") or 0, d_))
    resolved = {}
    all_cands = dict(cands)

    def ultimate(r, depth=0):
        """variable whose element content a write through the reference / pointer local r modifies (None: unknown).  Sound
        without any stability argument: r is bound once, to an element of what its (single-assignment) initialiser is rooted at."""
        if r not in opaque:
            return r
        c = all_cands.get(r)
        if c is None or c[0] not in ("ref", "ptr") or depth > 8:
            return None          # (a cursor only advanced by ++ stays inside the array it was taken from)
        r2 = _root(c[1]["init"])[0]
        return ultimate(r2, depth + 1) if r2 is not None else None
    for d in order:
        kind, var = cands[d]
        init = var["init"]
        dpos = flow.where(var)
        if dpos is None:
            continue
        kills = flow.kills()
        deps = set(_vars(init))
        content = set(_content_vars(init)) if kind in ("ref", "ptr") else set(deps)
        # a value alias defined through another value alias depends on what that one reads
        for x in walk(init):
            if x.get("k") == "Ref" and x.get("d") in resolved:
                deps |= resolved[x["d"]][0]
                content |= resolved[x["d"]][1]
        if d in cursors:
            deps.discard(cursors[d][1]["d"])
        after = flow.reach([dpos], dpos)
        bad_nodes = set()
        for node, (hard, soft) in kills.items():
            if node not in after:
                continue
            via = {ultimate(h[1]) for h in hard if isinstance(h, tuple)}
            if None in via:
                bad_nodes.add(node)        # write through a reference / pointer local whose target is unknown
            elif (hard & deps) or ("@*" in hard and any(isinstance(v, str) and v.startswith("@") for v in deps)) or ((soft | via) & content):
                bad_nodes.add(node)
        tainted = (flow.reach(bad_nodes, dpos) | set()) if bad_nodes else set()
        my_uses = [u for u in uses.get(d, []) if u.get("k") == "Ref" and u.get("d") == d]
        if d in cursors:
            # the header step of the cursor itself is not a use to be rewritten
            loop = cursors[d][0]
            hdr = {id(y) for y in walk(loop.get("inc") if loop.get("k") == "For" else loop.get("_cursor_step"))}
            my_uses = [u for u in my_uses if id(u) not in hdr]
        ok_uses = []
        for u in my_uses:
            w = flow.where(u)
            if w is None or w in tainted or id(u) in in_lambda:
                continue          # (a lambda body runs when the lambda is called, not where it is written)
            ok_uses.append(u)
        if stats is not None:
            stats[kind] = stats.get(kind, 0) + 1
        if kind == "ptr" and len(ok_uses) != len(my_uses):
            continue          # all or nothing: a pointer alias is only rewritten if every use denotes the same element range
        if kind == "val":
            resolved[d] = (deps, content)
            for u in ok_uses:
                u.setdefault("_init", init)
        elif kind == "ref":
            for u in ok_uses:
                _substitute(par, u, init, var.get("n"))
            if len(ok_uses) == len(my_uses):
                opaque.discard(d)
            flow._kills = None
            fn._byid = None
        else:
            base, off = _ptr_target(init)
            if d in cursors and off is OBJ:
                continue
            if d in cursors:
                loop, iv, i0 = cursors[d]
                step = {"k": "Ref", "n": iv["n"], "d": iv["d"], "dk": "local", "t": iv.get("t"), "l": iv.get("l")}
                if i0 != 0:
                    step = {"k": "Bin", "op": "-", "lhs": step, "rhs": {"k": "Int", "v": str(i0)}, "t": iv.get("t")}
                off = _plus(off, step)
            left = 0
            for u in ok_uses:
                if not _rewrite_ptr_use(fn, par, u, base, off):
                    left += 1
                    if d not in cursors:
                        u.setdefault("_init", init)
            e = _unc(init)
            if e.get("k") == "Un" and e.get("op") == "&":
                # the subscript under `&` only computes an address; the accesses are the (rewritten) uses of the alias
                _unc(e["e"])["_addr_of_alias"] = var.get("n")
            if left == 0:
                opaque.discard(d)
            flow._kills = None
            fn._byid = None
    fn._byid = None


def _substitute(par, u, init, name):
    """replace the Ref node u (in place) by a copy of the lvalue expression it is bound to"""
    c = _strip_ids(init)
    line = u.get("l")
    u.clear()
    u.update(c)
    if line is not None:
        u["l"] = line
    u["_alias"] = name
    for x in walk(u):
        for ch in children(x):
            par[id(ch)] = x


def _plus(a, b):
    if a is None:
        return b
    if b is None:
        return a
    return {"k": "Bin", "op": "+", "lhs": a, "rhs": b, "t": a.get("t"), "l": b.get("l") or a.get("l")}


def _rewrite_ptr_use(fn, par, u, base, off):
    """u: Ref to the pointer alias p = &base[off].  Rewrites the enclosing p[i] / *p / *(p+i) / p->m in place."""
    x, p = u, par.get(id(u))
    while p is not None and p.get("k") == "Cast" and p.get("e") is x:
        x, p = p, par.get(id(p))
    if p is None:
        return False
    extra = None
    if off is OBJ:
        if p.get("k") == "Un" and p.get("op") == "*" and p.get("e") is x:
            keep = {k: p[k] for k in ("l",) if k in p}
            c = _strip_ids(base)
            p.clear()
            p.update(c)
            p.update(keep)
            p["_ptr_alias"] = u.get("n")
        elif p.get("k") == "Member" and p.get("b") is x and p.get("arrow"):
            p["b"] = _strip_ids(base)
            p["arrow"] = False
        elif p.get("k") == "MCall" and p.get("obj") is x and p.get("arrow"):
            p["obj"] = _strip_ids(base)
            p["arrow"] = False
        else:
            return False
        for y in walk(p):
            for ch in children(y):
                par[id(ch)] = y
        return True
    if p.get("k") == "Bin" and p.get("op") in ("+",) and (p.get("lhs") is x or p.get("rhs") is x):
        # (p + i): look for the dereference around it
        extra = p["rhs"] if p.get("lhs") is x else p["lhs"]
        x, p = p, par.get(id(p))
        while p is not None and p.get("k") == "Cast" and p.get("e") is x:
            x, p = p, par.get(id(p))
        if p is None or not (p.get("k") == "Un" and p.get("op") == "*"):
            return False
    if p.get("k") == "Index" and p.get("b") is x and extra is None:
        idx = p["idx"]
        keep = {k: p[k] for k in ("i", "l", "t") if k in p}
        p.clear()
        p.update(keep)
        p.update({"k": "Index", "b": _strip_ids(base), "idx": _plus(_strip_ids(off) if off is not None else None, idx), "_ptr_alias": u.get("n")})
    elif p.get("k") == "Un" and p.get("op") == "*" and p.get("e") is x:
        keep = {k: p[k] for k in ("i", "l", "t") if k in p}
        idx = _plus(_strip_ids(off) if off is not None else None, extra) or {"k": "Int", "v": "0"}
        p.clear()
        p.update(keep)
        p.update({"k": "Index", "b": _strip_ids(base), "idx": idx, "_ptr_alias": u.get("n")})
    elif p.get("k") == "Member" and p.get("b") is x and p.get("arrow") and extra is None:
        p["b"] = {"k": "Index", "b": _strip_ids(base), "idx": _strip_ids(off) if off is not None else {"k": "Int", "v": "0"}, "l": u.get("l"), "_ptr_alias": u.get("n")}
        p["arrow"] = False
    else:
        return False
    for y in walk(p):
        for ch in children(y):
            par[id(ch)] = y
    return True


def bind_params(fn, bindings):
    """bindings: {parameter decl id: argument expression of the unique call site, over fields of the object only}.
    Inside fn the parameter stands for that expression as long as no statement on the way from the entry may have changed what
    the expression reads: reference parameters are replaced, pointer parameters rewritten like pointer aliases (p[i] -> X[e+i]),
    scalar value parameters annotated with `_init`."""
    if fn.body is None or fn.cfg is None or not bindings:
        return
    flow = _Flow(fn)
    flow.opaque = {"<lambda>"}
    flow.reflocals = set()
    par = flow.parents
    in_lambda = set()
    for n in fn.nodes():
        if n.get("k") == "Lambda":
            in_lambda |= {id(x) for x in walk(n.get("body"))}
    for n in fn.nodes():
        if n.get("k") == "Var" and "d" in n:
            t = (fn.type(n.get("t")) or "").strip()
            if n.get("ref") or re.search(r"\*\s*(const)?$", t):
                flow.opaque.add(n["d"])
            if n.get("ref"):
                flow.reflocals.add(n["d"])
    ptypes = {p_["d"]: (fn.type(p_.get("t")) or "").strip() for p_ in fn.params if "d" in p_}
    for d, t in ptypes.items():
        if t.endswith("&") or re.search(r"\*\s*(const)?$", t):
            flow.opaque.add(d)
        if t.endswith("&"):
            flow.reflocals.add(d)
    entry = ("e", "__entry__")
    first = fn.cfg.entry
    b0 = fn.cfg.blocks.get(first)
    if b0 is None:
        return
    flow.succ[entry] = [("s", first, 0) if b0["el"] else ("e", first)]
    for d, init in bindings.items():
        t = ptypes.get(d, "")
        if not _pure(init, True):
            continue
        if t.endswith("&&"):
            continue
        kind = "ref" if t.endswith("&") else ("ptr" if re.search(r"\*\s*(const)?$", t) else ("val" if SCALAR_T.match(t) else None))
        if kind is None or (kind == "ptr" and _ptr_target(init) is None):
            continue
        uses = [x for x in fn.nodes() if x.get("k") == "Ref" and x.get("d") == d]
        # the parameter itself must not be re-assigned / advanced
        bad = False
        for u0 in uses:
            u, p = u0, par.get(id(u0))
            while p is not None and p.get("k") == "Cast":
                u, p = p, par.get(id(p))
            if p is None:
                continue
            if kind in ("val", "ptr") and ((p.get("k") == "Assign" and _unc(p["lhs"]) is _unc(u)) or (p.get("k") == "Un" and p.get("op") in ("++", "--", "&"))):
                bad = True
        if bad:
            continue
        kills = flow.kills()
        deps = set(_vars(init))
        content = set(_content_vars(init)) if kind in ("ref", "ptr") else set(deps)
        own = _root(init)[0]
        bad_nodes = set()
        for node, (hard, soft) in kills.items():
            via = set()
            for h in hard:
                if isinstance(h, tuple):
                    via.add(own if h[1] == d else None)
            if None in via:
                bad_nodes.add(node)
            elif (hard & deps) or ("@*" in hard and any(isinstance(v, str) and v.startswith("@") for v in deps)) or ((soft | via) & content):
                bad_nodes.add(node)
        tainted = flow.reach(bad_nodes, None) if bad_nodes else set()
        ok_uses = [u for u in uses if flow.where(u) is not None and flow.where(u) not in tainted and id(u) not in in_lambda]
        if len(ok_uses) != len(uses):
            continue
        if kind == "val":
            for u in ok_uses:
                u.setdefault("_init", init)
        elif kind == "ref":
            for u in ok_uses:
                _substitute(par, u, init, "param")
            flow.opaque.discard(d)
        else:
            base, off = _ptr_target(init)
            left = 0
            for u in ok_uses:
                if not _rewrite_ptr_use(fn, par, u, base, off):
                    left += 1
                    u.setdefault("_init", init)
            if left == 0:
                flow.opaque.discard(d)
            e = _unc(init)
            if e.get("k") == "Un" and e.get("op") == "&" and left == 0:
                _unc(e["e"])["_addr_of_alias"] = "param"       # the argument only forms the address; the accesses are in the helper
        flow._kills = None
        fn._byid = None
