"""norm_c10: helpers of the C10 check that follow calls into repo helpers.

(1) DefEvents - "which index sets <m,f> of one IndexSetHolder does a function define, and under which entity-count
    conditions": an interprocedural walk over the statement trees (callee bodies are entered with the holder / the
    index-set arguments bound to the callee's parameters; reference locals are resolved to what they name; early-outs
    `if(c) return;` guard everything after them; `!`, `&&`, `||` are split by polarity).  Only conditions that query an
    entity count (`get_num_entities`) matter for the coverage rule; data-dependent failure exits (`if(!found) return false`)
    are neutral.
(2) call_sites - callers of a function inside one file set (for following a helper back to the loops that use it).
"""
import re

import featlib
from featlib import walk, children

ACCESSORS = ("get_index_set", "get_index_set_wrapper", "get_num_entities", "get_index_bound", "get_num_indices", "get_indices", "bytes", "name")


def strip_casts(n):
    while n is not None and (n.get("k") == "Cast" or (n.get("k") == "Call" and n.get("callee", "").split("<")[0] in ("std::move", "std::forward") and n.get("a"))):
        n = n["e"] if n.get("k") == "Cast" else n["a"][0]
    return n


def trailing_targs(cfull):
    """integer template arguments at the end of a full callee name: `...::get_index_set<2, 0>` -> [2, 0]"""
    m = re.search(r"<([^<>]*)>$", cfull or "")
    if not m:
        return None
    out = []
    for p in m.group(1).split(","):
        p = p.strip()
        if not re.match(r"^-?\d+$", p):
            return None
        out.append(int(p))
    return out


class Event:
    __slots__ = ("m", "f", "guards", "fn", "line", "chain")

    def __init__(self, m, f, guards, fn, line, chain):
        self.m, self.f, self.guards, self.fn, self.line, self.chain = m, f, guards, fn, line, chain


class DefEvents:
    """collect definition events of the index sets of one tracked IndexSetHolder"""

    MAX_DEPTH = 10

    def __init__(self, facts):
        self.facts = facts
        self.by_decl = {}
        for f in facts.functions:
            if f.tk == "pattern" or f.body is None:
                continue
            self.by_decl.setdefault((f.qn, f.d.get("decl")), f)
        self.events = []
        self.escapes = []       # (text, fn, line): the tracked holder / one of its sets leaves the analysed code mutably
        self.seen = set()

    # ---- callee lookup ------------------------------------------------------------------------------------------
    def lookup(self, call):
        f = self.by_decl.get((call.get("callee"), call.get("cdecl")))
        if f is not None:
            return f
        cands = [g for (qn, _), g in self.by_decl.items() if qn == call.get("callee") and g.full == call.get("cfull") and len(g.params) == len(call.get("pn", []))]
        return cands[0] if len(cands) == 1 else None

    # ---- what does an expression denote -------------------------------------------------------------------------
    def resolve(self, n, env, inits, members, depth=0):
        """-> ('H',) tracked holder | ('S', m, f) index set <m,f> of it | ('W', m) its index-set wrapper of dimension m | None"""
        n = strip_casts(n)
        if n is None or depth > 12:
            return None
        k = n.get("k")
        if k == "Un" and n.get("op") in ("*", "&"):
            return self.resolve(n["e"], env, inits, members, depth + 1)
        if k == "OpCall" and n.get("op") in ("*", "->") and n.get("a"):
            return self.resolve(n["a"][0], env, inits, members, depth + 1)
        if k == "Ref":
            if n.get("d") in env:
                return env[n["d"]]
            if n.get("dk") == "local" and n.get("d") in inits:
                var = inits[n["d"]]
                if var.get("ref") or "*" in (var.get("_ty") or ""):
                    return self.resolve(var.get("init"), env, inits, members, depth + 1)
            return None
        if k == "Member" and n.get("b", {}).get("k") == "This":
            return ("H",) if n.get("n") in members else None
        if k == "MCall" and n.get("obj") is not None:
            nm = n.get("n")
            if nm == "get" and "unique_ptr" in n.get("callee", ""):
                return self.resolve(n["obj"], env, inits, members, depth + 1)
            if nm in ("get_index_set", "get_index_set_wrapper"):
                o = self.resolve(n["obj"], env, inits, members, depth + 1)
                ta = trailing_targs(n.get("cfull"))
                if o is None or ta is None:
                    return None
                if o == ("H",) and nm == "get_index_set" and len(ta) == 2:
                    return ("S", ta[0], ta[1])
                if o == ("H",) and nm == "get_index_set_wrapper" and len(ta) == 1:
                    return ("W", ta[0])
                if o[0] == "W" and nm == "get_index_set" and len(ta) == 1:
                    return ("S", o[1], ta[0])
            return None
        return None

    # ---- entity-count conditions --------------------------------------------------------------------------------
    def count_dim(self, q, env, inits, members):
        """dimension of the entities counted by the query node q (an MCall get_num_entities), or None"""
        obj = strip_casts(q.get("obj"))
        if q.get("a"):
            a = strip_casts(q["a"][0])
            if a is not None and a.get("k") == "Int":
                return int(a["v"])
            if a is not None and a.get("k") == "Ref" and "v" in a:
                return int(a["v"])
            return None
        seen = 0
        while obj is not None and seen < 12:
            seen += 1
            d = self.resolve(obj, env, inits, members)
            if d is not None and d[0] == "S":
                return d[1]
            obj = strip_casts(obj)
            k = obj.get("k")
            if k == "MCall" and obj.get("n") in ("get_index_set", "get_target_set"):
                ta = trailing_targs(obj.get("cfull"))
                if ta and ((obj["n"] == "get_index_set" and len(ta) == 2) or (obj["n"] == "get_target_set" and len(ta) == 1)):
                    return ta[0]
                return None
            if k == "Ref" and obj.get("dk") == "local" and obj.get("d") in inits and inits[obj["d"]].get("init") is not None:
                obj = inits[obj["d"]]["init"]
                continue
            if (k == "Un" and obj.get("op") in ("*", "&")):
                obj = obj["e"]
                continue
            if k == "OpCall" and obj.get("op") in ("*", "->") and obj.get("a"):
                obj = obj["a"][0]
                continue
            return None
        return None

    def count_query(self, n, env, inits, members, depth=0):
        """n is (a local copy of) an entity-count query -> ('q', dim|None) ; else None"""
        n = strip_casts(n)
        if n is None or depth > 6:
            return None
        if n.get("k") == "MCall" and n.get("n") == "get_num_entities":
            return ("q", self.count_dim(n, env, inits, members))
        if n.get("k") == "Ref" and n.get("dk") == "local" and n.get("d") in inits and not inits[n["d"]].get("ref"):
            return self.count_query(inits[n["d"]].get("init"), env, inits, members, depth + 1)
        return None

    def has_count_query(self, n, inits, depth=0):
        for x in walk(n):
            if x.get("k") == "MCall" and x.get("n") == "get_num_entities":
                return True
            if depth < 4 and x.get("k") == "Ref" and x.get("dk") == "local" and x.get("d") in inits and not inits[x["d"]].get("ref") and inits[x["d"]].get("init") is not None:
                if self.has_count_query(inits[x["d"]]["init"], inits, depth + 1):
                    return True
        return False

    @staticmethod
    def _const(n):
        n = strip_casts(n)
        while n is not None and n.get("k") in ("Construct", "TempObj") and len(n.get("a", [])) == 1:
            n = strip_casts(n["a"][0])
        if n is None:
            return None
        if n.get("k") == "Int":
            return int(n["v"])
        if n.get("k") == "Ref" and "v" in n:
            return int(n["v"])
        return None

    def classify(self, cond, polarity, env, inits, members, fn):
        """guards implied by `cond == polarity`: list of ('count', dim, 'zero'|'nonzero', text, fn, line) / ('unknown', text, fn, line)"""
        c = strip_casts(cond)
        if c is None:
            return []
        text = ("" if polarity else "!(") + featlib.render(c) + ("" if polarity else ")")
        line = c.get("l")
        if c.get("k") == "Un" and c.get("op") == "!":
            return self.classify(c["e"], not polarity, env, inits, members, fn)
        if c.get("k") == "Bin" and c.get("op") in ("&&", "||"):
            conj = (c["op"] == "&&") == polarity
            if conj:
                return self.classify(c["lhs"], polarity, env, inits, members, fn) + self.classify(c["rhs"], polarity, env, inits, members, fn)
            if self.has_count_query(c, inits):
                # a disjunction holds already if one side holds: both sides the same count guard -> that guard
                ga = self.classify(c["lhs"], polarity, env, inits, members, fn)
                gb = self.classify(c["rhs"], polarity, env, inits, members, fn)
                if ga and gb and [g[:3] for g in ga] == [g[:3] for g in gb]:
                    return ga
                return [("unknown", text, fn, line)]
            return []
        if not self.has_count_query(c, inits):
            return []          # not a condition on entity counts: neutral for the coverage rule
        holds = None           # set of count classes {0, '+'} for which the condition is true
        if c.get("k") == "Bin" and c.get("op") in ("==", "!=", "<", ">", "<=", ">="):
            for a, b, op in ((c["lhs"], c["rhs"], c["op"]), (c["rhs"], c["lhs"], {"<": ">", ">": "<", "<=": ">=", ">=": "<="}.get(c["op"], c["op"]))):
                q = self.count_query(a, env, inits, members)
                v = self._const(b)
                if q is not None and v is not None:
                    truth = {"==": lambda x: x == v, "!=": lambda x: x != v, "<": lambda x: x < v, ">": lambda x: x > v, "<=": lambda x: x <= v, ">=": lambda x: x >= v}[op]
                    at0 = truth(0)
                    pos = {truth(x) for x in (1, 2, 3, 1000, 10 ** 9)}
                    if len(pos) == 1 and at0 != list(pos)[0]:
                        holds = ("zero" if at0 else "nonzero", q[1])
                    break
        else:
            q = self.count_query(c, env, inits, members)
            if q is not None:
                holds = ("nonzero", q[1])
        if holds is None or holds[1] is None:
            return [("unknown", text, fn, line)]
        side = holds[0] if polarity else ("zero" if holds[0] == "nonzero" else "nonzero")
        return [("count", holds[1], side, text, fn, line)]

    # ---- statement walk -----------------------------------------------------------------------------------------
    @staticmethod
    def _exits(st):
        if st is None:
            return False
        if st.get("k") in ("Return", "Throw", "Break", "Continue"):
            return True           # Break/Continue leave the enclosing loop body: the rest of that block is guarded
        if featlib.is_call(st) and st.get("noreturn"):
            return True
        if st.get("k") == "Block":
            return any(DefEvents._exits(x) for x in st.get("s", []))
        return False

    @staticmethod
    def _local_inits(fn):
        out = {}
        for n in fn.nodes():
            if n.get("k") == "Var":
                v = dict(n)
                v["_ty"] = fn.type(n["t"]) if "t" in n else ""
                out[n["d"]] = v
        return out

    def analyse(self, fn, env, members=(), guards=(), chain=(), depth=0):
        key = (fn.full, tuple(sorted(env.items())), tuple(g[:3] for g in guards))
        if key in self.seen or depth > self.MAX_DEPTH:
            return
        self.seen.add(key)
        inits = self._local_inits(fn)
        chain = chain + (fn,)

        def lhs_root(n):
            n = strip_casts(n)
            while n is not None:
                if n.get("k") == "Index":
                    n = strip_casts(n["b"])
                elif n.get("k") == "OpCall" and n.get("op") == "[]" and n.get("a"):
                    n = strip_casts(n["a"][0])
                else:
                    break
            return n

        def expr(n, g):
            """events / calls inside one expression (statement-level, nested statements excluded)"""
            for x in walk(n, prune=lambda y: y.get("k") == "Lambda"):
                k = x.get("k")
                lhs = None
                if k == "Assign":
                    lhs = x["lhs"]
                elif k == "OpCall" and x.get("op") == "=" and len(x.get("a", [])) == 2:
                    lhs = x["a"][0]
                if lhs is not None:
                    d = self.resolve(lhs_root(lhs), env, inits, members)
                    if d is not None and d[0] == "S":
                        self.events.append(Event(d[1], d[2], tuple(g), fn, x.get("l"), chain))
                if k == "MCall" and x.get("obj") is not None and not x.get("cconst") and x.get("n") not in ACCESSORS:
                    d = self.resolve(x["obj"], env, inits, members)
                    if d is not None and "unique_ptr" not in x.get("callee", ""):
                        self.escapes.append(("the non-const member function %s is called on %s (not followed)" % (x.get("callee"), d), fn, x.get("l")))
                if k in ("Call", "MCall", "Construct", "TempObj") and x.get("a") is not None:
                    bound = {}
                    target = None
                    descs = [self.resolve(a, env, inits, members) for a in x.get("a", [])]
                    if any(d is not None for d in descs):
                        target = self.lookup(x)
                        if target is None:
                            cal = x.get("callee", "")
                            if not cal.startswith("std::") or "unique_ptr" not in cal:
                                pts = [fn.type(t) for t in x.get("pt", [])]
                                for d, pt in zip(descs, pts + [""] * len(descs)):
                                    if d is not None and not pt.lstrip().startswith("const "):
                                        self.escapes.append(("%s handed to %s, whose body is not in the fact base" % (d, cal), fn, x.get("l")))
                        else:
                            for d, p in zip(descs, target.params):
                                if d is not None and not target.type(p["t"]).lstrip().startswith("const "):
                                    bound[p["d"]] = d
                    if target is not None and bound:
                        self.analyse(target, bound, (), tuple(g), chain, depth + 1)

        def visit(n, g):
            if n is None:
                return
            k = n.get("k")
            if k == "Block":
                g = list(g)
                for st in n.get("s", []):
                    visit(st, g)
                    if st.get("k") == "If":
                        if self._exits(st.get("then")) and not self._exits(st.get("else")):
                            g = g + self.classify(st["c"], False, env, inits, members, fn)
                        elif self._exits(st.get("else")) and st.get("else") is not None and not self._exits(st.get("then")):
                            g = g + self.classify(st["c"], True, env, inits, members, fn)
                return
            if k == "If":
                expr(n.get("c"), g)
                visit(n.get("then"), list(g) + self.classify(n["c"], True, env, inits, members, fn))
                if n.get("else") is not None:
                    visit(n["else"], list(g) + self.classify(n["c"], False, env, inits, members, fn))
                return
            if k in ("For", "While", "Do", "ForRange"):
                for part in ("init", "c", "inc", "range"):
                    if n.get(part) is not None:
                        (visit if n[part].get("k") == "Decl" else expr)(n[part], g)
                visit(n.get("body"), g)
                return
            if k in ("Switch",):
                expr(n.get("c"), g)
                visit(n.get("body"), g)
                return
            if k in ("Case", "Default", "Attributed", "OMP"):
                visit(n.get("s") if n.get("s") is not None else n.get("body"), g)
                return
            if k == "Try":
                for c in children(n):
                    visit(c, g)
                return
            if k == "Decl":
                for v in n.get("vars", []):
                    if v.get("init") is not None:
                        expr(v["init"], g)
                return
            if k == "Return":
                expr(n.get("e"), g) if n.get("e") is not None else None
                return
            expr(n, g)

        visit(fn.body, list(guards))


def shape_dim(text):
    m = re.search(r"Shape::(?:Hypercube|Simplex)<(\d)>", text or "")
    return int(m.group(1)) if m else None


def call_sites(fns, lookup):
    """callee full name -> [(caller function, call node)] over the given functions"""
    out = {}
    for g in fns:
        for c in g.nodes():
            if featlib.is_call(c) and c.get("callee"):
                t = lookup(c)
                if t is not None:
                    out.setdefault(id(t), []).append((g, c))
    return out


# -------------------------------------------------------------------------------------------------------------------
# (3) a smart-pointer member that the function itself tests for null and dereferences on the null path
# -------------------------------------------------------------------------------------------------------------------

def _is_member(n, name):
    n = strip_casts(n)
    return n is not None and n.get("k") == "Member" and n.get("n") == name and n.get("b", {}).get("k") == "This"


def _null_test(c, name):
    """condition c tests the member: -> True if `c` holds exactly when the member is non-null, False if exactly when null, None otherwise"""
    c = strip_casts(c)
    if c is None:
        return None
    if c.get("k") == "Un" and c.get("op") == "!":
        r = _null_test(c["e"], name)
        return None if r is None else (not r)
    if _is_member(c, name):
        return True
    if c.get("k") == "MCall" and c.get("n") in ("operator bool", "get") and _is_member(c.get("obj"), name):
        return True
    if c.get("k") in ("Bin", "OpCall") and c.get("op") in ("==", "!="):
        a, b = (c["lhs"], c["rhs"]) if c["k"] == "Bin" else (c["a"] + [None, None])[:2]
        for x, y in ((a, b), (b, a)):
            if x is not None and y is not None and _null_test(x, name) is True and strip_casts(y).get("k") == "Null":
                return c["op"] == "!="
    return None


def null_path_derefs(fn, name):
    """statements of fn that dereference the smart-pointer member `name` on a path on which fn's own null test of that
    member has found it null and nothing has (re)established it since.  -> [(line, rendered statement, line of the test)]"""
    out = []

    def effects(st, states):
        """straight-line effects of one expression statement on the state set; reports derefs"""
        derefs, estab = [], None
        for x in walk(st, prune=lambda y: y.get("k") == "Lambda"):
            k = x.get("k")
            if k == "MCall" and x.get("n") == "reset" and _is_member(x.get("obj"), name):
                estab = "E" if x.get("a") and strip_casts(x["a"][0]).get("k") != "Null" else "N"
            if k in ("Assign",) and _is_member(x.get("lhs"), name):
                estab = "N" if strip_casts(x["rhs"]).get("k") == "Null" else "E"
            if k == "OpCall" and x.get("op") == "=" and x.get("a") and _is_member(x["a"][0], name):
                estab = "N" if len(x["a"]) > 1 and strip_casts(x["a"][1]).get("k") == "Null" else "E"
            if k == "OpCall" and x.get("op") in ("*", "->") and x.get("a") and _is_member(x["a"][0], name):
                derefs.append(x)
            if k == "Un" and x.get("op") == "*" and _is_member(x.get("e"), name):
                derefs.append(x)
            if k == "Member" and x.get("arrow") and _is_member(x.get("b"), name):
                derefs.append(x)
        if estab is None:
            for d in derefs:
                for s in states:
                    if s[0] == "N":
                        out.append((d.get("l"), featlib.render(st)[:160], s[1]))
            return states
        # establishment and use in one statement: the order is not modelled -> only the new state is recorded
        return {(estab, st.get("l"))}

    def run(st, states):
        """-> states after st (empty set: every path left the function)"""
        if st is None or not states:
            return states
        k = st.get("k")
        if k == "Block":
            for s in st.get("s", []):
                states = run(s, states)
            return states
        if k == "If":
            t = _null_test(st.get("c"), name)
            if t is None:
                states = effects(st["c"], states)
                a = run(st.get("then"), set(states))
                b = run(st.get("else"), set(states)) if st.get("else") is not None else set(states)
                return a | b
            yes = {("E", st.get("l"))} if t else {("N", st.get("l"))}
            no = {("N", st.get("l"))} if t else {("E", st.get("l"))}
            # a path that already knows the state keeps it where the test agrees
            a = run(st.get("then"), yes)
            b = run(st.get("else"), no) if st.get("else") is not None else no
            return a | b
        if k in ("Return", "Throw"):
            effects(st, states)
            return set()
        if k in ("For", "While", "Do", "ForRange"):
            for part in ("init", "c", "range"):
                if st.get(part) is not None:
                    states = effects(st[part], states)
            after = run(st.get("body"), set(states))
            return states | after
        if k in ("Switch",):
            return states | run(st.get("body"), set(states))
        if k in ("Case", "Default", "Attributed", "OMP"):
            return run(st.get("s") if st.get("s") is not None else st.get("body"), states)
        if featlib.is_call(st) and st.get("noreturn"):
            return set()
        return effects(st, states)

    run(fn.body, {("U", None)})
    return out
