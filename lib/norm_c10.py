"""norm_c10: helpers of the C10 check that follow calls into repo helpers.

(1) DefEvents - "which index sets <m,f> of one IndexSetHolder does a function define, and under which entity-count
    conditions": an interprocedural walk over the statement trees (callee bodies are entered with the holder / the
    index-set arguments bound to the callee's parameters; reference locals are resolved to what they name; early-outs
    `if(c) return;` guard everything after them; `!`, `&&`, `||` are split by polarity).  Only conditions that query an
    entity count (`get_num_entities`) matter for the coverage rule; data-dependent failure exits (`if(!found) return false`)
    are neutral.
(2) call_sites - callers of a function inside one file set (for following a helper back to the loops that use it).
"""
import re

import featlib
from featlib import walk, children

ACCESSORS = ("get_index_set", "get_index_set_wrapper", "get_num_entities", "get_index_bound", "get_num_indices", "get_indices", "bytes", "name")


def strip_casts(n):
    while n is not None and (n.get("k") == "Cast" or (n.get("k") == "Call" and n.get("callee", "").split("<")[0] in ("std::move", "std::forward") and n.get("a"))):
        n = n["e"] if n.get("k") == "Cast" else n["a"][0]
    return n


def trailing_targs(cfull):
    """integer template arguments at the end of a full callee name: `...::get_index_set<2, 0>` -> [2, 0]"""
    m = re.search(r"<([^<>]*)>$", cfull or "")
    if not m:
        return None
    out = []
    for p in m.group(1).split(","):
        p = p.strip()
        if not re.match(r"^-?\d+$", p):
            return None
        out.append(int(p))
    return out


class Event:
    __slots__ = ("m", "f", "guards", "fn", "line", "chain")

    def __init__(self, m, f, guards, fn, line, chain):
        self.m, self.f, self.guards, self.fn, self.line, self.chain = m, f, guards, fn, line, chain


class DefEvents:
    """collect definition events of the index sets of one tracked IndexSetHolder"""

    MAX_DEPTH = 10
    store_events = True       # stores into a tracked index set are definition events
    bind_const = False        # follow tracked objects into const parameters too (readers)

    def node_event(self, x, env, inits, members, guards, fn, chain):
        """hook for subclasses: further events at node x"""

    def __init__(self, facts):
        self.facts = facts
        self.by_decl = {}
        for f in facts.functions:
            if f.tk == "pattern" or f.body is None:
                continue
            self.by_decl.setdefault((f.qn, f.d.get("decl")), f)
        self.events = []
        self.escapes = []       # (text, fn, line): the tracked holder / one of its sets leaves the analysed code mutably
        self.seen = set()

    # ---- callee lookup ------------------------------------------------------------------------------------------
    def lookup(self, call):
        f = self.by_decl.get((call.get("callee"), call.get("cdecl")))
        if f is not None:
            return f
        cands = [g for (qn, _), g in self.by_decl.items() if qn == call.get("callee") and g.full == call.get("cfull") and len(g.params) == len(call.get("pn", []))]
        return cands[0] if len(cands) == 1 else None

    # ---- what does an expression denote -------------------------------------------------------------------------
    def resolve(self, n, env, inits, members, depth=0):
        """-> ('H',) tracked holder | ('S', m, f) index set <m,f> of it | ('W', m) its index-set wrapper of dimension m | None"""
        n = strip_casts(n)
        if n is None or depth > 12:
            return None
        k = n.get("k")
        if k == "Un" and n.get("op") in ("*", "&"):
            return self.resolve(n["e"], env, inits, members, depth + 1)
        if k == "OpCall" and n.get("op") in ("*", "->") and n.get("a"):
            return self.resolve(n["a"][0], env, inits, members, depth + 1)
        if k == "Ref":
            if n.get("d") in env:
                return env[n["d"]]
            if n.get("dk") == "local" and n.get("d") in inits:
                var = inits[n["d"]]
                if var.get("ref") or "*" in (var.get("_ty") or ""):
                    return self.resolve(var.get("init"), env, inits, members, depth + 1)
            return None
        if k == "Member" and n.get("b", {}).get("k") == "This":
            return ("H",) if n.get("n") in members else None
        if k == "MCall" and n.get("obj") is not None:
            nm = n.get("n")
            if nm == "get" and "unique_ptr" in n.get("callee", ""):
                return self.resolve(n["obj"], env, inits, members, depth + 1)
            if nm in ("get_index_set", "get_index_set_wrapper"):
                o = self.resolve(n["obj"], env, inits, members, depth + 1)
                ta = trailing_targs(n.get("cfull"))
                if o is None or ta is None:
                    return None
                if o == ("H",) and nm == "get_index_set" and len(ta) == 2:
                    return ("S", ta[0], ta[1])
                if o == ("H",) and nm == "get_index_set_wrapper" and len(ta) == 1:
                    return ("W", ta[0])
                if o[0] == "W" and nm == "get_index_set" and len(ta) == 1:
                    return ("S", o[1], ta[0])
            return None
        return None

    # ---- entity-count conditions --------------------------------------------------------------------------------
    def count_dim(self, q, env, inits, members):
        """dimension of the entities counted by the query node q (an MCall get_num_entities), or None"""
        obj = strip_casts(q.get("obj"))
        if q.get("a"):
            a = strip_casts(q["a"][0])
            if a is not None and a.get("k") == "Int":
                return int(a["v"])
            if a is not None and a.get("k") == "Ref" and "v" in a:
                return int(a["v"])
            return None
        seen = 0
        while obj is not None and seen < 12:
            seen += 1
            d = self.resolve(obj, env, inits, members)
            if d is not None and d[0] == "S":
                return d[1]
            obj = strip_casts(obj)
            k = obj.get("k")
            if k == "MCall" and obj.get("n") in ("get_index_set", "get_target_set"):
                ta = trailing_targs(obj.get("cfull"))
                if ta and ((obj["n"] == "get_index_set" and len(ta) == 2) or (obj["n"] == "get_target_set" and len(ta) == 1)):
                    return ta[0]
                return None
            if k == "Ref" and obj.get("dk") == "local" and obj.get("d") in inits and inits[obj["d"]].get("init") is not None:
                obj = inits[obj["d"]]["init"]
                continue
            if (k == "Un" and obj.get("op") in ("*", "&")):
                obj = obj["e"]
                continue
            if k == "OpCall" and obj.get("op") in ("*", "->") and obj.get("a"):
                obj = obj["a"][0]
                continue
            return None
        return None

    def count_query(self, n, env, inits, members, depth=0):
        """n is (a local copy of) an entity-count query -> ('q', dim|None) ; else None"""
        n = strip_casts(n)
        if n is None or depth > 6:
            return None
        if n.get("k") == "MCall" and n.get("n") == "get_num_entities":
            return ("q", self.count_dim(n, env, inits, members))
        if n.get("k") == "Ref" and n.get("dk") == "local" and n.get("d") in inits and not inits[n["d"]].get("ref"):
            return self.count_query(inits[n["d"]].get("init"), env, inits, members, depth + 1)
        return None

    def has_count_query(self, n, inits, depth=0):
        for x in walk(n):
            if x.get("k") == "MCall" and x.get("n") == "get_num_entities":
                return True
            if depth < 4 and x.get("k") == "Ref" and x.get("dk") == "local" and x.get("d") in inits and not inits[x["d"]].get("ref") and inits[x["d"]].get("init") is not None:
                if self.has_count_query(inits[x["d"]]["init"], inits, depth + 1):
                    return True
        return False

    @staticmethod
    def _const(n):
        n = strip_casts(n)
        while n is not None and n.get("k") in ("Construct", "TempObj") and len(n.get("a", [])) == 1:
            n = strip_casts(n["a"][0])
        if n is None:
            return None
        if n.get("k") == "Int":
            return int(n["v"])
        if n.get("k") == "Ref" and "v" in n:
            return int(n["v"])
        return None

    def classify(self, cond, polarity, env, inits, members, fn):
        """guards implied by `cond == polarity`: list of ('count', dim, 'zero'|'nonzero', text, fn, line) / ('unknown', text, fn, line)"""
        c = strip_casts(cond)
        if c is None:
            return []
        text = ("" if polarity else "!(") + featlib.render(c) + ("" if polarity else ")")
        line = c.get("l")
        if c.get("k") == "Un" and c.get("op") == "!":
            return self.classify(c["e"], not polarity, env, inits, members, fn)
        if c.get("k") == "Bin" and c.get("op") in ("&&", "||"):
            conj = (c["op"] == "&&") == polarity
            if conj:
                return self.classify(c["lhs"], polarity, env, inits, members, fn) + self.classify(c["rhs"], polarity, env, inits, members, fn)
            if self.has_count_query(c, inits):
                # a disjunction holds already if one side holds: both sides the same count guard -> that guard
                ga = self.classify(c["lhs"], polarity, env, inits, members, fn)
                gb = self.classify(c["rhs"], polarity, env, inits, members, fn)
                if ga and gb and [g[:3] for g in ga] == [g[:3] for g in gb]:
                    return ga
                return [("unknown", text, fn, line)]
            return []
        if not self.has_count_query(c, inits):
            return []          # not a condition on entity counts: neutral for the coverage rule
        holds = None           # set of count classes {0, '+'} for which the condition is true
        if c.get("k") == "Bin" and c.get("op") in ("==", "!=", "<", ">", "<=", ">="):
            for a, b, op in ((c["lhs"], c["rhs"], c["op"]), (c["rhs"], c["lhs"], {"<": ">", ">": "<", "<=": ">=", ">=": "<="}.get(c["op"], c["op"]))):
                q = self.count_query(a, env, inits, members)
                v = self._const(b)
                if q is not None and v is not None:
                    truth = {"==": lambda x: x == v, "!=": lambda x: x != v, "<": lambda x: x < v, ">": lambda x: x > v, "<=": lambda x: x <= v, ">=": lambda x: x >= v}[op]
                    at0 = truth(0)
                    pos = {truth(x) for x in (1, 2, 3, 1000, 10 ** 9)}
                    if len(pos) == 1 and at0 != list(pos)[0]:
                        holds = ("zero" if at0 else "nonzero", q[1])
                    break
        else:
            q = self.count_query(c, env, inits, members)
            if q is not None:
                holds = ("nonzero", q[1])
        if holds is None or holds[1] is None:
            return [("unknown", text, fn, line)]
        side = holds[0] if polarity else ("zero" if holds[0] == "nonzero" else "nonzero")
        return [("count", holds[1], side, text, fn, line)]

    # ---- statement walk -----------------------------------------------------------------------------------------
    @staticmethod
    def _exits(st):
        if st is None:
            return False
        if st.get("k") in ("Return", "Throw", "Break", "Continue"):
            return True           # Break/Continue leave the enclosing loop body: the rest of that block is guarded
        if featlib.is_call(st) and st.get("noreturn"):
            return True
        if st.get("k") == "Block":
            return any(DefEvents._exits(x) for x in st.get("s", []))
        return False

    @staticmethod
    def _local_inits(fn):
        out = {}
        for n in fn.nodes():
            if n.get("k") == "Var":
                v = dict(n)
                v["_ty"] = fn.type(n["t"]) if "t" in n else ""
                out[n["d"]] = v
        return out

    def analyse(self, fn, env, members=(), guards=(), chain=(), depth=0):
        key = (fn.full, tuple(sorted(env.items())), tuple(g[:3] for g in guards))
        if key in self.seen or depth > self.MAX_DEPTH:
            return
        self.seen.add(key)
        inits = self._local_inits(fn)
        chain = chain + (fn,)

        def lhs_root(n):
            n = strip_casts(n)
            while n is not None:
                if n.get("k") == "Index":
                    n = strip_casts(n["b"])
                elif n.get("k") == "OpCall" and n.get("op") == "[]" and n.get("a"):
                    n = strip_casts(n["a"][0])
                else:
                    break
            return n

        def expr(n, g):
            """events / calls inside one expression (statement-level, nested statements excluded)"""
            for x in walk(n, prune=lambda y: y.get("k") == "Lambda"):
                k = x.get("k")
                lhs = None
                if k == "Assign":
                    lhs = x["lhs"]
                elif k == "OpCall" and x.get("op") == "=" and len(x.get("a", [])) == 2:
                    lhs = x["a"][0]
                if lhs is not None and self.store_events:
                    d = self.resolve(lhs_root(lhs), env, inits, members)
                    if d is not None and d[0] == "S":
                        self.events.append(Event(d[1], d[2], tuple(g), fn, x.get("l"), chain))
                self.node_event(x, env, inits, members, tuple(g), fn, chain)
                if k == "MCall" and x.get("obj") is not None and not x.get("cconst") and x.get("n") not in ACCESSORS:
                    d = self.resolve(x["obj"], env, inits, members)
                    if d is not None and "unique_ptr" not in x.get("callee", ""):
                        self.escapes.append(("the non-const member function %s is called on %s (not followed)" % (x.get("callee"), d), fn, x.get("l")))
                if k in ("Call", "MCall", "Construct", "TempObj") and x.get("a") is not None:
                    bound = {}
                    target = None
                    descs = [self.resolve(a, env, inits, members) for a in x.get("a", [])]
                    if any(d is not None for d in descs):
                        target = self.lookup(x)
                        if target is None:
                            cal = x.get("callee", "")
                            if not cal.startswith("std::") or "unique_ptr" not in cal:
                                pts = [fn.type(t) for t in x.get("pt", [])]
                                for d, pt in zip(descs, pts + [""] * len(descs)):
                                    if d is not None and not pt.lstrip().startswith("const "):
                                        self.escapes.append(("%s handed to %s, whose body is not in the fact base" % (d, cal), fn, x.get("l")))
                        else:
                            for d, p in zip(descs, target.params):
                                if d is not None and (self.bind_const or not target.type(p["t"]).lstrip().startswith("const ")):
                                    bound[p["d"]] = d
                    if target is not None and bound:
                        self.analyse(target, bound, (), tuple(g), chain, depth + 1)

        def visit(n, g):
            if n is None:
                return
            k = n.get("k")
            if k == "Block":
                g = list(g)
                for st in n.get("s", []):
                    visit(st, g)
                    if st.get("k") == "If":
                        if self._exits(st.get("then")) and not self._exits(st.get("else")):
                            g = g + self.classify(st["c"], False, env, inits, members, fn)
                        elif self._exits(st.get("else")) and st.get("else") is not None and not self._exits(st.get("then")):
                            g = g + self.classify(st["c"], True, env, inits, members, fn)
                return
            if k == "If":
                expr(n.get("c"), g)
                visit(n.get("then"), list(g) + self.classify(n["c"], True, env, inits, members, fn))
                if n.get("else") is not None:
                    visit(n["else"], list(g) + self.classify(n["c"], False, env, inits, members, fn))
                return
            if k in ("For", "While", "Do", "ForRange"):
                for part in ("init", "c", "inc", "range"):
                    if n.get(part) is not None:
                        (visit if n[part].get("k") == "Decl" else expr)(n[part], g)
                visit(n.get("body"), g)
                return
            if k in ("Switch",):
                expr(n.get("c"), g)
                visit(n.get("body"), g)
                return
            if k in ("Case", "Default", "Attributed", "OMP"):
                visit(n.get("s") if n.get("s") is not None else n.get("body"), g)
                return
            if k == "Try":
                for c in children(n):
                    visit(c, g)
                return
            if k == "Decl":
                for v in n.get("vars", []):
                    if v.get("init") is not None:
                        expr(v["init"], g)
                return
            if k == "Return":
                expr(n.get("e"), g) if n.get("e") is not None else None
                return
            expr(n, g)

        visit(fn.body, list(guards))


def shape_dim(text):
    m = re.search(r"Shape::(?:Hypercube|Simplex)<(\d)>", text or "")
    return int(m.group(1)) if m else None


def call_sites(fns, lookup):
    """callee full name -> [(caller function, call node)] over the given functions"""
    out = {}
    for g in fns:
        for c in g.nodes():
            if featlib.is_call(c) and c.get("callee"):
                t = lookup(c)
                if t is not None:
                    out.setdefault(id(t), []).append((g, c))
    return out


# -------------------------------------------------------------------------------------------------------------------
# (3) a smart-pointer member that the function itself tests for null and dereferences on the null path
# -------------------------------------------------------------------------------------------------------------------

def _is_member(n, name):
    n = strip_casts(n)
    return n is not None and n.get("k") == "Member" and n.get("n") == name and n.get("b", {}).get("k") == "This"


def _null_test(c, name):
    """condition c tests the member: -> True if `c` holds exactly when the member is non-null, False if exactly when null, None otherwise"""
    c = strip_casts(c)
    if c is None:
        return None
    if c.get("k") == "Un" and c.get("op") == "!":
        r = _null_test(c["e"], name)
        return None if r is None else (not r)
    if _is_member(c, name):
        return True
    if c.get("k") == "MCall" and c.get("n") in ("operator bool", "get") and _is_member(c.get("obj"), name):
        return True
    if c.get("k") in ("Bin", "OpCall") and c.get("op") in ("==", "!="):
        a, b = (c["lhs"], c["rhs"]) if c["k"] == "Bin" else (c["a"] + [None, None])[:2]
        for x, y in ((a, b), (b, a)):
            if x is not None and y is not None and _null_test(x, name) is True and strip_casts(y).get("k") == "Null":
                return c["op"] == "!="
    return None


def null_path_derefs(fn, name):
    """statements of fn that dereference the smart-pointer member `name` on a path on which fn's own null test of that
    member has found it null and nothing has (re)established it since.  -> [(line, rendered statement, line of the test)]"""
    out = []

    def effects(st, states):
        """straight-line effects of one expression statement on the state set; reports derefs"""
        derefs, estab = [], None
        for x in walk(st, prune=lambda y: y.get("k") == "Lambda"):
            k = x.get("k")
            if k == "MCall" and x.get("n") == "reset" and _is_member(x.get("obj"), name):
                estab = "E" if x.get("a") and strip_casts(x["a"][0]).get("k") != "Null" else "N"
            if k in ("Assign",) and _is_member(x.get("lhs"), name):
                estab = "N" if strip_casts(x["rhs"]).get("k") == "Null" else "E"
            if k == "OpCall" and x.get("op") == "=" and x.get("a") and _is_member(x["a"][0], name):
                estab = "N" if len(x["a"]) > 1 and strip_casts(x["a"][1]).get("k") == "Null" else "E"
            if k == "OpCall" and x.get("op") in ("*", "->") and x.get("a") and _is_member(x["a"][0], name):
                derefs.append(x)
            if k == "Un" and x.get("op") == "*" and _is_member(x.get("e"), name):
                derefs.append(x)
            if k == "Member" and x.get("arrow") and _is_member(x.get("b"), name):
                derefs.append(x)
        if estab is None:
            for d in derefs:
                for s in states:
                    if s[0] == "N":
                        out.append((d.get("l"), featlib.render(st)[:160], s[1]))
            return states
        # establishment and use in one statement: the order is not modelled -> only the new state is recorded
        return {(estab, st.get("l"))}

    def run(st, states):
        """-> states after st (empty set: every path left the function)"""
        if st is None or not states:
            return states
        k = st.get("k")
        if k == "Block":
            for s in st.get("s", []):
                states = run(s, states)
            return states
        if k == "If":
            t = _null_test(st.get("c"), name)
            if t is None:
                states = effects(st["c"], states)
                a = run(st.get("then"), set(states))
                b = run(st.get("else"), set(states)) if st.get("else") is not None else set(states)
                return a | b
            yes = {("E", st.get("l"))} if t else {("N", st.get("l"))}
            no = {("N", st.get("l"))} if t else {("E", st.get("l"))}
            # a path that already knows the state keeps it where the test agrees
            a = run(st.get("then"), yes)
            b = run(st.get("else"), no) if st.get("else") is not None else no
            return a | b
        if k in ("Return", "Throw"):
            effects(st, states)
            return set()
        if k in ("For", "While", "Do", "ForRange"):
            for part in ("init", "c", "range"):
                if st.get(part) is not None:
                    states = effects(st[part], states)
            after = run(st.get("body"), set(states))
            return states | after
        if k in ("Switch",):
            return states | run(st.get("body"), set(states))
        if k in ("Case", "Default", "Attributed", "OMP"):
            return run(st.get("s") if st.get("s") is not None else st.get("body"), states)
        if featlib.is_call(st) and st.get("noreturn"):
            return set()
        return effects(st, states)

    run(fn.body, {("U", None)})
    return out


# -------------------------------------------------------------------------------------------------------------------
# (4) application of a mesh permutation to the target sets of a mesh part: which dimensions, under which conditions
# -------------------------------------------------------------------------------------------------------------------

def _cint(n):
    n = strip_casts(n)
    if n is None:
        return None
    if n.get("k") == "Int":
        return int(n["v"])
    if n.get("k") == "Ref" and "v" in n:
        return int(n["v"])
    if n.get("k") == "Bin" and n.get("op") in ("+", "-", "<", ">", "<=", ">=", "==", "!="):
        a, b = _cint(n["lhs"]), _cint(n["rhs"])
        if a is not None and b is not None:
            return {"+": a + b, "-": a - b, "<": int(a < b), ">": int(a > b), "<=": int(a <= b), ">=": int(a >= b), "==": int(a == b), "!=": int(a != b)}[n["op"]]
    if n.get("k") == "Cond":
        c = _cint(n["c"])
        if c is not None:
            return _cint(n["then"] if c else n["else"])
    if n.get("k") == "Bool":
        return int(bool(n["v"]))
    return None


class PermEvents(DefEvents):
    """tracked: ('P',) a MeshPermutation object, ('A', kind) its whole forward / inverse permutation array, ('E', kind, d) the
    permutation of dimension d.  Events: TargetSet::permute_map(x) with x = ('E', kind, d)  ->  Event(m=d, f=0 for the inverse /
    1 for the forward permutation).  Guards: emptiness tests of P (all dimensions, d = -1) or of one dimension's permutation."""

    store_events = False
    bind_const = True

    def resolve(self, n, env, inits, members, depth=0):
        n = strip_casts(n)
        if n is None or depth > 12:
            return None
        k = n.get("k")
        if k == "Un" and n.get("op") in ("*", "&"):
            return self.resolve(n["e"], env, inits, members, depth + 1)
        if k == "Ref":
            if n.get("d") in env:
                return env[n["d"]]
            if n.get("dk") == "local" and n.get("d") in inits and inits[n["d"]].get("init") is not None:
                var = inits[n["d"]]
                if var.get("ref") or "*" in (var.get("_ty") or "") or var.get("const") or (var.get("_ty") or "").lstrip().startswith("const "):
                    return self.resolve(var["init"], env, inits, members, depth + 1)
            return None
        if k in ("Construct", "TempObj") and len(n.get("a", [])) == 1 and n.get("copy"):
            return self.resolve(n["a"][0], env, inits, members, depth + 1)
        if k == "MCall" and n.get("obj") is not None:
            o = self.resolve(n["obj"], env, inits, members, depth + 1)
            if o is None:
                return None
            nm = n.get("n")
            if o == ("P",):
                if nm in ("get_inv_perms", "get_perms"):
                    return ("A", "inv" if nm == "get_inv_perms" else "fwd")
                if nm in ("get_inv_perm", "get_perm") and n.get("a"):
                    d = _cint(n["a"][0])
                    return ("E", "inv" if nm == "get_inv_perm" else "fwd", d) if d is not None else None
            if o[0] == "A":
                if nm == "at" and n.get("a"):
                    d = _cint(n["a"][0])
                    return ("E", o[1], d) if d is not None else None
                if nm in ("front",):
                    return ("E", o[1], 0)
            return None
        if k == "OpCall" and n.get("op") == "[]" and len(n.get("a", [])) == 2:
            o = self.resolve(n["a"][0], env, inits, members, depth + 1)
            d = _cint(n["a"][1])
            if o is not None and o[0] == "A" and d is not None:
                return ("E", o[1], d)
        return None

    def node_event(self, x, env, inits, members, guards, fn, chain):
        if x.get("k") == "MCall" and x.get("n") == "permute_map" and re.search(r"(^|::)TargetSet::permute_map$", x.get("callee", "")) and x.get("a"):
            d = self.resolve(x["a"][0], env, inits, members)
            if d is not None and d[0] == "E":
                # dimension of the target set the permutation is applied to
                lvl = None
                o = strip_casts(x.get("obj"))
                if o is not None and o.get("k") == "MCall" and o.get("n") == "get_target_set":
                    ta = trailing_targs(o.get("cfull"))
                    lvl = ta[0] if ta and len(ta) == 1 else None
                elif o is not None and o.get("k") == "Member" and o.get("b", {}).get("k") == "This" and "TargetSetHolder<" in fn.cls:
                    lvl = 0 if "Shape::Vertex" in fn.cls else shape_dim(fn.cls)
                if lvl is not None and lvl != d[2]:
                    self.events.append(Event(lvl, 2 + d[2], guards, fn, x.get("l"), chain))     # f >= 2: permutation of dimension f-2 applied to target set <lvl>
                else:
                    self.events.append(Event(d[2], 0 if d[1] == "inv" else 1, guards, fn, x.get("l"), chain))
            elif d is not None or self._mentions(x["a"][0], env, inits, members):
                self.escapes.append(("TargetSet::permute_map receives `%s`, whose dimension is not a constant this rule can fold" % featlib.render(x["a"][0]), fn, x.get("l")))

    def _mentions(self, n, env, inits, members):
        for x in walk(n):
            if x.get("k") in ("Ref", "MCall", "OpCall") and self.resolve(x, env, inits, members) is not None:
                return True
        return False

    def classify(self, cond, polarity, env, inits, members, fn):
        c = strip_casts(cond)
        if c is None:
            return []
        text = ("" if polarity else "!(") + featlib.render(c) + ("" if polarity else ")")
        line = c.get("l")
        if c.get("k") == "Un" and c.get("op") == "!":
            return self.classify(c["e"], not polarity, env, inits, members, fn)
        if c.get("k") == "Bin" and c.get("op") in ("&&", "||"):
            if (c["op"] == "&&") == polarity:
                return self.classify(c["lhs"], polarity, env, inits, members, fn) + self.classify(c["rhs"], polarity, env, inits, members, fn)
            return [("unknown", text, fn, line)] if self._mentions(c, env, inits, members) else []
        if not self._mentions(c, env, inits, members):
            return []
        # X.empty() / X.size() == 0 / X.size() != 0 ...
        test = None            # (descriptor, condition true means empty?)
        if c.get("k") == "MCall" and c.get("n") == "empty":
            test = (self.resolve(c.get("obj"), env, inits, members), True)
        elif c.get("k") == "Bin" and c.get("op") in ("==", "!=", ">", "<"):
            for a, b, op in ((c["lhs"], c["rhs"], c["op"]), (c["rhs"], c["lhs"], {"<": ">", ">": "<"}.get(c["op"], c["op"]))):
                a = strip_casts(a)
                if a is not None and a.get("k") == "MCall" and a.get("n") == "size" and _cint(b) == 0 and op in ("==", "!=", ">"):
                    test = (self.resolve(a.get("obj"), env, inits, members), op == "==")
        if test is None or test[0] is None or test[0][0] not in ("P", "E"):
            return [("unknown", text, fn, line)]
        dim = -1 if test[0][0] == "P" else test[0][2]
        empty_side = test[1] == polarity
        return [("count", dim, "zero" if empty_side else "nonzero", text, fn, line)]


# -------------------------------------------------------------------------------------------------------------------
# (5) boundary facet selection: pointwise semantics of a facet counter array
# -------------------------------------------------------------------------------------------------------------------

class NotPointwise(Exception):
    pass


def facet_selection(fn, facts=None):
    """BoundaryFaceComputer::compute_all / compute_masks: the function counts, per facet, the adjacent cells in a counter array
    (cleared, then incremented once per (cell, local facet) incidence), optionally post-processes the counters facet by facet
    using a 0/1 facet mask parameter, and selects facets by a predicate on the counter (push_back of the facet index).
    -> (selected: {(cells, masked): bool}, value: {(cells, masked): int}, info dict); raises NotPointwise for anything else."""
    # ---- helpers that receive the counter array are inlined: their top-level statements take the place of the call, their
    #      parameters are aliases of the caller's arguments (depth <= 3)
    alias = {}

    def canon(d):
        seen = 0
        while d in alias and seen < 8:
            d, seen = alias[d], seen + 1
        return d
    flat = []              # (statement, function it belongs to)

    def flatten(f, depth):
        for st in (f.body.get("s", []) if f.body.get("k") == "Block" else [f.body]):
            t = None
            if featlib.is_call(st) and st.get("k") in ("Call", "MCall") and facts is not None and depth < 3:
                t = facts.by_decl(st.get("cdecl")) if st.get("cdecl") is not None else None
                if t is not None and (t.tk == "pattern" or t.body is None or t is f):
                    t = None
            bound = False
            if t is not None:
                for a, p_ in zip(st.get("a", []), t.params):
                    a = strip_casts(a)
                    pt = (t.type(p_["t"]) or "")
                    if a is not None and a.get("k") == "Ref" and re.search(r"std::vector<int>\s*&$", pt.strip()) and not pt.lstrip().startswith("const "):
                        bound = True
                if bound:
                    for a, p_ in zip(st.get("a", []), t.params):
                        a = strip_casts(a)
                        if a is not None and a.get("k") == "Ref":
                            alias[p_["d"]] = a["d"]
                    flatten(t, depth + 1)
                    continue
            flat.append((st, f))
    flatten(fn, 0)
    fns_involved = []
    for _, f_ in flat:
        if f_ not in fns_involved:
            fns_involved.append(f_)

    inits = {}
    for f_ in fns_involved:
        for n in f_.nodes():
            if n.get("k") == "Var":
                inits[n["d"]] = n
    fmask = [p for p in fn.params if re.match(r"^const std::vector<int>\s*&$", (fn.type(p["t"]) or "").strip())]
    if len(fmask) > 1:
        raise NotPointwise("more than one const std::vector<int>& parameter")
    F = fmask[0]["d"] if fmask else None
    domain = [(c, m) for c in (1, 2) for m in ((0, 1) if F is not None else (0,))]

    def is_elem(n, arr, var):
        n = strip_casts(n)
        if n is None:
            return False
        if n.get("k") == "OpCall" and n.get("op") == "[]" and len(n.get("a", [])) == 2:
            b, i = strip_casts(n["a"][0]), strip_casts(n["a"][1])
        elif n.get("k") == "MCall" and n.get("n") == "at" and n.get("a"):
            b, i = strip_casts(n.get("obj")), strip_casts(n["a"][0])
        elif n.get("k") == "Index":
            b, i = strip_casts(n["b"]), strip_casts(n["idx"])
        else:
            return False
        return b is not None and b.get("k") == "Ref" and canon(b.get("d")) == arr and (var is None or (i is not None and i.get("k") == "Ref" and i.get("d") == var))

    # the counter array: the std::vector<int> that is incremented at an index looked up in an index set
    A = None
    for n, f_ in [(x, f_) for st_, f_ in flat for x in walk(st_)]:
        tgt = None
        if n.get("k") == "Un" and n.get("op") == "++":
            tgt = n["e"]
        elif n.get("k") == "Assign" and n.get("op") == "+=" and _cint(n["rhs"]) == 1:
            tgt = n["lhs"]
        t = strip_casts(tgt) if tgt is not None else None
        if t is not None and t.get("k") == "OpCall" and t.get("op") == "[]" and len(t.get("a", [])) == 2:
            b, i = strip_casts(t["a"][0]), strip_casts(t["a"][1])
            if b.get("k") == "Ref" and "std::vector<int>" in (f_.ntype(b) or "") and i.get("k") in ("OpCall", "MCall") and "IndexSet<" in i.get("callee", ""):
                if A is not None and A != canon(b["d"]):
                    raise NotPointwise("two counter arrays")
                A = canon(b["d"])
    if A is None:
        raise NotPointwise("no facet counter array (incremented at an index-set entry) found")

    def touches(n, d):
        return any(x.get("k") == "Ref" and canon(x.get("d")) == d for x in walk(n))

    val = None           # {(c,m): int}
    selected = {k: False for k in domain}
    info = {"select_lines": [], "post_lines": [], "faces": None}
    cleared = False

    def ev(n, env):
        n = strip_casts(n)
        k = n.get("k")
        if k == "Int":
            return int(n["v"])
        if k == "Bool":
            return int(bool(n["v"]))
        if k in ("Construct", "TempObj") and len(n.get("a", [])) == 1:
            return ev(n["a"][0], env)
        if is_elem(n, A, env["var"]):
            return env["a"]
        if F is not None and is_elem(n, F, env["var"]):
            return env["m"]
        if k == "Ref" and "v" in n:
            return int(n["v"])
        if k == "Ref" and n.get("d") in env.get("locals", {}):
            return env["locals"][n["d"]]
        if k == "Un" and n.get("op") in ("!", "-", "+"):
            v = ev(n["e"], env)
            return int(not v) if n["op"] == "!" else (-v if n["op"] == "-" else v)
        if k == "Cond":
            return ev(n["then"], env) if ev(n["c"], env) else ev(n["else"], env)
        if k == "Bin":
            op = n["op"]
            if op == "&&":
                return int(bool(ev(n["lhs"], env)) and bool(ev(n["rhs"], env)))
            if op == "||":
                return int(bool(ev(n["lhs"], env)) or bool(ev(n["rhs"], env)))
            a, b = ev(n["lhs"], env), ev(n["rhs"], env)
            if op in ("/", "%") and b == 0:
                raise NotPointwise("division by zero in a facet expression")
            return {"+": a + b, "-": a - b, "*": a * b, "/": int(a / b) if b else 0, "%": a % b if b else 0, "==": int(a == b), "!=": int(a != b), "<": int(a < b), ">": int(a > b),
                    "<=": int(a <= b), ">=": int(a >= b), "&": a & b, "|": a | b, "^": a ^ b}[op]
        if k == "Call" and n.get("callee", "").split("<")[0] in ("std::max", "std::min", "FEAT::Math::max", "FEAT::Math::min") and len(n.get("a", [])) == 2:
            a, b = ev(n["a"][0], env), ev(n["a"][1], env)
            return max(a, b) if n["callee"].split("<")[0].endswith("max") else min(a, b)
        raise NotPointwise("expression `%s` (line %s) is not a pointwise function of the facet's counter and mask" % (featlib.render(n), n.get("l")))

    def run_body(st, env):
        """executes one facet's loop body; env['a'] is updated; returns False after a continue"""
        if st is None:
            return True
        k = st.get("k")
        if k == "Block":
            for s_ in st.get("s", []):
                if not run_body(s_, env):
                    return False
            return True
        if k == "If":
            c = ev(st["c"], env) if (touches(st["c"], A) or (F is not None and touches(st["c"], F)) or any(touches(st["c"], d) for d in env.get("locals", {}))) else None
            if c is None:
                if touches(st, A) or (info["faces"] is not None and touches(st, info["faces"])) or any(x.get("k") == "MCall" and x.get("n") == "push_back" for x in walk(st)):
                    raise NotPointwise("facet statement under the condition `%s` (line %s), which does not depend on the facet's counter/mask" % (featlib.render(st["c"]), st.get("l")))
                return True
            return run_body(st.get("then") if c else st.get("else"), env)
        if k == "Continue":
            return False
        if k == "Decl":
            for v in st.get("vars", []):
                if v.get("init") is not None and (touches(v["init"], A) or (F is not None and touches(v["init"], F))):
                    if v.get("ref"):
                        raise NotPointwise("reference alias of a facet entry (line %s)" % st.get("l"))
                    env.setdefault("locals", {})[v["d"]] = ev(v["init"], env)
            return True
        if k in ("Assign",) and is_elem(st["lhs"], A, env["var"]):
            r = ev(st["rhs"], env)
            op = st["op"]
            env["a"] = r if op == "=" else {"+=": env["a"] + r, "-=": env["a"] - r, "*=": env["a"] * r, "&=": env["a"] & r, "|=": env["a"] | r}.get(op)
            if env["a"] is None:
                raise NotPointwise("compound assignment %s" % op)
            env["wrote"] = st.get("l")
            return True
        if k == "Un" and st.get("op") in ("++", "--") and is_elem(st["e"], A, env["var"]):
            env["a"] += 1 if st["op"] == "++" else -1
            env["wrote"] = st.get("l")
            return True
        if k == "MCall" and st.get("n") in ("push_back", "emplace_back") and st.get("a"):
            a0 = strip_casts(st["a"][0])
            o = strip_casts(st.get("obj"))
            if a0 is not None and a0.get("k") == "Ref" and a0.get("d") == env["var"] and o is not None and o.get("k") == "Ref":
                if info["faces"] not in (None, o["d"]):
                    raise NotPointwise("facet indices are collected in two containers")
                info["faces"] = o["d"]
                env["selected"] = True
                env["sel_line"] = st.get("l")
                return True
        if touches(st, A) and any(x.get("k") in ("Assign", "Un") for x in walk(st)):
            raise NotPointwise("statement `%s` (line %s) modifies the facet counters in a form this rule does not model" % (featlib.render(st)[:80], st.get("l")))
        return True            # counters of other things, assertions, ...

    def loop_var_over_all(st):
        """for(T v(0); v < size-of(A or F); ++v) -> decl id of v"""
        init, c, inc = st.get("init"), strip_casts(st.get("c")), st.get("inc")
        if not (init and init.get("k") == "Decl" and len(init["vars"]) == 1 and _cint(init["vars"][0].get("init")) == 0 and c is not None and c.get("k") == "Bin" and c.get("op") in ("<", "!=")
                and inc is not None and inc.get("k") == "Un" and inc.get("op") == "++"):
            return None
        v = init["vars"][0]["d"]
        lhs, rhs = strip_casts(c["lhs"]), strip_casts(c["rhs"])
        if not (lhs.get("k") == "Ref" and lhs.get("d") == v):
            return None
        while rhs is not None and rhs.get("k") in ("Construct", "TempObj") and len(rhs.get("a", [])) == 1:
            rhs = strip_casts(rhs["a"][0])
        if rhs is not None and rhs.get("k") == "Ref" and rhs.get("dk") == "local" and rhs.get("d") in inits and inits[rhs["d"]].get("init") is not None:
            rhs = strip_casts(inits[rhs["d"]]["init"])
            while rhs is not None and rhs.get("k") in ("Construct", "TempObj") and len(rhs.get("a", [])) == 1:
                rhs = strip_casts(rhs["a"][0])
        if rhs is not None and rhs.get("k") == "MCall" and rhs.get("n") == "size":
            o = strip_casts(rhs.get("obj"))
            if o is not None and o.get("k") == "Ref" and canon(o.get("d")) in (A, F):
                return v
        return None

    def counting_problem(loop, w):
        """the increment w sits in `for(i = 0; i < S.get_num_entities(); ++i) for(j = 0; j < S.get_num_indices(); ++j) ++A[S(i,j)]`:
        -> None, or a text saying which incidences are not counted; NotPointwise if the nest has another form"""
        tgt = strip_casts(w.get("e") if w.get("k") == "Un" else w.get("lhs"))
        idx = strip_casts(tgt["a"][1])
        if not (idx.get("k") == "OpCall" and idx.get("op") == "()" and len(idx.get("a", [])) == 3):
            raise NotPointwise("the facet index `%s` of the counting loop is not an index-set entry S(i,j)" % featlib.render(idx))
        sref = strip_casts(idx["a"][0])
        vi, vj = strip_casts(idx["a"][1]), strip_casts(idx["a"][2])
        chain = []

        def find(n, acc):
            if n is w:
                chain.extend(acc)
                return True
            for c in children(n):
                if find(c, acc + ([n] if n.get("k") in ("For", "While", "ForRange", "Do") else [])):
                    return True
            return False
        find(loop, [])
        if len(chain) != 2 or any(x.get("k") != "For" for x in chain):
            raise NotPointwise("the counting increment (line %s) is not inside exactly two for-loops" % w.get("l"))
        probs = []
        for lp, var, what in ((chain[0], vi, "get_num_entities"), (chain[1], vj, "get_num_indices")):
            init, c, inc = lp.get("init"), strip_casts(lp.get("c")), lp.get("inc")
            if not (init and init.get("k") == "Decl" and len(init["vars"]) == 1 and var.get("k") == "Ref" and init["vars"][0]["d"] == var.get("d") and c is not None and c.get("k") == "Bin"
                    and inc is not None and inc.get("k") == "Un" and inc.get("op") == "++" and strip_casts(c["lhs"]).get("d") == var.get("d")):
                raise NotPointwise("loop at line %s of the counting nest is not `for(v = ..; v < ..; ++v)` over the index used in S(i,j)" % lp.get("l"))
            lo = _cint(init["vars"][0].get("init"))
            bound = strip_casts(c["rhs"])
            for _ in range(4):
                while bound is not None and bound.get("k") in ("Construct", "TempObj") and len(bound.get("a", [])) == 1:
                    bound = strip_casts(bound["a"][0])
                if bound is not None and bound.get("k") == "Ref" and bound.get("dk") == "local" and bound.get("d") in inits and inits[bound["d"]].get("init") is not None:
                    bound = strip_casts(inits[bound["d"]]["init"])
                else:
                    break
            full = bound is not None and bound.get("k") == "MCall" and bound.get("n") == what and strip_casts(bound.get("obj")) is not None \
                and strip_casts(bound["obj"]).get("k") == "Ref" and strip_casts(bound["obj"]).get("d") == sref.get("d")
            if lo is None or not (full or (bound is not None and bound.get("k") == "Bin")):
                raise NotPointwise("bounds of the counting loop at line %s are not understood" % lp.get("l"))
            if lo != 0:
                probs.append("the %s loop (line %s) starts at %d" % ("cell" if what == "get_num_entities" else "local facet", lp.get("l"), lo))
            if c.get("op") != "<" or not full:
                if not full and bound.get("k") == "Bin" and bound.get("op") == "-":
                    probs.append("the %s loop (line %s) stops before %s" % ("cell" if what == "get_num_entities" else "local facet", lp.get("l"), what))
                elif c.get("op") != "<":
                    raise NotPointwise("comparison `%s` of the counting loop at line %s" % (c.get("op"), lp.get("l")))
                else:
                    raise NotPointwise("bound `%s` of the counting loop at line %s" % (featlib.render(bound), lp.get("l")))
        return "; ".join(probs) if probs else None

    for st, _f in flat:
        k = st.get("k")
        if k == "MCall" and strip_casts(st.get("obj")) is not None and canon(strip_casts(st["obj"]).get("d")) == A:
            if st.get("n") == "clear":
                cleared, val = True, None
                continue
            if st.get("n") in ("resize", "assign") and len(st.get("a", [])) == 2 and _cint(st["a"][1]) is not None and (cleared or st["n"] == "assign"):
                val = {k_: _cint(st["a"][1]) for k_ in domain}
                continue
            if st.get("n") in ("size", "reserve"):
                continue
            raise NotPointwise("counter array operation %s (line %s)" % (st.get("n"), st.get("l")))
        if k in ("For", "ForRange", "While") and (touches(st, A) or (info["faces"] is not None and touches(st, info["faces"])) or any(x.get("k") == "MCall" and x.get("n") == "push_back" for x in walk(st))):
            writes = [x for x in walk(st) if (x.get("k") == "Un" and x.get("op") in ("++", "--") and touches(x["e"], A) and strip_casts(x["e"]).get("k") == "OpCall")
                      or (x.get("k") == "Assign" and touches(x["lhs"], A))]
            counting = [x for x in writes if not is_elem(x.get("e") if x.get("k") == "Un" else x.get("lhs"), A, None) or
                        strip_casts((strip_casts(x.get("e") if x.get("k") == "Un" else x.get("lhs")) or {}).get("a", [None, None])[1] or {}).get("k") in ("OpCall", "MCall")]
            if counting:
                if len(writes) != 1 or val is None or any(v != 0 for v in val.values()):
                    raise NotPointwise("the incidence counting loop (line %s) does not start from cleared counters or writes them twice" % st.get("l"))
                w = writes[0]
                if not ((w.get("k") == "Un" and w.get("op") == "++") or (w.get("k") == "Assign" and w.get("op") == "+=" and _cint(w["rhs"]) == 1)):
                    raise NotPointwise("the incidence loop does not increment by one (line %s)" % w.get("l"))
                info["count_problem"] = counting_problem(st, w)
                val = {k_: k_[0] for k_ in domain}
                info["count_line"] = w.get("l")
                continue
            v = loop_var_over_all(st) if k == "For" else None
            if v is None:
                raise NotPointwise("loop at line %s touches the facet counters but is not a loop over all facets" % st.get("l"))
            if val is None:
                raise NotPointwise("facet loop (line %s) before the counters are defined" % st.get("l"))
            new = {}
            for k_ in domain:
                env = {"var": v, "a": val[k_], "m": k_[1]}
                run_body(st.get("body"), env)
                new[k_] = env["a"]
                if env.get("selected"):
                    selected[k_] = True
                    if env["sel_line"] not in info["select_lines"]:
                        info["select_lines"].append(env["sel_line"])
                if env.get("wrote") and env["wrote"] not in info["post_lines"]:
                    info["post_lines"].append(env["wrote"])
            val = new
            continue
        if featlib.is_call(st) and info["faces"] is not None:
            break              # the selected facets are handed on: end of the facet phase
    if info["faces"] is None:
        raise NotPointwise("no selection of facets (push_back of the facet index under a condition on its counter) found")
    return selected, val, info


# -------------------------------------------------------------------------------------------------------------------
# (6) which calls are reached with a pointer known to be null / non-null
# -------------------------------------------------------------------------------------------------------------------

class NullPaths:
    """Path walk over one function tracking whether ONE pointer (a parameter / local, given by its decl id) is null:
    outcomes 'T' (non-null), 'F' (null).  Conditions are split by polarity (`!`, `&&`, `||`, `p`, `p != nullptr`, `p == nullptr`,
    const bool locals holding such a test).  `calls` collects (call node, set of outcomes possible when it is reached)."""

    def __init__(self, fn, decl, callee_re):
        self.fn, self.decl, self.rx = fn, decl, re.compile(callee_re)
        self.pol_alias = {}
        self.calls = []
        self.unknown = []

    def is_p(self, n):
        n = strip_casts(n)
        return n is not None and n.get("k") == "Ref" and n.get("d") == self.decl

    def mentions(self, n):
        return any(x.get("k") == "Ref" and (x.get("d") == self.decl or x.get("d") in self.pol_alias) for x in walk(n))

    def atom(self, c):
        c = strip_casts(c)
        if c is None:
            return None
        if c.get("k") == "Ref" and c.get("d") in self.pol_alias:
            return self.pol_alias[c["d"]]
        if self.is_p(c):
            return 1
        if c.get("k") in ("Bin", "OpCall") and c.get("op") in ("==", "!="):
            a, b = (c["lhs"], c["rhs"]) if c["k"] == "Bin" else (c.get("a", [None, None]) + [None, None])[:2]
            for x, y in ((a, b), (b, a)):
                y = strip_casts(y)
                if x is not None and y is not None and self.is_p(x) and (y.get("k") == "Null" or (y.get("k") == "Int" and y.get("v") == "0")):
                    return 1 if c["op"] == "!=" else -1
        return None

    def split(self, c, S):
        c = strip_casts(c)
        if c is None:
            return S, S
        if c.get("k") == "Un" and c.get("op") == "!":
            t, f = self.split(c["e"], S)
            return f, t
        if c.get("k") == "Bin" and c.get("op") == "&&":
            t1, f1 = self.split(c["lhs"], S)
            self.scan(c["rhs"], t1)
            t2, f2 = self.split(c["rhs"], t1)
            return t2, f1 | f2
        if c.get("k") == "Bin" and c.get("op") == "||":
            t1, f1 = self.split(c["lhs"], S)
            self.scan(c["rhs"], f1)
            t2, f2 = self.split(c["rhs"], f1)
            return t1 | t2, f2
        p = self.atom(c)
        if p is not None:
            t = S & ({"T"} if p > 0 else {"F"})
            return t, S - t
        if self.mentions(c):
            self.unknown.append(c)
        return S, S

    def scan(self, n, S):
        if n is None or not S:
            return
        for x in walk(n, prune=lambda y: y.get("k") == "Lambda"):
            if featlib.is_call(x) and self.rx.search(x.get("callee", "")):
                self.calls.append((x, frozenset(S)))

    def run(self, st, S):
        if st is None or not S:
            return S
        k = st.get("k")
        if k == "Block":
            for x in st.get("s", []):
                S = self.run(x, S)
            return S
        if k == "Decl":
            for v in st.get("vars", []):
                if v.get("init") is not None:
                    self.scan(v["init"], S)
                    p = self.atom(v["init"])
                    if p is not None and not v.get("ref"):
                        self.pol_alias[v["d"]] = p
            return S
        if k == "If":
            if st.get("c") is not None and st["c"].get("k") != "Bin":
                self.scan(st["c"], S)
            elif st.get("c") is not None and st["c"].get("op") not in ("&&", "||"):
                self.scan(st["c"], S)
            t, f = self.split(st["c"], S)
            a = self.run(st.get("then"), set(t))
            b = self.run(st.get("else"), set(f)) if st.get("else") is not None else set(f)
            return a | b
        if k in ("Return", "Throw"):
            self.scan(st.get("e"), S)
            return set()
        if k in ("For", "While", "Do", "ForRange", "Switch", "Try"):
            if any(x.get("k") == "If" and self.mentions(x.get("c")) for x in walk(st)):
                self.unknown.append(st)
            self.scan(st, S)
            return S
        if k in ("Case", "Default", "Attributed"):
            return self.run(st.get("s"), S)
        if featlib.is_call(st) and st.get("noreturn"):
            return set()
        if featlib.is_call(st) and st.get("callee") == "FEAT::assertion" and st.get("a"):
            # XASSERT(cond): execution continues only where cond holds
            t, _ = self.split(st["a"][0], S)
            return t
        if k in ("Assign",) and self.is_p(st.get("lhs")):
            self.unknown.append(st)
        self.scan(st, S)
        return S

    def analyse(self):
        self.run(self.fn.body, {"T", "F"})
        return self
