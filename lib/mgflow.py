"""mgflow: freshness typestate of the multigrid level vectors (C09, engines E8/E7).

Per helper (_apply_rest, _apply_prol, _apply_smooth_peak, _apply_smooth_def, _apply_coarse) a forward
dataflow over its CFG computes, for every context (smooth flag, fixed/adaptive coarse grid
correction) and every abstract entry state of the levels it touches, the abstract exit state and
the verdict of every use site.  The summaries are symbolic in the level: the level window of one
loop iteration is (i, i+1), the window is shifted at the ++i / --i of the level index, and a level
is classified as 'first' (== cur_lvl), 'other' (strictly between) or 'crs' (the last level).
The summaries are composed along the CFGs of _apply_cycle_v/_f/_w over level regions
TOP | (top,p) | p | (p,last) | CRS with the peak level p arbitrary (re-partitioned at every
assignment of p), so the result holds for any number of levels and any order of peak levels.

Abstract values per level:
  def: F fresh+filtered | U fresh, not yet filter_def-ed | S stale | (P,w) stale by exactly sol += w*cor
       while tmp == filtered A*cor (the def -= w*tmp shortcut makes it fresh again)
  sol: C belongs to the current rhs | Z same and zero | X same, identity coarse solution not yet
       filter_cor-ed | O outdated (rhs was rewritten since)
  cor: N | PU prolongated, unfiltered | PF prolongated, filtered | SM smoothed
  rhs: K | RU restricted, not yet filtered      tmp: N | AU A*cor | AF filtered A*cor
"""
from collections import namedtuple

from mgfacts import strip, walk
from mgmodel import classify, neg_of, is_one, is_this_member
from featlib import render

Rec = namedtuple("Rec", "org df sol cor rhs tmp")
Q_ALL = frozenset((d, s) for d in "FS" for s in ("C", "CP", "Z", "O"))


class Incomplete(Exception):
    pass


def proj(r):
    # the solution is summarised as Z (belongs to the current rhs and is known to be zero), C (belongs to the current rhs) or O
    # CP: current and produced by the level's pre-smoother (so the level HAS a pre-smoother)
    return ("F" if r.df == "F" else "S", r.sol if r.sol in ("Z", "C", "CP") else "O")


def entry_rec(org, q):
    return Rec(org, q[0], q[1], "N", "K", "N")


class HelperFlow:
    def __init__(self, view, events, sub=None):
        self.v = view
        self.ev = dict(events)
        self.sub = sub or {}
        self.cache = {}
        self.lv = None
        levels = set()
        for e, ev in self.ev.items():
            for key in ("mat", "fil", "tra", "smoother", "cor", "def", "r", "x", "y", "vec", "fine", "coarse", "dst", "src", "a", "b"):
                o = ev.get(key)
                if isinstance(o, tuple) and len(o) >= 2 and isinstance(o[1], tuple):
                    levels.add(o[1])
            if ev["kind"] == "helper" and ev.get("level"):
                levels.add(ev["level"])
        vs = {l[1] for l in levels if l[0] == "v"}
        self.fixed = None
        if len(vs) == 1 and all(l[0] == "v" for l in levels):
            self.lv = vs.pop()
        elif levels == {("crs", 0)}:
            self.fixed = ("crs", 0)
        elif not levels:
            pass
        else:
            raise Incomplete("%s: level objects of more than one level variable: %s" % (view.name, sorted(view.level_name(l) for l in levels)))
        self.looping = self.lv is not None and self.lv in view.locals
        # the level window of one iteration is (V + boff, V + boff + 1) for the loop variable V: boff = 0 in
        # `for(i = last; i > cur;) { --i; ...`, boff = -1 in `for(ii = last; ii > cur; --ii) { i = ii - 1; ...`
        self.boff = 0
        if self.looping:
            ks = {l[2] for l in levels if l[0] == "v" and l[1] == self.lv}
            if ks:
                self.boff = min(ks)
        self.level_param = None
        self.flag_param = None
        for p in view.fn.params:
            t = view.fn.type(p["t"])
            if t.replace("const ", "") == "bool":
                self.flag_param = p["d"]
        if view.fn.params and view.name in ("_apply_rest", "_apply_prol", "_apply_smooth_peak", "_apply_smooth_def"):
            self.level_param = view.fn.params[0]["d"]
        # site names
        self.site = {}
        cnt = {}
        for e in sorted(self.ev, key=lambda e: (self.ev[e]["n"].get("l") or 0, e)):
            d = self.describe(self.ev[e])
            cnt[d] = cnt.get(d, 0) + 1
            self.site[e] = "%s/%s%s" % (view.name, d, "" if cnt[d] == 1 else "#%d" % cnt[d])
        # tracked bool locals
        self.bool_locals = set()
        for d, var in view.locals.items():
            if view.fn.type(var["t"]).replace("const ", "").strip() == "bool":
                self.bool_locals.add(d)

    def describe(self, ev):
        k = ev["kind"]

        def f(o):
            if o is None:
                return "?"
            if o[0] == "vec":
                return o[2]
            if o[0] == "param":
                return o[1]
            return o[0]
        if k == "smooth":
            return "smoother.apply(%s,%s)" % (f(ev["cor"]), f(ev["def"]))
        if k == "defect":
            return "matrix.apply(%s,%s,%s)" % (f(ev["r"]), f(ev["x"]), f(ev["y"]))
        if k == "matvec":
            return "matrix.apply(%s,%s)" % (f(ev["r"]), f(ev["x"]))
        if k in ("filter_def", "filter_cor"):
            return "%s(%s)" % (k, f(ev["vec"]))
        if k in ("rest", "prol"):
            return "transfer.%s(%s,%s)" % (k, f(ev["fine"]), f(ev["coarse"]))
        if k in ("rest_send", "prol_recv"):
            return "transfer.%s(%s)" % (k, f(ev["fine"]))
        if k in ("axpy", "copy", "scale"):
            return "%s.%s(%s)" % (f(ev["dst"]), k, f(ev["src"]))
        if k == "format":
            return "%s.format()" % f(ev["dst"])
        if k == "dot":
            return "dot(%s,%s)" % (f(ev["a"]), f(ev["b"]))
        if k == "helper":
            return ev["helper"]
        return k

    # ---- slots ------------------------------------------------------------------------------------
    def slot(self, lv):
        if lv is None:
            raise Incomplete("%s: unresolved level" % self.v.name)
        if self.fixed is not None:
            if lv == self.fixed:
                return 0
        elif lv[0] == "v" and lv[1] == self.lv and lv[2] - self.boff in (0, 1):
            return lv[2] - self.boff
        raise Incomplete("%s: level %s outside the window (i, i+1)" % (self.v.name, self.v.level_name(lv)))

    def vslot(self, o, what):
        if o is None or o[0] != "vec":
            raise Incomplete("%s: operand of %s is not a level vector" % (self.v.name, what))
        return self.slot(o[1]), o[2]

    # ---- running ----------------------------------------------------------------------------------
    def run(self, ctx, entry, init_rec=None):
        """entry: {'first': set(Q), 'other': set(Q), 'crs': set(Q)};  -> (posts {org:set(Q)} or set(Rec) for init_rec, checks)"""
        key = (tuple(sorted(ctx.items())), tuple(sorted((k, frozenset(v)) for k, v in entry.items())), init_rec)
        if key in self.cache:
            return self.cache[key]
        v = self.v
        cfg = v.cfg
        self.ctx = ctx
        self.entry = entry
        self.checks = []
        self.posts = {"first": set(), "other": set(), "crs": set()}
        self.final_recs = set()
        init_states = []
        if init_rec is not None:
            init_states = [(init_rec, None, frozenset())]
        elif self.looping:
            init_states = [(None, None, frozenset())]
        elif self.fixed is not None:
            init_states = [(entry_rec("crs", q), None, frozenset()) for q in entry.get("crs", ())]
        else:
            init_states = [(entry_rec("first", q), None, frozenset()) for q in entry.get("first", ())]
        seen = set()
        work = [(cfg.entry, s) for s in init_states]
        steps = 0
        while work:
            b, st = work.pop()
            if (b, st) in seen:
                continue
            seen.add((b, st))
            steps += 1
            if steps > 200000:
                raise Incomplete("%s: state space too large" % v.name)
            states = [st]
            for e in cfg.blocks[b]["el"]:
                nxt = []
                for s in states:
                    nxt.extend(self.transfer(e, s))
                states = nxt
            blk = cfg.blocks[b]
            if blk.get("noreturn"):
                continue
            succ = list(blk.get("succ", []))
            if b == cfg.exit:
                continue
            for s in states:
                for tgt in self.targets(b, succ, s):
                    s2 = s
                    if isinstance(tgt, tuple):
                        tgt, s2 = tgt
                    if tgt == cfg.exit:
                        self.at_exit(s2)
                    else:
                        work.append((tgt, s2))
        res = (self.final_recs if init_rec is not None else {k: frozenset(x) for k, x in self.posts.items()}, list(self.checks))
        self.cache[key] = res
        return res

    def at_exit(self, s):
        r0, r1, _ = s
        for r in (r0, r1):
            if r is not None:
                self.leave(r, None)
        if r0 is not None:
            self.final_recs.add(r0)

    def leave(self, r, sid):
        if r.org == "below":
            return
        self.posts[r.org].add(proj(r))
        if r.rhs == "RU":
            self.chk("E7.filter-rhs", self.rest_site, False, "the restricted right-hand side of the coarser level is not filter_def-ed with that level's filter before the level is left")

    def chk(self, rule, sid, ok, detail):
        site = self.site.get(sid, "%s/?" % self.v.name) if not isinstance(sid, str) else sid
        line = self.ev[sid]["n"].get("l") if sid in self.ev else None
        self.checks.append((rule, site, bool(ok), detail, line))

    # ---- branch evaluation ------------------------------------------------------------------------
    def targets(self, b, succ, s):
        blk = self.v.cfg.blocks[b]
        if blk.get("term") == "SwitchStmt" and blk.get("cond") is not None:
            sel = self.v.value(self.v.byid.get(blk["cond"]) or {})
            if is_this_member(sel, "_adapt_cgc"):
                # switch(_adapt_cgc): in the fixed context only `case Fixed` (else `default`) is taken, in the adaptive
                # context every case but `case Fixed` — the same decision as `_adapt_cgc != Fixed` in an if
                labelled = []
                for t in succ:
                    if t is None:
                        continue
                    lab = self.v.byid.get(self.v.cfg.blocks[t].get("label")) if self.v.cfg.blocks[t].get("label") is not None else None
                    name = None
                    if lab is not None and lab.get("k") == "Case":
                        cv = strip(lab.get("v") or {})
                        name = (cv.get("qn") or cv.get("n") or "?").rsplit("::", 1)[-1]
                    elif lab is not None and lab.get("k") == "Default":
                        name = "default"
                    labelled.append((t, name))
                if all(nm is not None for t, nm in labelled) or sum(1 for t, nm in labelled if nm is None) == 1:
                    # a successor without label is the fall-out of a switch without default
                    labelled = [(t, nm or "default") for t, nm in labelled]
                    has_fixed = any(nm == "Fixed" for t, nm in labelled)
                    if self.ctx.get("adapt"):
                        return [t for t, nm in labelled if nm != "Fixed"]
                    return [t for t, nm in labelled if nm == ("Fixed" if has_fixed else "default")]
        if len(succ) == 2 and blk.get("cond") is not None and blk.get("term") != "SwitchStmt":
            atom = self.v.branch_atom(b)
            val = self.eval_atom(atom, s)
            if val is True:
                return [succ[0]] if succ[0] is not None else []
            if val is False:
                return [succ[1]] if succ[1] is not None else []
            pk = self.presence_key(atom)
            if pk is not None:
                # a presence test of a level solver (`if(smoother)`): remember the outcome, so that a second test of the
                # same pointer on the path (one `if` split into two, nested ifs) takes the same branch
                key, positive = pk
                out = []
                for idx, t in enumerate(succ):
                    if t is not None:
                        truth = (idx == 0) == positive
                        out.append((t, (s[0], s[1], frozenset(set(s[2]) | {(key, truth)}))))
                return out
        return [x for x in succ if x is not None]

    def presence_key(self, a):
        """(key, positive) if the atom tests whether a level solver object (pre/post/peak smoother, coarse solver) is given"""
        v = self.v
        positive = True
        a = strip(a)
        while a.get("k") == "Un" and a.get("op") == "!":
            positive = not positive
            a = strip(a["e"])
        node = None
        if a.get("k") == "MCall" and a.get("n") == "operator bool":
            node = a.get("obj")
        elif a.get("k") == "Bin" and a.get("op") in ("!=", "=="):
            for x, y in ((a["lhs"], a["rhs"]), (a["rhs"], a["lhs"])):
                if strip(y).get("k") == "Null":
                    node = x
                    if a["op"] == "==":
                        positive = not positive
        elif a.get("k") == "Ref" and a.get("dk") == "local" and v.is_const_local(a["d"]):
            r = self.presence_key(v.locals[a["d"]]["init"])
            return (r[0], r[1] == positive) if r else None
        elif a.get("k") in ("Construct", "TempObj") and len(a.get("a", [])) == 1:
            r = self.presence_key(a["a"][0])
            return (r[0], r[1] == positive) if r else None
        if node is None:
            return None
        o = v.obj(node)
        if o is not None and o[0] == "smo":
            return ("smo", o[1], o[2]), positive
        return None

    def eval_atom(self, a, s):
        v = self.v
        a = strip(a)
        k = a.get("k")
        r0 = s[0]
        if k in ("MCall", "Bin", "Ref", "Construct", "TempObj"):
            pk = self.presence_key(a) if not (k == "Bin" and a.get("op") in ("&&", "||")) else None
            if pk is not None:
                for key, val in s[2]:
                    if key == pk[0]:
                        return val == pk[1]
        if k == "Un" and a.get("op") == "!":
            x = self.eval_atom(a["e"], s)
            return None if x is None else (not x)
        if k == "Ref":
            if a.get("dk") == "param" and a["d"] == self.flag_param:
                return self.ctx.get("flag")
            if a.get("dk") == "local" and a["d"] in v.locals:
                for d, val in s[2]:
                    if d == a["d"]:
                        return val
                var = v.locals[a["d"]]
                if not v.writes.get(a["d"]) and var.get("init") is not None:
                    # a named condition (`const bool skip = !cur_smooth && (i == cur_lvl);`) is what it names
                    return self.eval_atom(var["init"], s)
                # a written local that is not tracked: its value is data unless it is computed from the level index, the
                # smoothing flag or the correction mode
                srcs = [var.get("init")] + [w.get("rhs") for w in v.writes.get(a["d"], []) if w.get("k") == "Assign"]
                for src in srcs:
                    for x in walk(src or {}):
                        if (x.get("k") == "Ref" and x.get("d") is not None and x.get("d") in (self.lv, self.flag_param)) or is_this_member(x, "_adapt_cgc"):
                            raise Incomplete("%s: condition on the local %s, which is computed from the level index / smoothing flag / correction mode along several paths" % (v.name, a.get("n")))
                return None
        if k == "Bool":
            return bool(a["v"])
        if k == "Bin" and a.get("op") in ("&&", "||"):
            # a named compound condition (`const bool smooth_here = cur_smooth || (i > cur_lvl);`): three-valued logic
            x, y = self.eval_atom(a["lhs"], s), self.eval_atom(a["rhs"], s)
            if a["op"] == "&&":
                return False if (x is False or y is False) else (True if (x is True and y is True) else None)
            return True if (x is True or y is True) else (False if (x is False and y is False) else None)
        if k in ("Construct", "TempObj") and len(a.get("a", [])) == 1:
            return self.eval_atom(a["a"][0], s)
        if k == "Bin" and a.get("op") in ("<", ">", "<=", ">=", "==", "!="):
            l, r = v.value(a["lhs"]), v.value(a["rhs"])
            op = a["op"]
            # _adapt_cgc ==/!= Fixed
            for x, y in ((l, r), (r, l)):
                if is_this_member(x, "_adapt_cgc"):
                    if op in ("==", "!=") and y.get("k") == "Ref" and y.get("dk") == "enum":
                        isfixed = y.get("qn", "").endswith("::Fixed")
                        if not isfixed:
                            # `_adapt_cgc == MinEnergy` etc. (if-chain instead of a switch): decided when the correction is
                            # fixed, data (either adaptive mode) otherwise
                            return (op == "!=") if not self.ctx["adapt"] else None
                        return self.ctx["adapt"] == (op == "!=")
                    raise Incomplete("%s: condition %s on _adapt_cgc" % (v.name, render(a)))
            # _crs_level >= size_physical(): no coarse level on this process (decided for processes that own it)
            for x, y, o in ((l, r, op), (r, l, {"<": ">", ">": "<", "<=": ">=", ">=": "<="}.get(op, op))):
                if is_this_member(x, "_crs_level") and y.get("k") == "MCall" and y.get("n") == "size_physical":
                    return {"<": True, "<=": True, "!=": True, ">": False, ">=": False, "==": False}[o]
            # level index against its bounds
            if self.lv is not None:
                for x, y, o in ((l, r, op), (r, l, {"<": ">", ">": "<", "<=": ">=", ">=": "<="}.get(op, op))):
                    xl = v.level(x) if self.looping else None
                    if xl is not None and xl[0] == "v" and xl[1] == self.lv:
                        if r0 is None:
                            raise Incomplete("%s: level index compared before it is initialised" % v.name)
                        bound = v.level(y)
                        if bound is not None and (self.boff - xl[2]):
                            # (V + k) op B  ==  (V + boff) op (B + boff - k): the window origin against the shifted bound
                            bound = bound[:-1] + (bound[-1] + self.boff - xl[2],)
                        # x < b+1 == x <= b,  x <= b-1 == x < b,  x > b-1 == x >= b,  x >= b+1 == x > b
                        if bound is not None and bound[-1] in (1, -1):
                            o2 = {("<", 1): "<=", ("<=", -1): "<", (">", -1): ">=", (">=", 1): ">"}.get((o, bound[-1]))
                            if o2 is not None:
                                o, bound = o2, bound[:-1] + (0,)
                        if bound == ("last", 0):
                            rel = "<" if r0.org != "crs" else "=="       # V < last  unless V is the last level
                        elif bound is not None and bound[0] == "v" and bound[1] == self.level_param and bound[2] == 0:
                            rel = "==" if r0.org == "first" else ("<" if r0.org == "below" else ">")
                        else:
                            raise Incomplete("%s: level index compared with %s" % (v.name, render(y)))
                        return {"<": rel == "<", "<=": rel in ("<", "=="), ">": rel == ">", ">=": rel in (">", "=="),
                                "==": rel == "==", "!=": rel != "=="}[o]
            for x in walk(a):
                if (x.get("k") == "Ref" and x.get("d") in (self.lv, self.flag_param) and x.get("d") is not None) or is_this_member(x, "_adapt_cgc"):
                    raise Incomplete("%s: branch condition %s is outside the condition table" % (v.name, render(a)))
            return None
        if k == "MCall" and a.get("n") == "is_ghost":
            return False
        if k in ("MCall", "Call", "OpCall"):
            return None      # value of a call: data, both branches
        for x in walk(a):
            if (x.get("k") == "Ref" and x.get("d") is not None and x.get("d") in (self.lv, self.flag_param)) or is_this_member(x, "_adapt_cgc"):
                raise Incomplete("%s: branch condition %s is outside the condition table" % (v.name, render(a)))
        return None

    # ---- transfer ---------------------------------------------------------------------------------
    def fork_new(self, orgs):
        out = []
        for org in orgs:
            for q in self.entry.get(org, ()):
                out.append(entry_rec(org, q))
        return out

    def transfer(self, e, s):
        v = self.v
        n = v.byid.get(e)
        r0, r1, bools = s
        if n is None:
            return [s]
        k = n.get("k")
        # level index: declaration / shift
        if self.looping:
            if k == "Decl" and any(x["d"] == self.lv for x in n.get("vars", [])):
                var = v.locals[self.lv]
                init = v.level(var.get("init")) if var.get("init") is not None else None
                if init is not None:
                    init = init[:-1] + (init[-1] + self.boff,)       # first window origin
                if init == ("last", -1):
                    # window (last-1, last): the level above the coarsest one and the coarsest one
                    outs = []
                    for a in self.fork_new(["other", "first"]):
                        for b in self.fork_new(["crs"]):
                            outs.append((a, b, bools))
                    return outs
                if init is not None and init[0] == "v" and init[1] == self.level_param and init[2] == 0:
                    outs = []
                    for a in self.fork_new(["first"]):
                        for b in self.fork_new(["other", "crs"]):
                            outs.append((a, b, bools))
                    return outs
                if init == ("last", 0):
                    return [(a, None, bools) for a in self.fork_new(["crs"])]
                raise Incomplete("%s: level index initialised with %s" % (v.name, render(var.get("init"))))
            if k in ("Un", "Assign"):
                t = strip(n["lhs"] if k == "Assign" else n["e"])
                if t.get("k") == "Ref" and t.get("d") == self.lv:
                    step = None
                    if k == "Un" and n.get("op") in ("++", "--"):
                        step = 1 if n["op"] == "++" else -1
                    elif k == "Assign" and n.get("op") in ("+=", "-=") and strip(n["rhs"]).get("k") == "Int" and int(strip(n["rhs"])["v"]) == 1:
                        step = 1 if n["op"] == "+=" else -1
                    if step is None or r0 is None:
                        raise Incomplete("%s: level index modified by %s" % (v.name, render(n)))
                    bools = frozenset(x for x in bools if not (isinstance(x[0], tuple) and x[0][0] == "smo"))
                    if step == 1:
                        self.leave(r0, e)
                        if r1 is None:
                            raise Incomplete("%s: ascending past the last level" % v.name)
                        if r1.org == "crs":
                            return [(r1, None, bools)]
                        return [(r1, b, bools) for b in self.fork_new(["other", "crs"])]
                    if r1 is not None:
                        self.leave(r1, e)
                    if r0.org == "below":
                        raise Incomplete("%s: descending below cur_lvl" % v.name)
                    if r0.org == "first":
                        # the index passes below cur_lvl (the step comes before the loop test): no level there, the loop
                        # test must end the loop
                        return [(entry_rec("below", ("S", "O")), r0, bools)]
                    return [(a, r0, bools) for a in self.fork_new(["other", "first"])]
        # bool locals
        if k == "Decl":
            nb = dict(bools)
            ch = False
            for var in n.get("vars", []):
                if var["d"] in self.bool_locals and v.writes.get(var["d"]):
                    iv = strip(var.get("init") or {})
                    nb[var["d"]] = bool(iv["v"]) if iv.get("k") == "Bool" else None
                    ch = True
            return [(r0, r1, frozenset(nb.items()))] if ch else [s]
        if k == "Assign":
            t = strip(n["lhs"])
            if t.get("k") == "Ref" and t.get("d") in self.bool_locals:
                nb = dict(bools)
                iv = strip(n["rhs"])
                nb[t["d"]] = bool(iv["v"]) if (iv.get("k") == "Bool" and n.get("op") == "=") else None
                return [(r0, r1, frozenset(nb.items()))]
            return [s]
        ev = self.ev.get(e)
        if ev is None:
            return [s]
        kind = ev["kind"]
        if kind == "unknown":
            raise Incomplete("%s: %s" % (v.name, ev["why"]))
        recs = [r0, r1]

        def get(i):
            if recs[i] is None or recs[i].org == "below":
                raise Incomplete("%s: level window slot %d used while empty (%s)" % (v.name, i, self.site.get(e)))
            return recs[i]

        def put(i, r):
            recs[i] = r

        def need_def(i, what):
            r = get(i)
            self.chk("E8.def-fresh", e, r.df in ("F", "U"), "%s: defect is %s" % (what, "fresh" if r.df in ("F", "U") else "stale (solution or rhs changed since def = rhs - A*sol was computed)"))
            self.chk("E7.filter-def", e, r.df != "U", "%s: defect is %s" % (what, "not filter_def-ed after its computation" if r.df == "U" else "filtered"))

        if kind == "smooth":
            ci, cf = self.vslot(ev["cor"], "smoother")
            di, dfld = self.vslot(ev["def"], "smoother")
            if ci != di:
                raise Incomplete("%s: smoother operands of different levels" % v.name)
            r = get(ci)
            if (cf, dfld) == ("sol", "rhs"):
                self.chk("E8.sol-epoch", e, r.sol == "O", "solve from scratch (vec_sol := S(vec_rhs)): %s" % (
                    "rhs is new since the solution was started" if r.sol == "O" else "the solution already holds this cycle's work for the same rhs and is discarded"))
                self.chk("E7.filter-rhs", e, r.rhs == "K", "rhs is %s" % ("filtered" if r.rhs == "K" else "restricted but not filtered"))
                put(ci, r._replace(sol="CP" if (s0 := ev.get("smoother")) and s0[0] == "smo" and s0[2] == "pre" else "C", df="S"))
            elif (cf, dfld) == ("cor", "def"):
                need_def(ci, "smoother input")
                put(ci, r._replace(cor="SM", tmp="N"))
            else:
                raise Incomplete("%s: smoother applied to (%s,%s)" % (v.name, cf, dfld))
        elif kind == "defect":
            ri, rf = self.vslot(ev["r"], "defect")
            xi, xf = self.vslot(ev["x"], "defect")
            yi, yf = self.vslot(ev["y"], "defect")
            ng = neg_of(v, ev["alpha"])
            if not (ri == xi == yi and (rf, xf, yf) == ("def", "sol", "rhs") and ng is not None and is_one(v, ng)):
                raise Incomplete("%s: 4-operand matrix apply is not def := rhs - A*sol" % v.name)
            r = get(ri)
            self.chk("E8.sol-epoch", e, r.sol != "O", "defect computed from %s" % ("the current solution" if r.sol != "O" else "a solution that belongs to an older rhs"))
            put(ri, r._replace(df="U"))
        elif kind == "matvec":
            ri, rf = self.vslot(ev["r"], "matvec")
            xi, xf = self.vslot(ev["x"], "matvec")
            if ri == xi and (rf, xf) == ("tmp", "cor"):
                rr = get(ri)
                self.chk("E7.filter-cor", e, rr.cor != "PU", "A*cor for the adaptive step length is computed from a correction that is %s" % (
                    "filtered" if rr.cor != "PU" else "prolongated but not yet filter_cor-ed (the step length and the defect update then belong to a different correction than the one added to the solution)"))
                put(ri, rr._replace(tmp="AU"))
            else:
                raise Incomplete("%s: 2-operand matrix apply (%s,%s)" % (v.name, rf, xf))
        elif kind == "filter_def":
            i, f = self.vslot(ev["vec"], "filter_def")
            if ev["fil"][1] != ev["vec"][1]:
                return [s]      # wrong-level filter: reported by E1.level-roles, has no filtering effect here
            r = get(i)
            if f == "def":
                put(i, r._replace(df="F" if r.df == "U" else r.df))
            elif f == "rhs":
                put(i, r._replace(rhs="K"))
            elif f == "tmp":
                put(i, r._replace(tmp="AF" if r.tmp == "AU" else r.tmp))
        elif kind == "filter_cor":
            i, f = self.vslot(ev["vec"], "filter_cor")
            if ev["fil"][1] != ev["vec"][1]:
                return [s]
            r = get(i)
            if f == "cor":
                # filtering changes the correction: a product A*cor computed before no longer belongs to it
                put(i, r._replace(cor="PF" if r.cor == "PU" else r.cor, tmp="N" if r.cor == "PU" else r.tmp))
            elif f == "sol":
                put(i, r._replace(sol="C" if r.sol == "X" else r.sol))
        elif kind == "format":
            i, f = self.vslot(ev["dst"], "format")
            r = get(i)
            if f == "sol" and ev["zero"]:
                self.chk("E8.sol-epoch", e, r.sol == "O", "solution zeroed: %s" % ("rhs is new" if r.sol == "O" else "the solution already holds this cycle's work for the same rhs and is discarded"))
                put(i, r._replace(sol="Z", df="S"))
            else:
                raise Incomplete("%s: format of vec_%s" % (v.name, f))
        elif kind == "copy":
            if ev["dst"] is None or ev["dst"][0] != "vec" or ev["src"] is None or ev["src"][0] != "vec":
                raise Incomplete("%s: copy between %s and %s" % (v.name, ev["dst"], ev["src"]))
            di, dfld = self.vslot(ev["dst"], "copy")
            si, sf = self.vslot(ev["src"], "copy")
            r = get(di)
            if di == si and (dfld, sf) == ("def", "rhs"):
                put(di, r._replace(df="U" if r.sol == "Z" else "S"))
            elif di == si and (dfld, sf) == ("sol", "rhs"):
                self.chk("E8.sol-epoch", e, r.sol == "O", "identity solve (vec_sol := vec_rhs): %s" % ("rhs is new" if r.sol == "O" else "current solution discarded"))
                put(di, r._replace(sol="X", df="S"))
            else:
                raise Incomplete("%s: copy %s <- %s" % (v.name, dfld, sf))
        elif kind in ("rest", "rest_send"):
            fi, ff = self.vslot(ev["fine"], kind)
            if ff == "def":
                need_def(fi, "restriction input")
            else:
                self.chk("E8.def-fresh", e, False, "restriction input is vec_%s, not the defect" % ff)
            if kind == "rest":
                ci, cf = self.vslot(ev["coarse"], kind)
                self.rest_site = e
                rc = get(ci)
                if cf == "rhs":
                    put(ci, rc._replace(rhs="RU", sol="O", df="S"))
                else:
                    raise Incomplete("%s: restriction writes vec_%s" % (v.name, cf))
        elif kind in ("prol", "prol_recv"):
            fi, ff = self.vslot(ev["fine"], kind)
            if kind == "prol":
                ci, cf = self.vslot(ev["coarse"], kind)
                rc = get(ci)
                if cf == "sol":
                    self.chk("E8.sol-epoch", e, rc.sol != "O", "prolongation input: coarse solution %s" % ("belongs to the current coarse rhs" if rc.sol != "O" else "was not recomputed after the coarse rhs changed"))
                    self.chk("E7.filter-cor", e, rc.sol != "X", "prolongation input: identity coarse solution %s" % ("filtered" if rc.sol != "X" else "not filter_cor-ed"))
                else:
                    self.chk("E8.sol-epoch", e, False, "prolongation input is vec_%s, not the coarse solution" % cf)
            r = get(fi)
            if ff == "cor":
                put(fi, r._replace(cor="PU", tmp="N"))
            else:
                raise Incomplete("%s: prolongation writes vec_%s" % (v.name, ff))
        elif kind == "axpy":
            di, dfld = self.vslot(ev["dst"], "axpy")
            si, sf = self.vslot(ev["src"], "axpy")
            if di != si:
                raise Incomplete("%s: axpy across levels" % v.name)
            r = get(di)
            w = v.value(ev["alpha"])
            if (dfld, sf) == ("sol", "cor"):
                self.chk("E7.filter-cor", e, r.cor != "PU", "correction added to the solution is %s" % ("filtered / smoothed" if r.cor != "PU" else "prolongated but not filter_cor-ed"))
                self.chk("E8.sol-epoch", e, r.sol != "O" and r.cor != "N", "correction added to %s" % (
                    "the current solution" if r.sol != "O" and r.cor != "N" else ("a solution that belongs to an older rhs" if r.sol == "O" else "the solution although no correction was computed")))
                wd = w.get("d") if w.get("k") == "Ref" else None
                raww = strip(ev["alpha"])
                wd = raww.get("d") if raww.get("k") == "Ref" and raww.get("dk") == "local" else wd
                ndf = ("P", wd) if (r.df == "F" and r.tmp == "AF" and wd is not None) else "S"
                put(di, r._replace(sol="C", df=ndf, cor="N" if False else r.cor))
            elif (dfld, sf) == ("def", "tmp"):
                ng = strip(ev["alpha"])
                inner = None
                if ng.get("k") == "Un" and ng.get("op") == "-":
                    inner = strip(ng["e"])
                ok = isinstance(r.df, tuple) and r.df[0] == "P" and inner is not None and inner.get("k") == "Ref" and inner.get("d") == r.df[1] and r.tmp == "AF"
                put(di, r._replace(df="F" if ok else "S"))
            else:
                raise Incomplete("%s: axpy %s += %s" % (v.name, dfld, sf))
        elif kind == "scale":
            di, dfld = self.vslot(ev["dst"], "scale")
            si, sf = self.vslot(ev["src"], "scale")
            if di != si or (dfld, sf) != ("sol", "cor"):
                raise Incomplete("%s: scale %s := a*%s" % (v.name, dfld, sf))
            r = get(di)
            if r.sol == "CP" and any(k_ == ("smo", ev["dst"][1], "pre") and val_ is False for k_, val_ in bools):
                return []       # infeasible: the solution was produced by the pre-smoother, this path has established there is none
            # sol := w*cor equals sol += w*cor only where the solution is known to be zero
            self.chk("E7.filter-cor", e, r.cor != "PU", "correction written into the solution is %s" % ("filtered / smoothed" if r.cor != "PU" else "prolongated but not filter_cor-ed"))
            self.chk("E8.sol-epoch", e, r.sol == "Z" and r.cor != "N",
                     "the solution is overwritten by the scaled correction (vec_sol := w*vec_cor): %s" % (
                         "it is known to be zero, so this equals the update sol += w*cor" if r.sol == "Z" and r.cor != "N" else
                         ("the solution holds work of this cycle for the current rhs (pre-smoothing, or the iterate kept by a restriction without pre-smoothing on an inner peak level), which is discarded" if r.sol == "C" else
                          "the solution is not known to be zero on this path")))
            wd = strip(ev["alpha"]).get("d") if strip(ev["alpha"]).get("k") == "Ref" and strip(ev["alpha"]).get("dk") == "local" else None
            ndf = ("P", wd) if (r.df == "F" and r.tmp == "AF" and wd is not None and r.sol == "Z") else "S"
            put(di, r._replace(sol="C", df=ndf))
        elif kind == "dot":
            for o in (ev["a"], ev["b"]):
                i, f = self.vslot(o, "dot")
                if f == "def":
                    need_def(i, "adaptive step length")
                    break
            for o in (ev["a"], ev["b"]):
                i, f = self.vslot(o, "dot")
                if f == "cor":
                    self.chk("E7.filter-cor", e, get(i).cor != "PU", "adaptive step length: inner product with a correction that is %s" % (
                        "filtered" if get(i).cor != "PU" else "prolongated but not yet filter_cor-ed"))
                    break
                if f == "tmp":
                    self.chk("E7.filter-def", e, get(i).tmp != "AU", "adaptive step length: A*cor is %s" % ("filtered" if get(i).tmp != "AU" else "not filter_def-ed"))
                    break
        elif kind == "helper":
            h = ev["helper"]
            if h in self.sub and ev.get("level") is not None and self.slot(ev["level"]) == 0:
                r = get(0)
                outs, chks = self.sub[h].run(self.ctx, {}, init_rec=r)
                self.checks.extend(chks)
                return [(o, recs[1], bools) for o in outs]
            raise Incomplete("%s: call of %s" % (v.name, h))
        return [(recs[0], recs[1], bools)]


# -------------------------------------------------------------------------------------------------
# composition along the cycle CFGs
# -------------------------------------------------------------------------------------------------

REGS = ("TOP", "OUT", "PK", "INN", "CRS")


def union_regs(a, b):
    if a is None:
        return b
    if b is None:
        return a
    return tuple(x | y for x, y in zip(a, b))


class Composer:
    def __init__(self, cview, cevents, flows, pvar, adapt, single):
        self.v = cview
        self.ev = dict(cevents)
        self.flows = flows
        self.pvar = pvar
        self.adapt = adapt
        self.single = single
        self.results = []     # (rule, site, ok, detail, line, context text)
        self.evals = 0

    def ctxtext(self, case, extra=""):
        return "%s, %s coarse grid correction%s%s" % ("single level (top == coarse)" if self.single else "two or more levels",
                                                     "adaptive" if self.adapt else "fixed",
                                                     {"A": ", peak level above... p > top", "B": ", peak level p == top", "N": ""}.get(case, ""), extra)

    def apply_helper(self, case, regs, ev):
        h = ev["helper"]
        TOP, OUT, PK, INN, CRS = regs
        if h == "_apply_coarse":
            posts, chks = self.flows[h].run({"adapt": self.adapt}, {"crs": CRS})
            self.record(chks, case, "")
            return (TOP, OUT, PK, INN, posts["crs"] or CRS) if not self.single else (posts["crs"], OUT, PK, INN, posts["crs"])
        lv = ev.get("level")
        is_top = lv == ("top", 0)
        is_p = lv is not None and lv[0] == "v" and lv[1] == self.pvar and lv[2] == getattr(self.v, "poff", 0)
        if not (is_top or is_p):
            return regs      # reported by E14.cycle-shape
        if self.single:
            if is_p:
                return None  # no peak level exists when top == coarse: infeasible
            if h in ("_apply_rest", "_apply_prol"):
                return regs  # zero iterations
        if is_p and case == "N":
            return regs
        top_like = is_top or case == "B"
        if top_like:
            first = TOP
            others = (OUT | PK | INN) if is_top else INN
        else:
            first = PK
            others = INN
        if not first:
            return None
        ctx = {"adapt": self.adapt}
        if h in ("_apply_rest", "_apply_prol"):
            ctx["flag"] = ev.get("flag")
        entry = {"first": first, "other": others, "crs": CRS}
        posts, chks = self.flows[h].run(ctx, entry)
        self.record(chks, case, " [%s(%s,%s)]" % (h, "top" if is_top else "p", {True: "true", False: "false", None: "-"}[ev.get("flag")]))

        def upd(region, org):
            return posts[org] if region and posts.get(org) else region
        if h == "_apply_smooth_peak":
            if top_like:
                return (posts["first"] or TOP, OUT, PK, INN, CRS)
            return (TOP, OUT, posts["first"] or PK, INN, CRS)
        if top_like:
            if is_top:
                return (upd(TOP, "first"), upd(OUT, "other"), upd(PK, "other"), upd(INN, "other"), upd(CRS, "crs"))
            return (upd(TOP, "first"), OUT, PK, upd(INN, "other"), upd(CRS, "crs"))
        return (TOP, OUT, upd(PK, "first"), upd(INN, "other"), upd(CRS, "crs"))

    def record(self, chks, case, where):
        for rule, site, ok, detail, line in chks:
            self.evals += 1
            self.results.append((rule, site, ok, detail, line, self.ctxtext(case, where)))

    def run(self):
        v = self.v
        cfg = v.cfg
        if self.single:
            init = {"N": (frozenset([("S", "O")]), frozenset(), frozenset(), frozenset(), frozenset([("S", "O")]))}
        else:
            init = {"N": (frozenset([("S", "O")]), Q_ALL, Q_ALL, Q_ALL, Q_ALL)}
        state_in = {cfg.entry: init}
        work = [cfg.entry]
        exit_states = []
        mods = set()
        if self.pvar is not None:
            if self.pvar in v.decl_stmt:
                mods.add(v.decl_stmt[self.pvar])
            for w in v.writes.get(self.pvar, []):
                mods.add(w["i"])
        normal = set(cfg.normal_exit_preds())
        it = 0
        while work:
            b = work.pop()
            it += 1
            if it > 5000:
                raise Incomplete("%s: composition does not converge" % v.name)
            st = dict(state_in.get(b, {}))
            blk = cfg.blocks[b]
            for e in blk["el"]:
                if e in mods:
                    if self.single:
                        continue
                    tops = frozenset().union(*[r[0] for r in st.values()]) if st else frozenset()
                    mid = frozenset().union(*[r[1] | r[2] | r[3] for r in st.values()]) if st else frozenset()
                    crs = frozenset().union(*[r[4] for r in st.values()]) if st else frozenset()
                    if st:
                        st = {"B": (tops, frozenset(), frozenset(), mid, crs)}
                        if mid:
                            st["A"] = (tops, mid, mid, mid, crs)
                    continue
                ev = self.ev.get(e)
                if ev is not None and ev["kind"] == "unknown":
                    raise Incomplete("%s: %s" % (v.name, ev["why"]))
                if ev is None or ev["kind"] != "helper":
                    continue
                new = {}
                for case, regs in st.items():
                    r = self.apply_helper(case, regs, ev)
                    if r is not None:
                        new[case] = r
                st = new
            if blk.get("noreturn"):
                continue
            for s in blk.get("succ", []):
                if s is None:
                    continue
                if s == cfg.exit:
                    if b in normal:
                        exit_states.append(st)
                    continue
                old = state_in.get(s, {})
                merged = dict(old)
                ch = False
                for case, regs in st.items():
                    m = union_regs(old.get(case), regs)
                    if m != old.get(case):
                        merged[case] = m
                        ch = True
                if ch or s not in state_in:
                    state_in[s] = merged
                    work.append(s)
        # hand-over: the top-level solution must be current on every normal exit
        for st in exit_states:
            for case, regs in st.items():
                top = regs[0]
                bad = [q for q in top if q[1] not in ("C", "CP", "Z")]
                self.evals += 1
                self.results.append(("E8.sol-epoch", "%s/exit: sol(top)" % v.name, not bad,
                                     "the top-level solution handed to vec_cor %s" % ("belongs to the rhs of this application" if not bad else "may still belong to an older rhs"),
                                     v.fn.line, self.ctxtext(case)))
        return self.results


def check_flow(ck, sc, views, events, pvars):
    rules = ("E8.def-fresh", "E7.filter-def", "E7.filter-cor", "E7.filter-rhs", "E8.sol-epoch")
    try:
        f_def = HelperFlow(views["_apply_smooth_def"], events["_apply_smooth_def"])
        flows = {
            "_apply_smooth_def": f_def,
            "_apply_smooth_peak": HelperFlow(views["_apply_smooth_peak"], events["_apply_smooth_peak"], sub={"_apply_smooth_def": f_def}),
            "_apply_rest": HelperFlow(views["_apply_rest"], events["_apply_rest"]),
            "_apply_prol": HelperFlow(views["_apply_prol"], events["_apply_prol"]),
            "_apply_coarse": HelperFlow(views["_apply_coarse"], events["_apply_coarse"]),
        }
    except Incomplete as ex:
        ck.incomplete("E8.def-fresh", "%s: %s" % (sc, ex))
        return
    total = 0
    agg = {}
    for cyc in ("_apply_cycle_v", "_apply_cycle_f", "_apply_cycle_w"):
        for adapt in (False, True):
            for single in (False, True):
                comp = Composer(views[cyc], events[cyc], flows, pvars.get(cyc), adapt, single)
                try:
                    res = comp.run()
                except Incomplete as ex:
                    ck.incomplete("E8.def-fresh", "%s::%s: %s" % (sc, cyc, ex))
                    continue
                total += comp.evals
                for rule, site, ok, detail, line, ctx in res:
                    key = (rule, "%s::%s/%s" % (sc, cyc, site))
                    a = agg.setdefault(key, {"ok": True, "n": 0, "fail": [], "line": line, "good": detail})
                    a["n"] += 1
                    if not ok:
                        a["ok"] = False
                        if len(a["fail"]) < 3 and (detail, ctx) not in a["fail"]:
                            a["fail"].append((detail, ctx))
                    else:
                        a["good"] = detail
    for (rule, key), a in sorted(agg.items()):
        if a["ok"]:
            detail = "%s (%d context evaluations)" % (a["good"], a["n"])
        else:
            detail = "; ".join("%s — in context: %s" % f for f in a["fail"])
        ck.ob(rule, key, a["ok"], detail, views["_apply_rest"].fn.file, a["line"], sample={"evaluations": a["n"], "detail": detail[:200]})
    ck.note("%s: freshness typestate: %d use-site evaluations over 3 cycles x {fixed, adaptive} x {one level, several levels} x entry states" % (sc, total))
