"""mgfacts: small helpers shared by the solver checks C09/C08 (function views over featx facts).

 * FnView: id index that also covers the statements below `case` labels, local-variable table,
   write sets, value resolution through never-written locals, CFG position reachability,
   branch-atom extraction for clang's short-circuit CFG.
 * Automaton helpers: regular-language equality between an event NFA taken from a CFG and an
   expected regular expression (used for the multigrid cycle shapes).
Nothing here is specific to one rule; rule tables live in the checks.
"""
import featlib
from featlib import render


def kids(n):
    """children() of featlib plus the statement below a case/default label (a dict, not a list)"""
    yield from featlib.children(n)
    if n.get("k") in ("Case", "Default") and isinstance(n.get("s"), dict):
        yield n["s"]


def walk(n):
    if n is None:
        return
    st = [n]
    while st:
        x = st.pop()
        yield x
        st.extend(reversed(list(kids(x))))


def strip(n):
    """drop explicit casts / functional casts (Index(x), std::size_t(x), DataType(1))"""
    while isinstance(n, dict) and n.get("k") == "Cast" and isinstance(n.get("e"), dict):
        n = n["e"]
    return n


class FnView:
    def __init__(self, fn):
        self.fn = fn
        self.name = fn.name
        self.byid = {}
        self.parent = {}
        self.locals = {}        # decl id -> Var node
        self.decl_stmt = {}     # decl id -> Decl stmt id
        self.writes = {}        # decl id -> [stmt nodes writing the variable after its declaration]
        self.params = {p["d"]: p for p in fn.params}
        for i in (fn.d.get("inits") or []):
            for x in walk(i.get("init")):
                if "i" in x:
                    self.byid.setdefault(x["i"], x)
        for x in walk(fn.body):
            if "i" in x:
                self.byid[x["i"]] = x
            for c in kids(x):
                if "i" in c and "i" in x:
                    self.parent[c["i"]] = x
            if x.get("k") == "Decl":
                for v in x.get("vars", []):
                    self.locals[v["d"]] = v
                    self.decl_stmt[v["d"]] = x["i"]
            if x.get("k") == "ForRange" and isinstance(x.get("var"), dict):
                self.locals[x["var"]["d"]] = x["var"]
        for x in walk(fn.body):
            k = x.get("k")
            if k == "Assign":
                t = strip(x["lhs"])
                if t.get("k") == "Ref":
                    self.writes.setdefault(t["d"], []).append(x)
            elif k == "Un" and x.get("op") in ("++", "--"):
                t = strip(x["e"])
                if t.get("k") == "Ref":
                    self.writes.setdefault(t["d"], []).append(x)
        self.cfg = fn.cfg
        self._pos = None

    # ---- values ---------------------------------------------------------------------------------
    def is_const_local(self, d):
        return d in self.locals and not self.writes.get(d) and self.locals[d].get("init") is not None

    def value(self, n, depth=0):
        """resolve never-written locals through their initialiser; strips casts"""
        n = strip(n)
        while depth < 12 and isinstance(n, dict) and n.get("k") == "Ref" and n.get("dk") == "local" and self.is_const_local(n["d"]):
            n = strip(self.locals[n["d"]]["init"])
            depth += 1
        return n

    def type_of(self, n):
        return self.fn.ntype(n)

    # ---- CFG positions --------------------------------------------------------------------------
    def pos(self, sid):
        if self._pos is None:
            self._pos = {}
            for b in self.cfg.blocks.values():
                for k, e in enumerate(b["el"]):
                    self._pos.setdefault(e, (b["id"], k))
        return self._pos.get(sid)

    def succ(self, b):
        blk = self.cfg.blocks[b]
        if blk.get("noreturn"):
            return []
        return [s for s in blk.get("succ", []) if s is not None]

    def raw_succ(self, b):
        blk = self.cfg.blocks[b]
        if blk.get("noreturn"):
            return []
        return list(blk.get("succ", []))

    def stmts_after(self, sid, stop=()):
        """statement ids reachable after sid (exclusive) without passing a statement in `stop`"""
        p = self.pos(sid)
        if p is None:
            return set()
        seen_blocks = set()
        out = set()
        work = [(p[0], p[1] + 1)]
        while work:
            b, k = work.pop()
            el = self.cfg.blocks[b]["el"]
            blocked = False
            for j in range(k, len(el)):
                if el[j] in stop:
                    blocked = True
                    break
                out.add(el[j])
            if blocked:
                continue
            for s in self.succ(b):
                if s not in seen_blocks:
                    seen_blocks.add(s)
                    work.append((s, 0))
        return out

    def flow_from(self, sid, stop=()):
        """(statement ids reachable after statement sid — from the function entry if sid is None —
        without passing a statement in `stop`, whether a normal exit is reachable that way)"""
        if sid is None:
            start = (self.cfg.entry, 0)
        else:
            p = self.pos(sid)
            if p is None:
                return set(), False
            start = (p[0], p[1] + 1)
        normal = set(self.cfg.normal_exit_preds())
        seen = set()
        out = set()
        exits = False
        work = [start]
        while work:
            b, k = work.pop()
            el = self.cfg.blocks[b]["el"]
            blocked = False
            for j in range(k, len(el)):
                if el[j] in stop:
                    blocked = True
                    break
                out.add(el[j])
            if blocked:
                continue
            for s in self.succ(b):
                if s == self.cfg.exit:
                    if b in normal:
                        exits = True
                    continue
                if s not in seen:
                    seen.add(s)
                    work.append((s, 0))
        return out, exits

    def branch_atom(self, b):
        """the atomic condition whose value decides the branch at the end of block b.  clang's CFG
        splits `a && b` / `a || b` into one block per operand; the terminator of a block that ends in
        an if/for/while whose condition is a logical expression is decided by its right-most leaf."""
        blk = self.cfg.blocks[b]
        c = blk.get("cond")
        if c is None:
            return None
        n = self.byid.get(c)
        neg = False
        while n is not None:
            m = strip(n)
            if m.get("k") == "Bin" and m.get("op") in ("&&", "||"):
                n = m["rhs"]
                continue
            if m.get("k") == "Un" and m.get("op") == "!" and strip(m["e"]).get("k") == "Bin" and strip(m["e"]).get("op") in ("&&", "||"):
                # !(a || b): the block that evaluates b branches on !b
                neg = not neg
                n = m["e"]
                continue
            return {"k": "Un", "op": "!", "e": m, "l": m.get("l")} if neg else m
        return None

    def line(self, n):
        return n.get("l") if isinstance(n, dict) else None


# -------------------------------------------------------------------------------------------------
# regular languages over event labels
# -------------------------------------------------------------------------------------------------

class NFA:
    def __init__(self):
        self.n = 0
        self.eps = {}
        self.tr = {}
        self.start = None
        self.accept = set()

    def new(self):
        self.n += 1
        return self.n - 1

    def add(self, a, lab, b):
        if lab is None:
            self.eps.setdefault(a, set()).add(b)
        else:
            self.tr.setdefault(a, {}).setdefault(lab, set()).add(b)

    def closure(self, ss):
        st = list(ss)
        seen = set(ss)
        while st:
            x = st.pop()
            for y in self.eps.get(x, ()):
                if y not in seen:
                    seen.add(y)
                    st.append(y)
        return frozenset(seen)

    def step(self, ss, lab):
        out = set()
        for s in ss:
            out |= self.tr.get(s, {}).get(lab, set())
        return self.closure(out)

    def labels(self, ss):
        out = set()
        for s in ss:
            out |= set(self.tr.get(s, {}).keys())
        return out

    def accepting(self, ss):
        return bool(ss & self.accept)

    def live(self):
        """states from which an accepting state is reachable"""
        rev = {}
        for a, m in self.tr.items():
            for lab, bs in m.items():
                for b in bs:
                    rev.setdefault(b, set()).add(a)
        for a, bs in self.eps.items():
            for b in bs:
                rev.setdefault(b, set()).add(a)
        seen = set(self.accept)
        st = list(self.accept)
        while st:
            x = st.pop()
            for y in rev.get(x, ()):
                if y not in seen:
                    seen.add(y)
                    st.append(y)
        return seen


def regex_nfa(rx):
    """rx: ('sym', label) | ('seq', [rx...]) | ('star', rx) | ('alt', [rx...]) | ('eps',)"""
    nfa = NFA()

    def build(r):
        a, b = nfa.new(), nfa.new()
        if r[0] == "sym":
            nfa.add(a, r[1], b)
        elif r[0] == "eps":
            nfa.add(a, None, b)
        elif r[0] == "seq":
            cur = a
            for x in r[1]:
                s, e = build(x)
                nfa.add(cur, None, s)
                cur = e
            nfa.add(cur, None, b)
        elif r[0] == "alt":
            for x in r[1]:
                s, e = build(x)
                nfa.add(a, None, s)
                nfa.add(e, None, b)
        elif r[0] == "star":
            s, e = build(r[1])
            nfa.add(a, None, s)
            nfa.add(e, None, s)
            nfa.add(a, None, b)
            nfa.add(e, None, b)
        else:
            raise ValueError(r)
        return a, b
    s, e = build(rx)
    nfa.start = s
    nfa.accept = {e}
    return nfa


def cfg_nfa(view, label_of):
    """event NFA of a function: label_of(stmt id) -> label or None.  Accepting = normal exits."""
    nfa = NFA()
    cfg = view.cfg
    entry = {}
    for b in cfg.blocks:
        entry[b] = nfa.new()
    fin = nfa.new()
    normal = set(cfg.normal_exit_preds())
    for b, blk in cfg.blocks.items():
        cur = entry[b]
        for e in blk["el"]:
            lab = label_of(e)
            if lab is not None:
                nx = nfa.new()
                nfa.add(cur, lab, nx)
                cur = nx
        if blk.get("noreturn"):
            continue
        for s in blk.get("succ", []):
            if s is None:
                continue
            if s == cfg.exit:
                if b in normal:
                    nfa.add(cur, None, fin)
            else:
                nfa.add(cur, None, entry[s])
    nfa.start = entry[cfg.entry]
    nfa.accept = {fin}
    return nfa


def lang_diff(a, b, only_left=False):
    """shortest word accepted by exactly one of the NFAs: (word, 'left'|'right') or None if equal;
    only_left: only words accepted by a and not by b (language inclusion a <= b)"""
    from collections import deque
    la, lb = a.live(), b.live()
    sa = a.closure({a.start})
    sb = b.closure({b.start})
    q = deque([(sa, sb, ())])
    seen = {(sa, sb)}
    while q:
        x, y, w = q.popleft()
        ax, ay = a.accepting(x), b.accepting(y)
        if ax != ay and (ax or not only_left):
            return w, ("left" if ax else "right")
        for lab in sorted(a.labels(x) | b.labels(y), key=str):
            nx = frozenset(s for s in a.step(x, lab) if s in la)
            ny = frozenset(s for s in b.step(y, lab) if s in lb)
            if not nx and not ny:
                continue
            if (nx, ny) not in seen:
                seen.add((nx, ny))
                q.append((nx, ny, w + (lab,)))
    return None
