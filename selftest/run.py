#!/usr/bin/env python3
"""selftest/run.py [Cxx ...] [-j N]  — runs every mutant (*.patch must give exit 1) and benign variant
(*.benign.patch must give exit 0; *.benign2.patch may also give exit 2 = "construct not modelled", never exit 1) of the given
properties against scratch copies of /repo.  Not part of any registered check."""
import concurrent.futures, glob, os, subprocess, sys
HERE = os.path.dirname(os.path.abspath(__file__))
ROOT = os.path.dirname(HERE)

def one(pid, patch):
    p = subprocess.run([sys.executable, os.path.join(ROOT, "tools", "mutant_test.py"), pid, patch], capture_output=True, text=True)
    rc = p.returncode
    benign = patch.endswith(".benign.patch") or patch.endswith(".benign2.patch")
    viol = [l for l in p.stdout.splitlines() if l.startswith("  rule=")]
    brk = [l for l in p.stdout.splitlines() if l.startswith("ANALYSIS-BROKEN")]
    return pid, os.path.basename(patch), benign, rc, viol[:2], brk[:2]

def main():
    args = [a for a in sys.argv[1:] if not a.startswith("-")]
    j = int(sys.argv[sys.argv.index("-j") + 1]) if "-j" in sys.argv else 8
    if "-j" in sys.argv:
        args = [a for a in args if a != sys.argv[sys.argv.index("-j") + 1]]
    allow2 = "--allow-incomplete" in sys.argv
    pids = [a.upper() for a in args] or sorted(d.upper() for d in os.listdir(HERE) if os.path.isdir(os.path.join(HERE, d)))
    jobs = []
    for pid in pids:
        for patch in sorted(glob.glob(os.path.join(HERE, pid.lower(), "*.patch"))):
            jobs.append((pid, patch))
    bad = 0
    with concurrent.futures.ThreadPoolExecutor(max_workers=j) as ex:
        for pid, name, benign, rc, viol, brk in ex.map(lambda a: one(*a), jobs):
            want = "0" if benign else "1"
            ok = (rc == 0 or ((allow2 or name.endswith(".benign2.patch")) and rc == 2)) if benign else rc == 1
            print("%-4s %-50s %-7s exit=%d %s" % (pid, name, "benign" if benign else "mutant", rc, "ok" if ok else "UNEXPECTED (want %s)" % want))
            for l in (viol if not benign or not ok else []) + (brk if not ok else []):
                print("       " + l.strip()[:230])
            bad += 0 if ok else 1
    print("selftest: %d patches, %d unexpected" % (len(jobs), bad))
    return 1 if bad else 0

if __name__ == "__main__":
    sys.exit(main())
