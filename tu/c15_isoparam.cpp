// instantiation driver (no logic): the iso-parametric trafo evaluators (kernel/trafo/isoparam/evaluator.hpp) of the
// hypercube shapes for the mapping degrees 1, 2, 3, incl. the facet evaluators in the cell's world dimension.
// Only forces instantiations; nothing here is analysed.
#include <kernel/geometry/conformal_mesh.hpp>
#include <kernel/trafo/isoparam/mapping.hpp>
using namespace FEAT;

#ifndef C15_DT
#define C15_DT double
#endif
typedef C15_DT DT;

template<typename Shape_, int degree_, typename EvalShape_ = Shape_>
void inst_iso(Trafo::Isoparam::Mapping<Geometry::ConformalMesh<Shape_, Shape_::dimension, DT>, degree_>& trafo)
{
  typedef Trafo::Isoparam::Mapping<Geometry::ConformalMesh<Shape_, Shape_::dimension, DT>, degree_> TrafoType;
  typedef typename TrafoType::template Evaluator<EvalShape_, DT>::Type TrafoEval;
  static constexpr TrafoTags cfg = TrafoEval::eval_caps;
  typename TrafoEval::template ConfigTraits<cfg>::EvalDataType trafo_data;
  typename TrafoEval::DomainPointType dom_point;
  TrafoEval trafo_eval(trafo);
  trafo_eval.prepare(Index(0));
  trafo_eval(trafo_data, dom_point);
  trafo_eval.finish();
}

template<typename Shape_, int degree_>
void inst_iso_all(Geometry::ConformalMesh<Shape_, Shape_::dimension, DT>& mesh)
{
  Trafo::Isoparam::Mapping<Geometry::ConformalMesh<Shape_, Shape_::dimension, DT>, degree_> trafo(mesh);
  inst_iso<Shape_, degree_>(trafo);
}

void inst_all(Geometry::ConformalMesh<Shape::Hypercube<1>, 1, DT>& m1, Geometry::ConformalMesh<Shape::Hypercube<2>, 2, DT>& m2, Geometry::ConformalMesh<Shape::Hypercube<3>, 3, DT>& m3)
{
  inst_iso_all<Shape::Hypercube<1>, 1>(m1); inst_iso_all<Shape::Hypercube<1>, 2>(m1); inst_iso_all<Shape::Hypercube<1>, 3>(m1);
  inst_iso_all<Shape::Hypercube<2>, 1>(m2); inst_iso_all<Shape::Hypercube<2>, 2>(m2); inst_iso_all<Shape::Hypercube<2>, 3>(m2);
  inst_iso_all<Shape::Hypercube<3>, 1>(m3); inst_iso_all<Shape::Hypercube<3>, 2>(m3); inst_iso_all<Shape::Hypercube<3>, 3>(m3);
  // facet evaluators embedded in the world dimension of the cell (used by the node functionals / trace assembly)
  { Trafo::Isoparam::Mapping<Geometry::ConformalMesh<Shape::Hypercube<2>, 2, DT>, 3> t(m2); inst_iso<Shape::Hypercube<2>, 3, Shape::Hypercube<1>>(t); }
  { Trafo::Isoparam::Mapping<Geometry::ConformalMesh<Shape::Hypercube<3>, 3, DT>, 3> t(m3); inst_iso<Shape::Hypercube<3>, 3, Shape::Hypercube<2>>(t); inst_iso<Shape::Hypercube<3>, 3, Shape::Hypercube<1>>(t); }
}
