// instantiation driver (no logic): Vanka preconditioner over saddle-point matrices (scalar CSR blocks and BCSR blocks)
#include <kernel/lafem/sparse_matrix_csr.hpp>
#include <kernel/lafem/sparse_matrix_bcsr.hpp>
#include <kernel/lafem/saddle_point_matrix.hpp>
#include <kernel/lafem/tuple_filter.hpp>
#include <kernel/lafem/none_filter.hpp>
#include <kernel/lafem/unit_filter.hpp>
#include <kernel/lafem/unit_filter_blocked.hpp>
#include <kernel/solver/vanka.hpp>
using namespace FEAT;
typedef LAFEM::SparseMatrixCSR<double, Index> Csr;
typedef LAFEM::SaddlePointMatrix<Csr, Csr, Csr> SadCsr;
typedef LAFEM::TupleFilter<LAFEM::UnitFilter<double, Index>, LAFEM::NoneFilter<double, Index>> FilCsr;
template class Solver::Vanka<SadCsr, FilCsr>;
typedef LAFEM::SaddlePointMatrix<LAFEM::SparseMatrixBCSR<double, Index, 2, 2>, LAFEM::SparseMatrixBCSR<double, Index, 2, 1>, LAFEM::SparseMatrixBCSR<double, Index, 1, 2>> SadBcsr;
typedef LAFEM::TupleFilter<LAFEM::UnitFilterBlocked<double, Index, 2>, LAFEM::NoneFilter<double, Index>> FilBcsr;
template class Solver::Vanka<SadBcsr, FilBcsr>;
