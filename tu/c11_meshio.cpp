// instantiation driver (no logic): mesh file reader/writer for the six conformal shapes,
// all chart classes of the atlas (2D and 3D), partitions; graph (de)serialisation and PropertyMap
// are non-template code and are parsed from the repository's own .cpp files.
#include <kernel/geometry/mesh_file_reader.hpp>
#include <kernel/geometry/mesh_file_writer.hpp>
#include <kernel/geometry/partition_set.hpp>
using namespace FEAT;
using namespace FEAT::Geometry;
template<typename Shape_, int wd_> void inst()
{
  typedef ConformalMesh<Shape_, wd_, Real> MeshType;
  MeshAtlas<MeshType> atlas;
  RootMeshNode<MeshType> node(nullptr, &atlas);
  PartitionSet part_set;
  std::stringstream ios;
  MeshFileReader reader(ios);
  reader.read_root_markup();
  reader.parse(node, atlas, &part_set);
  std::unique_ptr<RootMeshNode<MeshType>> p = reader.parse(atlas, &part_set);
  MeshFileWriter writer(ios, true);
  writer.write(&node, &atlas, &part_set, true);
}
void inst_all()
{
  inst<Shape::Simplex<1>, 1>(); inst<Shape::Simplex<2>, 2>(); inst<Shape::Simplex<3>, 3>();
  inst<Shape::Hypercube<1>, 1>(); inst<Shape::Hypercube<2>, 2>(); inst<Shape::Hypercube<3>, 3>();
  inst<Shape::Hypercube<2>, 3>(); inst<Shape::Simplex<2>, 3>();
}
