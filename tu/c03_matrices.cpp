// instantiation driver (no logic): CSR / BCSR matrices with the matrix-algebra operations of property C03.
// BCSR 2x3 exercises rectangular blocks (block height != width), 3x3 the square-only products.
// VERIF_THOROUGH adds float / 32-bit indices.
#include <kernel/lafem/sparse_matrix_csr.hpp>
#include <kernel/lafem/sparse_matrix_bcsr.hpp>
#include <kernel/lafem/dense_matrix.hpp>
using namespace FEAT;
using namespace FEAT::LAFEM;
template class FEAT::LAFEM::SparseMatrixCSR<double, Index>;
template class FEAT::LAFEM::SparseMatrixBCSR<double, Index, 3, 3>;
template class FEAT::LAFEM::SparseMatrixBCSR<double, Index, 2, 3>;
template class FEAT::LAFEM::DenseMatrix<double, Index>;   // multiply -> Arch::ProductMatMat call sites
#ifdef VERIF_THOROUGH
template class FEAT::LAFEM::SparseMatrixCSR<float, std::uint32_t>;
template class FEAT::LAFEM::SparseMatrixCSR<double, std::uint32_t>;
template class FEAT::LAFEM::SparseMatrixBCSR<float, std::uint32_t, 2, 2>;
template class FEAT::LAFEM::SparseMatrixBCSR<float, std::uint64_t, 3, 1>;
#endif
