// instantiation driver (no logic): the copy-like operations (move construction / assignment, clone, convert) of every
// filter class, for rule C06.state-transfer.  Kept apart from c06_filters.cpp so that members that do not instantiate
// (reported by E0.copy-ops) cannot disturb the facts of the filter_* methods.
#include <kernel/lafem/dense_vector.hpp>
#include <kernel/lafem/dense_vector_blocked.hpp>
#include <kernel/lafem/sparse_matrix_csr.hpp>
#include <kernel/lafem/sparse_matrix_bcsr.hpp>
#include <kernel/lafem/tuple_vector.hpp>
#include <kernel/lafem/power_vector.hpp>
#include <kernel/lafem/vector_mirror.hpp>
#include <kernel/lafem/unit_filter.hpp>
#include <kernel/lafem/unit_filter_blocked.hpp>
#include <kernel/lafem/slip_filter.hpp>
#include <kernel/lafem/mean_filter.hpp>
#include <kernel/lafem/mean_filter_blocked.hpp>
#include <kernel/lafem/none_filter.hpp>
#include <kernel/lafem/filter_chain.hpp>
#include <kernel/lafem/filter_sequence.hpp>
#include <kernel/lafem/tuple_filter.hpp>
#include <kernel/lafem/power_filter.hpp>
#include <kernel/global/vector.hpp>
#include <kernel/global/filter.hpp>
#include <kernel/global/mean_filter.hpp>
using namespace FEAT;

template<typename F_> void op_move(F_& a) { F_ b(std::move(a)); a = std::move(b); }
template<typename F_> void op_clone_value(F_& a) { F_ c(a.clone()); (void)c; }
template<typename F_> void op_clone_from(F_& a, F_& c) { c.clone(a); }
template<typename F_> void op_convert(F_& a, F_& c) { c.convert(a); }
template<typename F_, typename V_> void op_apply(const F_& f, V_& v) { f.filter_rhs(v); f.filter_sol(v); f.filter_def(v); f.filter_cor(v); }

template<typename F_> void copy_ops()
{
  F_ a, c;
  op_move(a); op_clone_value(a); op_clone_from(a, c); op_convert(a, c);
  typename F_::VectorType* v(nullptr);
  op_apply(a, *v);
}

// inner levels of the recursive compositions: their filter_* members are named here explicitly, so that they are instantiated
// whether or not the outer level reaches them through its own recursion (a loop / a private helper may replace that recursion)
template<typename F_, typename V_> void apply_only()
{
  F_ a;
  V_* v(nullptr);
  op_apply(a, *v);
}

template<typename DT_, typename IT_> void inst()
{
  typedef LAFEM::UnitFilter<DT_, IT_> UF;
  typedef LAFEM::UnitFilterBlocked<DT_, IT_, 2> UFB;
  typedef LAFEM::MeanFilter<DT_, IT_> MF;
  copy_ops<UF>();
  copy_ops<UFB>();
  copy_ops<LAFEM::SlipFilter<DT_, IT_, 2>>();
  copy_ops<MF>();
  copy_ops<LAFEM::MeanFilterBlocked<DT_, IT_, 2>>();
  copy_ops<Global::MeanFilter<DT_, IT_>>();
  copy_ops<LAFEM::FilterChain<UF, MF>>();
  copy_ops<LAFEM::TupleFilter<UFB, MF>>();
  copy_ops<LAFEM::PowerFilter<UF, 2>>();
  apply_only<LAFEM::FilterChain<MF>, typename MF::VectorType>();
  apply_only<LAFEM::TupleFilter<MF>, typename LAFEM::TupleFilter<MF>::VectorType>();
  apply_only<LAFEM::PowerFilter<UF, 1>, typename LAFEM::PowerFilter<UF, 1>::VectorType>();
  copy_ops<LAFEM::FilterSequence<UF>>();
  copy_ops<LAFEM::FilterSequence<UFB>>();
  copy_ops<Global::Filter<UF, LAFEM::VectorMirror<DT_, IT_>>>();
}

void inst_all()
{
  inst<double, std::uint64_t>();
}
