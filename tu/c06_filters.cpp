// instantiation driver (no logic): every filter class of C06 with the members the property names.
// C06_WIDE adds float / 32-bit-index instantiations (thorough tier).
#include <kernel/lafem/dense_vector.hpp>
#include <kernel/lafem/dense_vector_blocked.hpp>
#include <kernel/lafem/sparse_matrix_csr.hpp>
#include <kernel/lafem/sparse_matrix_bcsr.hpp>
#include <kernel/lafem/tuple_vector.hpp>
#include <kernel/lafem/power_vector.hpp>
#include <kernel/lafem/vector_mirror.hpp>
#include <kernel/lafem/unit_filter.hpp>
#include <kernel/lafem/unit_filter_blocked.hpp>
#include <kernel/lafem/slip_filter.hpp>
#include <kernel/lafem/mean_filter.hpp>
#include <kernel/lafem/mean_filter_blocked.hpp>
#include <kernel/lafem/none_filter.hpp>
#include <kernel/lafem/filter_chain.hpp>
#include <kernel/lafem/filter_sequence.hpp>
#include <kernel/lafem/tuple_filter.hpp>
#include <kernel/lafem/power_filter.hpp>
#include <kernel/global/vector.hpp>
#include <kernel/global/filter.hpp>
#include <kernel/global/mean_filter.hpp>
using namespace FEAT;

template<typename F_, typename V_> void vec4(const F_& f, V_& v)
{
  f.filter_rhs(v); f.filter_sol(v); f.filter_def(v); f.filter_cor(v);
}

template<typename DT_, typename IT_> void inst()
{
  typedef LAFEM::DenseVector<DT_, IT_> DV;
  typedef LAFEM::DenseVectorBlocked<DT_, IT_, 2> DVB2;
  typedef LAFEM::DenseVectorBlocked<DT_, IT_, 3> DVB3;
  DV dv; DVB2 dvb2; DVB3 dvb3;

  // unit filter: vectors and CSR / BCSR<1,w> matrices
  LAFEM::UnitFilter<DT_, IT_> uf;
  vec4(uf, dv);
  LAFEM::SparseMatrixCSR<DT_, IT_> csr;
  LAFEM::SparseMatrixBCSR<DT_, IT_, 1, 2> b12;
  uf.filter_mat(csr); uf.filter_offdiag_row_mat(csr); uf.filter_offdiag_row_mat(b12);

  // blocked unit filter: vectors and BCSR matrices (square and rectangular blocks)
  LAFEM::UnitFilterBlocked<DT_, IT_, 2> ub2;
  LAFEM::UnitFilterBlocked<DT_, IT_, 3> ub3;
  vec4(ub2, dvb2); vec4(ub3, dvb3);
  LAFEM::SparseMatrixBCSR<DT_, IT_, 2, 2> b22;
  LAFEM::SparseMatrixBCSR<DT_, IT_, 2, 3> b23;
  LAFEM::SparseMatrixBCSR<DT_, IT_, 3, 3> b33;
  LAFEM::SparseMatrixBCSR<DT_, IT_, 3, 2> b32;
  ub2.filter_mat(b22); ub2.filter_mat(b23); ub3.filter_mat(b33); ub3.filter_mat(b32);
  ub2.filter_offdiag_row_mat(b22); ub2.filter_offdiag_row_mat(b23);
  ub3.filter_offdiag_row_mat(b33); ub3.filter_offdiag_row_mat(b32);

  // slip filter
  LAFEM::SlipFilter<DT_, IT_, 2> sf2;
  LAFEM::SlipFilter<DT_, IT_, 3> sf3;
  vec4(sf2, dvb2); vec4(sf3, dvb3);

  // mean filters
  LAFEM::MeanFilter<DT_, IT_> mf;
  LAFEM::MeanFilterBlocked<DT_, IT_, 2> mfb2;
  LAFEM::MeanFilterBlocked<DT_, IT_, 3> mfb3;
  Global::MeanFilter<DT_, IT_> gmf;
  vec4(mf, dv); vec4(mfb2, dvb2); vec4(mfb3, dvb3); vec4(gmf, dv);

  // none filters (must not touch anything)
  LAFEM::NoneFilter<DT_, IT_> nf;
  LAFEM::NoneFilterBlocked<DT_, IT_, 2> nfb;
  vec4(nf, dv); vec4(nfb, dvb2); nf.filter_mat(csr); nfb.filter_mat(b22);

  // compositions
  LAFEM::FilterChain<LAFEM::UnitFilter<DT_, IT_>, LAFEM::MeanFilter<DT_, IT_>, LAFEM::UnitFilter<DT_, IT_>> chain;
  vec4(chain, dv); chain.filter_mat(csr);
  LAFEM::FilterChain<LAFEM::SlipFilter<DT_, IT_, 2>, LAFEM::UnitFilterBlocked<DT_, IT_, 2>> chain_b;
  vec4(chain_b, dvb2);
  LAFEM::FilterSequence<LAFEM::UnitFilter<DT_, IT_>> seq;
  vec4(seq, dv); seq.filter_mat(csr);
  LAFEM::FilterSequence<LAFEM::UnitFilterBlocked<DT_, IT_, 2>> seq_b;
  vec4(seq_b, dvb2); seq_b.filter_mat(b22);
  typedef LAFEM::TupleFilter<LAFEM::UnitFilterBlocked<DT_, IT_, 2>, LAFEM::MeanFilter<DT_, IT_>, LAFEM::UnitFilter<DT_, IT_>> TF;
  TF tf; typename TF::VectorType tv;
  vec4(tf, tv);
  typedef LAFEM::PowerFilter<LAFEM::UnitFilter<DT_, IT_>, 3> PF;
  PF pf; typename PF::VectorType pv;
  vec4(pf, pv);
  // inner levels of the recursive compositions, named explicitly: they are instantiated whether or not the outer level reaches them
  // through its own first()/rest() recursion (a loop over get(i) or a private helper template may replace that recursion)
  LAFEM::FilterChain<LAFEM::MeanFilter<DT_, IT_>, LAFEM::UnitFilter<DT_, IT_>> chain_r1;
  LAFEM::FilterChain<LAFEM::UnitFilter<DT_, IT_>> chain_r2;
  LAFEM::FilterChain<LAFEM::UnitFilterBlocked<DT_, IT_, 2>> chain_b1;
  vec4(chain_r1, dv); vec4(chain_r2, dv); vec4(chain_b1, dvb2);
  typedef LAFEM::TupleFilter<LAFEM::MeanFilter<DT_, IT_>, LAFEM::UnitFilter<DT_, IT_>> TF1;
  typedef LAFEM::TupleFilter<LAFEM::UnitFilter<DT_, IT_>> TF2;
  TF1 tf1; typename TF1::VectorType tv1; TF2 tf2; typename TF2::VectorType tv2;
  vec4(tf1, tv1); vec4(tf2, tv2);
  typedef LAFEM::PowerFilter<LAFEM::UnitFilter<DT_, IT_>, 2> PF2;
  typedef LAFEM::PowerFilter<LAFEM::UnitFilter<DT_, IT_>, 1> PF1;
  PF2 pf2; typename PF2::VectorType pv2; PF1 pf1; typename PF1::VectorType pv1;
  vec4(pf2, pv2); vec4(pf1, pv1);
  typedef Global::Filter<LAFEM::UnitFilter<DT_, IT_>, LAFEM::VectorMirror<DT_, IT_>> GF;
  GF gf; typename GF::VectorType* gv(nullptr);
  vec4(gf, *gv);
  typedef Global::Filter<TF, LAFEM::VectorMirror<DT_, IT_>> GTF;
  GTF gtf; typename GTF::VectorType* gtv(nullptr);
  vec4(gtf, *gtv);
}

void inst_all()
{
  inst<double, std::uint64_t>();
#ifdef C06_WIDE
  inst<float, std::uint64_t>();
  inst<double, std::uint32_t>();
  inst<float, std::uint32_t>();
#endif
}
