// instantiation driver (no logic): every vector kind with the operations of property C04.
// Whole-class explicit instantiation is used for the leaf containers and the meta vectors; member
// templates (copy<>, size<pod>, convert) are instantiated through the never-called functions below.
// VERIF_THOROUGH adds float / 32-bit indices / further block sizes.
#include <kernel/lafem/dense_vector.hpp>
#include <kernel/lafem/dense_vector_blocked.hpp>
#include <kernel/lafem/sparse_vector.hpp>
#include <kernel/lafem/sparse_vector_blocked.hpp>
#include <kernel/lafem/tuple_vector.hpp>
#include <kernel/lafem/power_vector.hpp>
using namespace FEAT;
using namespace FEAT::LAFEM;

template class FEAT::LAFEM::DenseVector<double, Index>;
template class FEAT::LAFEM::DenseVectorBlocked<double, Index, 3>;
template class FEAT::LAFEM::DenseVectorBlocked<double, Index, 2>;
template class FEAT::LAFEM::SparseVector<double, Index>;
template class FEAT::LAFEM::SparseVectorBlocked<double, Index, 2>;
typedef DenseVector<double, Index> DV;
typedef DenseVectorBlocked<double, Index, 3> DVB;
template class FEAT::LAFEM::TupleVector<DV, DVB, DV>;
template class FEAT::LAFEM::TupleVector<DVB, DV>;
template class FEAT::LAFEM::TupleVector<DV>;
template class FEAT::LAFEM::TupleVector<DVB>;
template class FEAT::LAFEM::PowerVector<DV, 3>;
template class FEAT::LAFEM::PowerVector<DV, 2>;
template class FEAT::LAFEM::PowerVector<DV, 1>;
template class FEAT::LAFEM::PowerVector<DVB, 2>;
template class FEAT::LAFEM::PowerVector<DVB, 1>;

template<typename V_> void c04_meta_members(V_& a, const V_& b)
{
  a.copy(b);
  a.copy(b, true);
  (void)a.template size<Perspective::pod>();
  (void)a.template size<Perspective::native>();
}
void c04_inst_meta(TupleVector<DV, DVB, DV>& t3, TupleVector<DVB, DV>& t2, TupleVector<DV>& t1, TupleVector<DVB>& t1b,
  PowerVector<DV, 3>& p3, PowerVector<DV, 2>& p2, PowerVector<DV, 1>& p1, PowerVector<DVB, 2>& q2, PowerVector<DVB, 1>& q1)
{
  c04_meta_members(t3, t3); c04_meta_members(t2, t2); c04_meta_members(t1, t1); c04_meta_members(t1b, t1b);
  c04_meta_members(p3, p3); c04_meta_members(p2, p2); c04_meta_members(p1, p1);
  c04_meta_members(q2, q2); c04_meta_members(q1, q1);
}

// DenseVector adopting the pod array of a blocked vector (member template convert<DT2_, IT2_, BS2_>)
void c04_inst_convert(DV& d, const DVB& b3, const DenseVectorBlocked<double, Index, 2>& b2)
{
  d.convert(b3);
  d.convert(b2);
}

#ifdef VERIF_THOROUGH
template class FEAT::LAFEM::DenseVector<float, std::uint32_t>;
template class FEAT::LAFEM::DenseVector<double, std::uint32_t>;
template class FEAT::LAFEM::DenseVectorBlocked<float, std::uint32_t, 4>;
template class FEAT::LAFEM::DenseVectorBlocked<float, Index, 1>;
template class FEAT::LAFEM::SparseVector<float, std::uint32_t>;
template class FEAT::LAFEM::SparseVectorBlocked<float, std::uint32_t, 3>;
typedef DenseVector<float, std::uint32_t> DVf;
typedef DenseVectorBlocked<float, std::uint32_t, 4> DVBf;
template class FEAT::LAFEM::TupleVector<DVBf, DVf, DVBf>;
template class FEAT::LAFEM::PowerVector<DVBf, 3>;
template class FEAT::LAFEM::PowerVector<TupleVector<DVf, DVBf>, 2>;
template class FEAT::LAFEM::TupleVector<PowerVector<DVf, 2>, DVBf>;
void c04_inst_meta_thorough(TupleVector<DVBf, DVf, DVBf>& t3, PowerVector<DVBf, 3>& p3, PowerVector<TupleVector<DVf, DVBf>, 2>& pt, TupleVector<PowerVector<DVf, 2>, DVBf>& tp)
{
  c04_meta_members(t3, t3); c04_meta_members(p3, p3); c04_meta_members(pt, pt); c04_meta_members(tp, tp);
}
#endif
