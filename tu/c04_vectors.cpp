#include <kernel/lafem/dense_vector.hpp>
#include <kernel/lafem/dense_vector_blocked.hpp>
#include <kernel/lafem/sparse_vector.hpp>
#include <kernel/lafem/sparse_vector_blocked.hpp>
#include <kernel/lafem/tuple_vector.hpp>
#include <kernel/lafem/power_vector.hpp>
using namespace FEAT;
using namespace FEAT::LAFEM;
template class FEAT::LAFEM::DenseVector<double, Index>;
template class FEAT::LAFEM::DenseVectorBlocked<double, Index, 3>;
template class FEAT::LAFEM::SparseVector<double, Index>;
template class FEAT::LAFEM::SparseVectorBlocked<double, Index, 2>;
typedef DenseVector<double, Index> DV;
typedef DenseVectorBlocked<double, Index, 3> DVB;
template class FEAT::LAFEM::TupleVector<DV, DVB, DV>;
template class FEAT::LAFEM::TupleVector<DVB, DV>;
template class FEAT::LAFEM::TupleVector<DV>;
template class FEAT::LAFEM::PowerVector<DV, 3>;
template class FEAT::LAFEM::PowerVector<DV, 2>;
template class FEAT::LAFEM::PowerVector<DV, 1>;
template class FEAT::LAFEM::PowerVector<DVB, 2>;
template class FEAT::LAFEM::PowerVector<DVB, 1>;
