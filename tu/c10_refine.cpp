// instantiation driver (no logic): standard refinement of conformal meshes and mesh parts for all
// six conformal shapes (index, vertex and target refiners, entity counters, orientation tables)
#include <kernel/geometry/conformal_mesh.hpp>
#include <kernel/geometry/mesh_part.hpp>
using namespace FEAT;
using namespace FEAT::Geometry;

template class FEAT::Geometry::StandardRefinery<ConformalMesh<Shape::Hypercube<1>, 1, double>>;
template class FEAT::Geometry::StandardRefinery<ConformalMesh<Shape::Hypercube<2>, 2, double>>;
template class FEAT::Geometry::StandardRefinery<ConformalMesh<Shape::Hypercube<3>, 3, double>>;
template class FEAT::Geometry::StandardRefinery<ConformalMesh<Shape::Simplex<1>, 1, double>>;
template class FEAT::Geometry::StandardRefinery<ConformalMesh<Shape::Simplex<2>, 2, double>>;
template class FEAT::Geometry::StandardRefinery<ConformalMesh<Shape::Simplex<3>, 3, double>>;

template class FEAT::Geometry::StandardRefinery<MeshPart<ConformalMesh<Shape::Hypercube<1>, 1, double>>>;
template class FEAT::Geometry::StandardRefinery<MeshPart<ConformalMesh<Shape::Hypercube<2>, 2, double>>>;
template class FEAT::Geometry::StandardRefinery<MeshPart<ConformalMesh<Shape::Hypercube<3>, 3, double>>>;
template class FEAT::Geometry::StandardRefinery<MeshPart<ConformalMesh<Shape::Simplex<1>, 1, double>>>;
template class FEAT::Geometry::StandardRefinery<MeshPart<ConformalMesh<Shape::Simplex<2>, 2, double>>>;
template class FEAT::Geometry::StandardRefinery<MeshPart<ConformalMesh<Shape::Simplex<3>, 3, double>>>;

// references (no logic) to the face counts and refinement counts of all shapes, so that the
// constants appear as resolved declarations in the fact base
template<typename Shape_, int dim_>
int c10_counts()
{
  return Shape::FaceTraits<Shape_, dim_>::count + FEAT::Geometry::Intern::StandardRefinementTraits<Shape_, dim_>::count;
}
int c10_all_counts()
{
  return c10_counts<Shape::Vertex, 0>()
    + c10_counts<Shape::Hypercube<1>, 0>() + c10_counts<Shape::Hypercube<1>, 1>()
    + c10_counts<Shape::Hypercube<2>, 0>() + c10_counts<Shape::Hypercube<2>, 1>() + c10_counts<Shape::Hypercube<2>, 2>()
    + c10_counts<Shape::Hypercube<3>, 0>() + c10_counts<Shape::Hypercube<3>, 1>() + c10_counts<Shape::Hypercube<3>, 2>() + c10_counts<Shape::Hypercube<3>, 3>()
    + c10_counts<Shape::Simplex<1>, 0>() + c10_counts<Shape::Simplex<1>, 1>()
    + c10_counts<Shape::Simplex<2>, 0>() + c10_counts<Shape::Simplex<2>, 1>() + c10_counts<Shape::Simplex<2>, 2>()
    + c10_counts<Shape::Simplex<3>, 0>() + c10_counts<Shape::Simplex<3>, 1>() + c10_counts<Shape::Simplex<3>, 2>() + c10_counts<Shape::Simplex<3>, 3>();
}

// reference cell vertex coordinates (instantiation only)
template<typename Shape_>
int c10_ref_vertex(int v, int c)
{
  return Shape::ReferenceCell<Shape_>::template vertex<int>(v, c);
}
template int c10_ref_vertex<Shape::Hypercube<1>>(int, int);
template int c10_ref_vertex<Shape::Hypercube<2>>(int, int);
template int c10_ref_vertex<Shape::Hypercube<3>>(int, int);
template int c10_ref_vertex<Shape::Simplex<1>>(int, int);
template int c10_ref_vertex<Shape::Simplex<2>>(int, int);
template int c10_ref_vertex<Shape::Simplex<3>>(int, int);

// boundary facet re-orientation (CongruencyMapping::flip, CongruencySampler::orientation)
#include <kernel/geometry/facet_flipper.hpp>
template class FEAT::Geometry::FacetFlipper<Shape::Hypercube<2>>;
template class FEAT::Geometry::FacetFlipper<Shape::Hypercube<3>>;
template class FEAT::Geometry::FacetFlipper<Shape::Simplex<2>>;
template class FEAT::Geometry::FacetFlipper<Shape::Simplex<3>>;

// dual adaption of refined meshes (RootMeshNode::refine_unique with AdaptMode::dual)
#include <kernel/geometry/intern/dual_adaptor.hpp>
template struct FEAT::Geometry::Intern::DualAdaptor<ConformalMesh<Shape::Hypercube<1>, 1, double>>;
template struct FEAT::Geometry::Intern::DualAdaptor<ConformalMesh<Shape::Hypercube<2>, 2, double>>;
template struct FEAT::Geometry::Intern::DualAdaptor<ConformalMesh<Shape::Hypercube<3>, 3, double>>;
template struct FEAT::Geometry::Intern::DualAdaptor<ConformalMesh<Shape::Simplex<1>, 1, double>>;
template struct FEAT::Geometry::Intern::DualAdaptor<ConformalMesh<Shape::Simplex<2>, 2, double>>;
template struct FEAT::Geometry::Intern::DualAdaptor<ConformalMesh<Shape::Simplex<3>, 3, double>>;

// mesh node refinement (halos / patches / mesh parts) and mesh permutations (instantiation only)
#include <kernel/geometry/mesh_node.hpp>
template<typename Mesh_>
void c10_node_members()
{
  auto p_refine = &RootMeshNode<Mesh_>::refine_unique;
  auto p_permute = &RootMeshNode<Mesh_>::create_permutation;
  (void)p_refine; (void)p_permute;
}
template void c10_node_members<ConformalMesh<Shape::Hypercube<1>, 1, double>>();
template void c10_node_members<ConformalMesh<Shape::Hypercube<2>, 2, double>>();
template void c10_node_members<ConformalMesh<Shape::Hypercube<3>, 3, double>>();
template void c10_node_members<ConformalMesh<Shape::Simplex<1>, 1, double>>();
template void c10_node_members<ConformalMesh<Shape::Simplex<2>, 2, double>>();
template void c10_node_members<ConformalMesh<Shape::Simplex<3>, 3, double>>();

// copy-like operations (move construction / move assignment / clone) of the mesh classes and their holders
template class FEAT::Geometry::ConformalMesh<Shape::Hypercube<2>, 2, double>;
template class FEAT::Geometry::ConformalMesh<Shape::Hypercube<3>, 3, double>;
template class FEAT::Geometry::ConformalMesh<Shape::Simplex<2>, 2, double>;
template class FEAT::Geometry::ConformalMesh<Shape::Simplex<3>, 3, double>;
template class FEAT::Geometry::MeshPart<ConformalMesh<Shape::Hypercube<2>, 2, double>>;
template class FEAT::Geometry::MeshPart<ConformalMesh<Shape::Hypercube<3>, 3, double>>;
template class FEAT::Geometry::MeshPart<ConformalMesh<Shape::Simplex<2>, 2, double>>;
template class FEAT::Geometry::MeshPart<ConformalMesh<Shape::Simplex<3>, 3, double>>;
template class FEAT::Geometry::IndexSetHolder<Shape::Hypercube<3>>;
template class FEAT::Geometry::IndexSetHolder<Shape::Simplex<3>>;
template class FEAT::Geometry::TargetSetHolder<Shape::Hypercube<3>>;
template class FEAT::Geometry::TargetSetHolder<Shape::Simplex<3>>;
template class FEAT::Geometry::MeshPermutation<Shape::Hypercube<3>>;
template class FEAT::Geometry::MeshPermutation<Shape::Simplex<3>>;
template class FEAT::Geometry::IndexSet<4>;
template class FEAT::Geometry::VertexSet<3, double>;

// topology deduction of mesh parts from their parent (MeshPart::deduct_topology -> IndexSetFiller, RedundantIndexSetBuilder);
// the 2D/3D mesh parts are instantiated as whole classes above, the 1D ones by address (instantiation only)
template<typename Mesh_>
void c10_part_topology()
{
  auto p_deduct = &MeshPart<Mesh_>::deduct_topology;
  (void)p_deduct;
}
template void c10_part_topology<ConformalMesh<Shape::Hypercube<1>, 1, double>>();
template void c10_part_topology<ConformalMesh<Shape::Simplex<1>, 1, double>>();

// custom mesh permutations: the inverse (re)builder of every shape (instantiation only)
template<typename Shape_>
void c10_perm_inverse()
{
  auto p_inv = &MeshPermutation<Shape_>::create_inverse_permutations;
  (void)p_inv;
}
template void c10_perm_inverse<Shape::Hypercube<1>>();
template void c10_perm_inverse<Shape::Hypercube<2>>();
template void c10_perm_inverse<Shape::Simplex<1>>();
template void c10_perm_inverse<Shape::Simplex<2>>();

// boundary computation: plain and masked boundary factories (BoundaryFaceComputer::compute_all / compute_masks)
#include <kernel/geometry/boundary_factory.hpp>
template class FEAT::Geometry::BoundaryFactory<ConformalMesh<Shape::Hypercube<2>, 2, double>>;
template class FEAT::Geometry::BoundaryFactory<ConformalMesh<Shape::Hypercube<3>, 3, double>>;
template class FEAT::Geometry::BoundaryFactory<ConformalMesh<Shape::Simplex<2>, 2, double>>;
template class FEAT::Geometry::BoundaryFactory<ConformalMesh<Shape::Simplex<3>, 3, double>>;
template class FEAT::Geometry::MaskedBoundaryFactory<ConformalMesh<Shape::Hypercube<2>, 2, double>>;
template class FEAT::Geometry::MaskedBoundaryFactory<ConformalMesh<Shape::Hypercube<3>, 3, double>>;
template class FEAT::Geometry::MaskedBoundaryFactory<ConformalMesh<Shape::Simplex<2>, 2, double>>;
template class FEAT::Geometry::MaskedBoundaryFactory<ConformalMesh<Shape::Simplex<3>, 3, double>>;
