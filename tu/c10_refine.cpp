// instantiation driver (no logic): standard refinement of conformal meshes and mesh parts for all
// six conformal shapes (index, vertex and target refiners, entity counters, orientation tables)
#include <kernel/geometry/conformal_mesh.hpp>
#include <kernel/geometry/mesh_part.hpp>
using namespace FEAT;
using namespace FEAT::Geometry;

template class FEAT::Geometry::StandardRefinery<ConformalMesh<Shape::Hypercube<1>, 1, double>>;
template class FEAT::Geometry::StandardRefinery<ConformalMesh<Shape::Hypercube<2>, 2, double>>;
template class FEAT::Geometry::StandardRefinery<ConformalMesh<Shape::Hypercube<3>, 3, double>>;
template class FEAT::Geometry::StandardRefinery<ConformalMesh<Shape::Simplex<1>, 1, double>>;
template class FEAT::Geometry::StandardRefinery<ConformalMesh<Shape::Simplex<2>, 2, double>>;
template class FEAT::Geometry::StandardRefinery<ConformalMesh<Shape::Simplex<3>, 3, double>>;

template class FEAT::Geometry::StandardRefinery<MeshPart<ConformalMesh<Shape::Hypercube<1>, 1, double>>>;
template class FEAT::Geometry::StandardRefinery<MeshPart<ConformalMesh<Shape::Hypercube<2>, 2, double>>>;
template class FEAT::Geometry::StandardRefinery<MeshPart<ConformalMesh<Shape::Hypercube<3>, 3, double>>>;
template class FEAT::Geometry::StandardRefinery<MeshPart<ConformalMesh<Shape::Simplex<1>, 1, double>>>;
template class FEAT::Geometry::StandardRefinery<MeshPart<ConformalMesh<Shape::Simplex<2>, 2, double>>>;
template class FEAT::Geometry::StandardRefinery<MeshPart<ConformalMesh<Shape::Simplex<3>, 3, double>>>;
