// instantiation driver (no logic): the 16 iterative solvers of property C07, every member
// (apply, correct, _apply_intern, both constructors, setters) by explicit class instantiation.
// C07_THOROUGH adds a blocked matrix with float/32-bit indices and a second filter.
#include <kernel/base_header.hpp>
#include <kernel/lafem/sparse_matrix_csr.hpp>
#include <kernel/lafem/sparse_matrix_bcsr.hpp>
#include <kernel/lafem/dense_vector.hpp>
#include <kernel/lafem/dense_vector_blocked.hpp>
#include <kernel/lafem/unit_filter.hpp>
#include <kernel/lafem/unit_filter_blocked.hpp>
#include <kernel/lafem/none_filter.hpp>
#include <kernel/lafem/vector_mirror.hpp>
#include <kernel/global/gate.hpp>
#include <kernel/global/vector.hpp>
#include <kernel/global/matrix.hpp>
#include <kernel/global/filter.hpp>
#include <kernel/solver/base.hpp>
#include <kernel/solver/iterative.hpp>
#include <kernel/solver/pcg.hpp>
#include <kernel/solver/pcr.hpp>
#include <kernel/solver/bicgstab.hpp>
#include <kernel/solver/bicgstabl.hpp>
#include <kernel/solver/fgmres.hpp>
#include <kernel/solver/gmres.hpp>
#include <kernel/solver/richardson.hpp>
#include <kernel/solver/rgcr.hpp>
#include <kernel/solver/idrs.hpp>
#include <kernel/solver/pcgnr.hpp>
#include <kernel/solver/pipepcg.hpp>
#include <kernel/solver/gropppcg.hpp>
#include <kernel/solver/rbicgstab.hpp>
#include <kernel/solver/pmr.hpp>
#include <kernel/solver/chebyshev.hpp>
#include <kernel/solver/pcgnrilu.hpp>

namespace FEAT
{
  namespace Solver
  {
    typedef LAFEM::SparseMatrixCSR<double, Index> MatA;
    typedef LAFEM::UnitFilter<double, Index> FilA;

    template class IterativeSolver<LAFEM::DenseVector<double, Index>>;
    template class PreconditionedIterativeSolver<LAFEM::DenseVector<double, Index>>;
    template class PCG<MatA, FilA>;
    template class PCR<MatA, FilA>;
    template class BiCGStab<MatA, FilA>;
    template class BiCGStabL<MatA, FilA>;
    template class FGMRES<MatA, FilA>;
    template class GMRES<MatA, FilA>;
    template class Richardson<MatA, FilA>;
    template class RGCR<MatA, FilA>;
    template class IDRS<MatA, FilA>;
    template class PCGNR<MatA, FilA>;
    // PipePCG, GroppPCG, RBiCGStab use norm2_async()/dot_async(), which only Global::Vector offers
    typedef LAFEM::VectorMirror<double, Index> MirA;
    typedef Global::Matrix<MatA, MirA, MirA> MatG;
    typedef Global::Filter<FilA, MirA> FilG;
    template class PipePCG<MatG, FilG>;
    template class GroppPCG<MatG, FilG>;
    template class RBiCGStab<MatG, FilG>;
    template class PMR<MatA, FilA>;
    template class Chebyshev<MatA, FilA>;
    template class PCGNRILU<MatA, FilA>;

#ifdef C07_THOROUGH
    typedef LAFEM::SparseMatrixBCSR<float, unsigned int, 2, 2> MatB;
    typedef LAFEM::UnitFilterBlocked<float, unsigned int, 2> FilB;
    typedef LAFEM::NoneFilterBlocked<float, unsigned int, 2> FilN;

    template class IterativeSolver<LAFEM::DenseVectorBlocked<float, unsigned int, 2>>;
    template class PreconditionedIterativeSolver<LAFEM::DenseVectorBlocked<float, unsigned int, 2>>;
    template class PCG<MatB, FilB>;
    template class PCR<MatB, FilB>;
    template class BiCGStab<MatB, FilB>;
    template class BiCGStabL<MatB, FilB>;
    template class FGMRES<MatB, FilB>;
    template class GMRES<MatB, FilB>;
    template class Richardson<MatB, FilB>;
    template class RGCR<MatB, FilB>;
    template class IDRS<MatB, FilB>;
    typedef LAFEM::VectorMirror<float, unsigned int> MirB;
    typedef Global::Matrix<MatB, MirB, MirB> MatGB;
    typedef Global::Filter<FilN, MirB> FilGB;
    template class PipePCG<MatGB, FilGB>;
    template class GroppPCG<MatGB, FilGB>;
    template class RBiCGStab<MatGB, FilGB>;
    template class PCG<MatGB, FilGB>;
    template class PMR<MatB, FilN>;
    template class Chebyshev<MatB, FilN>;
#endif
  }
}
