// instantiation driver (no logic): additive Schwarz preconditioner over Global vectors / filters (C08 rule E7.status-filter)
#include <kernel/lafem/dense_vector.hpp>
#include <kernel/lafem/vector_mirror.hpp>
#include <kernel/lafem/unit_filter.hpp>
#include <kernel/global/vector.hpp>
#include <kernel/global/filter.hpp>
#include <kernel/solver/schwarz_precond.hpp>
using namespace FEAT;
typedef LAFEM::DenseVector<double, Index> LocVec;
typedef LAFEM::VectorMirror<double, Index> Mirror;
typedef Global::Vector<LocVec, Mirror> GlobVec;
typedef Global::Filter<LAFEM::UnitFilter<double, Index>, Mirror> GlobFil;
template class Solver::SchwarzPrecond<GlobVec, GlobFil>;
