// instantiation driver (no logic): Math::invert_matrix, the pivoted Gauss-Jordan inversion behind Tiny::Matrix::set_inverse for
// block sizes >= 7 (blocked SOR / SSOR / ILU diagonal blocks) — C08, rule E4.extremum-measure
#include <kernel/util/math.hpp>

using namespace FEAT;

template double FEAT::Math::invert_matrix<double, Index>(const Index, const Index, double[], Index[]);
