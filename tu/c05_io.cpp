// instantiation driver (no logic): persistence members of every LAFEM container (binary container
// format with same-type and cross-type serialisation parameters, MatrixMarket / exponent text modes),
// the meta containers' stream/file recursion and checkpoint packing, CheckpointControl and Pack.
// Used by C05 only.  The cross-type parameters are chosen so that the four unit types of the
// serialised stream (std::uint64_t header words, DT2_, IT2_, char) are pairwise distinct types.
#include <kernel/lafem/container.hpp>
#include <kernel/lafem/dense_vector.hpp>
#include <kernel/lafem/dense_vector_blocked.hpp>
#include <kernel/lafem/sparse_vector.hpp>
#include <kernel/lafem/sparse_vector_blocked.hpp>
#include <kernel/lafem/dense_matrix.hpp>
#include <kernel/lafem/sparse_matrix_csr.hpp>
#include <kernel/lafem/sparse_matrix_bcsr.hpp>
#include <kernel/lafem/sparse_matrix_cscr.hpp>
#include <kernel/lafem/sparse_matrix_banded.hpp>
#include <kernel/lafem/matrix_mirror_buffer.hpp>
#include <kernel/lafem/power_vector.hpp>
#include <kernel/lafem/tuple_vector.hpp>
#include <kernel/lafem/power_col_matrix.hpp>
#include <kernel/lafem/power_row_matrix.hpp>
#include <kernel/lafem/power_diag_matrix.hpp>
#include <kernel/lafem/power_full_matrix.hpp>
#include <kernel/lafem/tuple_matrix.hpp>
#include <kernel/lafem/tuple_diag_matrix.hpp>
#include <kernel/lafem/saddle_point_matrix.hpp>
#include <kernel/util/pack.hpp>
#include <kernel/util/binary_stream.hpp>
#include <control/checkpoint_control.hpp>

#include <sstream>

using namespace FEAT;
using namespace FEAT::LAFEM;

#ifndef C05_DT
#define C05_DT double
#define C05_IT std::uint64_t
#define C05_DT2 float
#define C05_IT2 std::uint32_t
#endif

typedef C05_DT DT;
typedef C05_IT IT;
typedef C05_DT2 DT2;
typedef C05_IT2 IT2;

template<typename C_>
void inst_container_io(C_& c, const C_& cc, std::iostream& s, const String& name, std::vector<char>& buf, SerialConfig& cfg)
{
  // stream and file variants of the public file-mode interface
  cc.write_out(FileMode::fm_binary, s);
  cc.write_out(FileMode::fm_binary, name);
  c.read_from(FileMode::fm_binary, s);
  c.read_from(FileMode::fm_binary, name);
  // binary container format, same type and cross type
  buf = cc.serialize(cfg);
  c.deserialize(buf);
  buf = cc.template serialize<DT2, IT2>(cfg);
  c.template deserialize<DT2, IT2>(buf);
  // checkpoint interface of the container
  (void)c.get_checkpoint_size(cfg);
  (void)c.set_checkpoint_data(buf, cfg);
  c.restore_from_checkpoint_data(buf);
}

template<typename M_>
void inst_meta_stream_io(M_& m, const M_& cm, std::iostream& s, const String& name, std::vector<char>& buf, SerialConfig& cfg)
{
  cm.write_out(FileMode::fm_binary, s);
  cm.write_out(FileMode::fm_binary, name);
  m.read_from(FileMode::fm_binary, s);
  m.read_from(FileMode::fm_binary, name);
  (void)m.get_checkpoint_size(cfg);
  (void)m.set_checkpoint_data(buf, cfg);
  m.restore_from_checkpoint_data(buf);
}

template<typename M_>
void inst_meta_file_io(M_& m, const M_& cm, const String& name, std::vector<char>& buf, SerialConfig& cfg)
{
  cm.write_out(FileMode::fm_binary, name);
  m.read_from(FileMode::fm_binary, name);
  M_ other(FileMode::fm_binary, name);
  (void)m.get_checkpoint_size(cfg);
  (void)m.set_checkpoint_data(buf, cfg);
  m.restore_from_checkpoint_data(buf);
}

template<typename T_>
void inst_pack(T_* p, const T_* cp, void* raw, const void* craw, std::size_t n, Pack::Type t)
{
  (void)Pack::estimate_size(n, t, 1e-3);
  (void)Pack::encode<T_>(raw, cp, n, n, t, false, 1e-3);
  (void)Pack::decode<T_>(p, const_cast<void*>(craw), n, n, t, false);
}

void c05_inst_all(std::iostream& s, const String& name, std::vector<char>& buf, SerialConfig& cfg, const Dist::Comm& comm, BinaryStream& bs)
{
  {
    DenseVector<DT, IT> a; inst_container_io(a, a, s, name, buf, cfg);
    DenseVectorBlocked<DT, IT, 3> b; inst_container_io(b, b, s, name, buf, cfg);
    SparseVector<DT, IT> c; inst_container_io(c, c, s, name, buf, cfg);
    SparseVectorBlocked<DT, IT, 2> d; inst_container_io(d, d, s, name, buf, cfg);
    DenseMatrix<DT, IT> e; inst_container_io(e, e, s, name, buf, cfg);
    SparseMatrixCSR<DT, IT> f; inst_container_io(f, f, s, name, buf, cfg);
    SparseMatrixBCSR<DT, IT, 2, 3> g; inst_container_io(g, g, s, name, buf, cfg);
    SparseMatrixCSCR<DT, IT> h; inst_container_io(h, h, s, name, buf, cfg);
    SparseMatrixBanded<DT, IT> i; inst_container_io(i, i, s, name, buf, cfg);
    MatrixMirrorBuffer<DT, IT> j;
    buf = j.serialize(); j.deserialize(buf);
    buf = j.template serialize<DT2, IT2>(); j.template deserialize<DT2, IT2>(buf);
    // file constructors
    DenseVector<DT, IT> a2(FileMode::fm_binary, name); DenseVector<DT, IT> a3(FileMode::fm_binary, s);
    SparseMatrixCSR<DT, IT> f2(FileMode::fm_mtx, name); SparseMatrixCSR<DT, IT> f3(FileMode::fm_mtx, s);
    f.write_out(FileMode::fm_mtx, name, true);
    // the constructors that leave the arrays unallocated (empty-container clause)
    SparseMatrixCSR<DT, IT> f4(3, 5); SparseMatrixBCSR<DT, IT, 2, 3> g4(3, 5); DenseVector<DT, IT> a4(Index(0)); DenseVectorBlocked<DT, IT, 3> b4(Index(0));
    SparseVector<DT, IT> c4(Index(7)); DenseMatrix<DT, IT> e4(3, 5);
    // growth paths that replace the arrays of a live container (the size tables the serialiser reads must follow)
    c4(Index(1), DT(1)); (void)c4(Index(1));
    SparseVectorBlocked<DT, IT, 2> d4(Index(7)); d4(Index(1), Tiny::Vector<DT, 2>(DT(1))); (void)d4(Index(1));
  }
  {
    typedef DenseVector<DT, IT> V;
    typedef DenseVectorBlocked<DT, IT, 2> VB;
    PowerVector<V, 3> pv; inst_meta_stream_io(pv, pv, s, name, buf, cfg);
    PowerVector<V, 1> pv1; inst_meta_stream_io(pv1, pv1, s, name, buf, cfg);
    TupleVector<V, VB, V> tv; inst_meta_stream_io(tv, tv, s, name, buf, cfg);
    TupleVector<V> tv1; inst_meta_stream_io(tv1, tv1, s, name, buf, cfg);
    TupleVector<PowerVector<V, 2>, V> tpv; inst_meta_stream_io(tpv, tpv, s, name, buf, cfg);
  }
  {
    typedef SparseMatrixCSR<DT, IT> M;
    typedef DenseVector<DT, IT> V;
    PowerColMatrix<M, 3> pc; inst_meta_file_io(pc, pc, name, buf, cfg);
    PowerRowMatrix<M, 3> pr; inst_meta_file_io(pr, pr, name, buf, cfg);
    PowerDiagMatrix<M, 3> pd; inst_meta_file_io(pd, pd, name, buf, cfg);
    PowerFullMatrix<M, 2, 3> pf; inst_meta_file_io(pf, pf, name, buf, cfg);
    TupleDiagMatrix<M, M, M> td; inst_meta_file_io(td, td, name, buf, cfg);
    SaddlePointMatrix<M, M, M> sp; inst_meta_file_io(sp, sp, name, buf, cfg);
    TupleMatrix<TupleMatrixRow<M, M>, TupleMatrixRow<M, M> > tm;
    (void)tm.get_checkpoint_size(cfg); (void)tm.set_checkpoint_data(buf, cfg); tm.restore_from_checkpoint_data(buf);
  }
  {
    inst_pack<double>(nullptr, nullptr, nullptr, nullptr, 0, Pack::Type::F64);
    inst_pack<float>(nullptr, nullptr, nullptr, nullptr, 0, Pack::Type::F32);
    inst_pack<std::uint64_t>(nullptr, nullptr, nullptr, nullptr, 0, Pack::Type::U64);
    inst_pack<std::uint32_t>(nullptr, nullptr, nullptr, nullptr, 0, Pack::Type::U32);
    inst_pack<std::int64_t>(nullptr, nullptr, nullptr, nullptr, 0, Pack::Type::I64);
  }
  {
    Control::CheckpointControl cc(comm, cfg);
    DenseVector<DT, IT> v;
    SparseMatrixCSR<DT, IT> m;
    cc.add_object(String("v"), v);
    cc.add_object(String("m"), m);
    cc.save(bs); cc.load(bs);
    cc.save(name); cc.load(name);
    cc.restore_object(String("v"), v);
    cc.restore_object(String("m"), m, false);
  }
}
