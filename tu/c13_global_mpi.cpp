// instantiation driver (no logic), parsed with -DFEAT_HAVE_MPI: the distributed layer of kernel/global
// (C13).  Whole-class instantiations discover candidates; the curated member list is in checks/c13.py.
#include <kernel/lafem/dense_vector.hpp>
#include <kernel/lafem/dense_vector_blocked.hpp>
#include <kernel/lafem/sparse_matrix_csr.hpp>
#include <kernel/lafem/sparse_matrix_bcsr.hpp>
#include <kernel/lafem/vector_mirror.hpp>
#include <kernel/lafem/matrix_mirror.hpp>
#include <kernel/lafem/unit_filter.hpp>
#include <kernel/lafem/unit_filter_blocked.hpp>
#include <kernel/lafem/none_filter.hpp>
#include <kernel/lafem/transfer.hpp>
#include <kernel/global/gate.hpp>
#include <kernel/global/synch_vec.hpp>
#include <kernel/global/synch_scal.hpp>
#include <kernel/global/synch_mat.hpp>
#include <kernel/global/muxer.hpp>
#include <kernel/global/splitter.hpp>
#include <kernel/global/vector.hpp>
#include <kernel/global/matrix.hpp>
#include <kernel/global/filter.hpp>
#include <kernel/global/transfer.hpp>

#ifndef FEAT_HAVE_MPI
#error "this driver is meant for the MPI-enabled parse"
#endif

using namespace FEAT;

#ifdef C13_ALT
typedef float DT;
typedef unsigned int IT;
#else
typedef double DT;
typedef Index IT;
#endif

typedef LAFEM::DenseVector<DT, IT> VecS;
typedef LAFEM::DenseVectorBlocked<DT, IT, 2> VecB;
typedef LAFEM::SparseMatrixCSR<DT, IT> MatS;
typedef LAFEM::SparseMatrixBCSR<DT, IT, 2, 2> MatB;
typedef LAFEM::VectorMirror<DT, IT> Mir;

// tickets
template class FEAT::Global::SynchVectorTicket<VecS, Mir>;
template class FEAT::Global::SynchVectorTicket<VecB, Mir>;
template class FEAT::Global::SynchScalarTicket<DT>;
template class FEAT::Global::SynchMatrix<MatS, Mir>;
template class FEAT::Global::SynchMatrix<MatB, Mir>;
// gate, muxer, splitter
template class FEAT::Global::Gate<VecS, Mir>;
template class FEAT::Global::Gate<VecB, Mir>;
template class FEAT::Global::Muxer<VecS, Mir>;
template class FEAT::Global::Muxer<VecB, Mir>;
template class FEAT::Global::Splitter<VecS, Mir>;
template class FEAT::Global::Splitter<VecB, Mir>;
// global containers
template class FEAT::Global::Vector<VecS, Mir>;
template class FEAT::Global::Vector<VecB, Mir>;
template class FEAT::Global::Matrix<MatS, Mir, Mir>;
template class FEAT::Global::Matrix<MatB, Mir, Mir>;
template class FEAT::Global::Filter<LAFEM::UnitFilter<DT, IT>, Mir>;
template class FEAT::Global::Filter<LAFEM::UnitFilterBlocked<DT, IT, 2>, Mir>;
template class FEAT::Global::Transfer<LAFEM::Transfer<MatS>, Mir>;
// mirrors: gather / scatter member templates for every vector kind
template class FEAT::LAFEM::VectorMirror<DT, IT>;
template class FEAT::LAFEM::MatrixMirror<DT, IT>;

void inst_mirror_members(const Mir& m, VecS& buf, VecS& vs, VecB& vb, LAFEM::SparseVector<DT, IT>& sv, LAFEM::SparseVectorBlocked<DT, IT, 2>& svb)
{
  m.gather(buf, vs); m.scatter_axpy(vs, buf);
  m.gather(buf, vb); m.scatter_axpy(vb, buf);
  m.gather(buf, sv); m.scatter_axpy(sv, buf);
  m.gather(buf, svb); m.scatter_axpy(svb, buf);
  (void)m.buffer_size(vs); (void)m.buffer_size(vb);
  (void)m.create_buffer(vs); (void)m.create_buffer(vb);
}

// arch kernels by address
void inst_arch()
{
  auto p1 = &LAFEM::Arch::Mirror::gather_dv_generic<DT, IT>; (void)p1;
  auto p2 = &LAFEM::Arch::Mirror::scatter_dv_generic<DT, IT>; (void)p2;
  auto p3 = &LAFEM::Arch::Mirror::gather_dvb_generic<DT, IT>; (void)p3;
  auto p4 = &LAFEM::Arch::Mirror::scatter_dvb_generic<DT, IT>; (void)p4;
  auto p5 = &LAFEM::Arch::Mirror::gather_sv_generic<DT, IT>; (void)p5;
  auto p6 = &LAFEM::Arch::Mirror::scatter_sv_generic<DT, IT>; (void)p6;
  auto p7 = &LAFEM::Arch::Mirror::gather_svb_generic<DT, IT>; (void)p7;
  auto p8 = &LAFEM::Arch::Mirror::scatter_svb_generic<DT, IT>; (void)p8;
}

// explicit uses of the ticket move operations and of the global min/max reductions
template<typename Vec_>
void inst_ticket_moves(Vec_& v, const Dist::Comm& comm, const std::vector<int>& ranks, const std::vector<Mir>& mirrors)
{
  Global::SynchVectorTicket<Vec_, Mir> a(v, comm, ranks, mirrors);
  Global::SynchVectorTicket<Vec_, Mir> b(std::move(a));   // move constructor
  Global::SynchVectorTicket<Vec_, Mir> c;
  c = std::move(b);                                        // move assignment
  c.wait();
}

template<typename Vec_>
DT inst_vector_reductions(const Global::Vector<Vec_, Mir>& x)
{
  DT r = x.max_element() + x.min_element() + x.max_abs_element() + x.min_abs_element();
  r += x.max_element_async().wait() + x.min_element_async().wait() + x.max_abs_element_async().wait() + x.min_abs_element_async().wait();
  return r;
}

void inst_uses(VecS& vs, VecB& vb, const Dist::Comm& comm, const std::vector<int>& ranks, const std::vector<Mir>& mirrors,
  const Global::Vector<VecS, Mir>& gs, const Global::Vector<VecB, Mir>& gb)
{
  inst_ticket_moves(vs, comm, ranks, mirrors);
  inst_ticket_moves(vb, comm, ranks, mirrors);
  (void)inst_vector_reductions(gs);
  (void)inst_vector_reductions(gb);
}

// member templates that make a global container a conversion of another one (rule E1.global-copy-complete)
void inst_converts(Global::Vector<VecS, Mir>& v, const Global::Gate<VecS, Mir>* g, const Global::Vector<VecS, Mir>& vo,
  Global::Matrix<MatS, Mir, Mir>& m, Global::Gate<VecS, Mir>* rg, Global::Gate<VecS, Mir>* cg, const Global::Matrix<MatS, Mir, Mir>& mo)
{
  v.convert(g, vo);
  m.convert(rg, cg, mo);
}
