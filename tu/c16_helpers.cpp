// instantiation driver (no logic): the convenience wrappers of kernel/assembly/domain_assembler_helpers.hpp.
// Only forces instantiations; nothing here is analysed.
#include <kernel/assembly/domain_assembler.hpp>
#include <kernel/assembly/domain_assembler_helpers.hpp>
#include <kernel/assembly/common_operators.hpp>
#include <kernel/assembly/common_functionals.hpp>
#include <kernel/analytic/common.hpp>
#include <kernel/geometry/conformal_mesh.hpp>
#include <kernel/lafem/dense_vector.hpp>
#include <kernel/lafem/sparse_matrix_csr.hpp>
#include <kernel/space/lagrange1/element.hpp>
#include <kernel/space/lagrange2/element.hpp>
#include <kernel/trafo/standard/mapping.hpp>
using namespace FEAT;

typedef double DT;
typedef Index IT;
typedef Geometry::ConformalMesh<Shape::Hypercube<2>> MeshT;
typedef Trafo::Standard::Mapping<MeshT> TrafoT;
typedef Space::Lagrange2::Element<TrafoT> TestSpace;
typedef Space::Lagrange1::Element<TrafoT> TrialSpace;

void inst_wrappers(Assembly::DomainAssembler<TrafoT>& dom_asm, TestSpace& test, TrialSpace& trial,
  LAFEM::SparseMatrixCSR<DT, IT>& matrix, LAFEM::DenseVector<DT, IT>& vector)
{
  Assembly::Common::LaplaceOperator laplace;
  Analytic::Common::SineBubbleFunction<2> function;
  Assembly::Common::ForceFunctional<Analytic::Common::SineBubbleFunction<2>> force(function);
  String cubature("auto-degree:5");
  Assembly::assemble_bilinear_operator_matrix_1(dom_asm, matrix, laplace, test, cubature, DT(2));
  Assembly::assemble_bilinear_operator_matrix_2(dom_asm, matrix, laplace, test, trial, cubature, DT(2));
  Assembly::assemble_linear_functional_vector(dom_asm, vector, force, test, cubature, DT(2));
  Assembly::assemble_force_function_vector(dom_asm, vector, function, test, cubature, DT(2));
  auto i1 = Assembly::integrate_analytic_function<1, DT>(dom_asm, function, cubature); (void)i1;
  auto i2 = Assembly::integrate_discrete_function<1>(dom_asm, vector, test, cubature); (void)i2;
  auto i3 = Assembly::integrate_error_function<1>(dom_asm, function, vector, test, cubature); (void)i3;
}
