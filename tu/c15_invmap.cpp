// instantiation driver (no logic): the candidate-cell search of the inverse mapping for all six shapes and the two
// Interpolator::project entry points (scalar / blocked vector).  Only forces instantiations; nothing here is analysed.
#include <kernel/shape.hpp>
#include <kernel/geometry/conformal_mesh.hpp>
#include <kernel/trafo/standard/mapping.hpp>
#include <kernel/trafo/inverse_mapping.hpp>
#include <kernel/space/lagrange2/element.hpp>
#include <kernel/lafem/dense_vector.hpp>
#include <kernel/lafem/dense_vector_blocked.hpp>
#include <kernel/analytic/common.hpp>
#include <kernel/assembly/interpolator.hpp>
#include <vector>
using namespace FEAT;

#ifndef C15_DT
#define C15_DT double
#endif
typedef C15_DT DT;

template<typename Shape_>
void inst_candidates(Trafo::Standard::Mapping<Geometry::ConformalMesh<Shape_, Shape_::dimension, DT>>& trafo)
{
  typedef Trafo::InverseMapping<Trafo::Standard::Mapping<Geometry::ConformalMesh<Shape_, Shape_::dimension, DT>>, DT> InvMap;
  InvMap inv_map(trafo);
  typename InvMap::ImagePointType img_point;
  std::vector<Index> cells;
  volatile bool b = inv_map.find_candidate_cells(cells, img_point); (void)b;
}

void inst_all(
  Trafo::Standard::Mapping<Geometry::ConformalMesh<Shape::Simplex<1>, 1, DT>>& s1, Trafo::Standard::Mapping<Geometry::ConformalMesh<Shape::Simplex<2>, 2, DT>>& s2,
  Trafo::Standard::Mapping<Geometry::ConformalMesh<Shape::Simplex<3>, 3, DT>>& s3, Trafo::Standard::Mapping<Geometry::ConformalMesh<Shape::Hypercube<1>, 1, DT>>& h1,
  Trafo::Standard::Mapping<Geometry::ConformalMesh<Shape::Hypercube<2>, 2, DT>>& h2, Trafo::Standard::Mapping<Geometry::ConformalMesh<Shape::Hypercube<3>, 3, DT>>& h3)
{
  inst_candidates<Shape::Simplex<1>>(s1); inst_candidates<Shape::Simplex<2>>(s2); inst_candidates<Shape::Simplex<3>>(s3);
  inst_candidates<Shape::Hypercube<1>>(h1); inst_candidates<Shape::Hypercube<2>>(h2); inst_candidates<Shape::Hypercube<3>>(h3);

  // interpolation entry points
  Space::Lagrange2::Element<Trafo::Standard::Mapping<Geometry::ConformalMesh<Shape::Hypercube<2>, 2, DT>>> space(h2);
  LAFEM::DenseVector<DT, Index> vec_s;
  LAFEM::DenseVectorBlocked<DT, Index, 2> vec_b;
  Analytic::Common::SineBubbleFunction<2> fun_s;
  Analytic::Common::ParProfileVector<DT> fun_v;
  Assembly::Interpolator::project(vec_s, fun_s, space);
  Assembly::Interpolator::project(vec_b, fun_v, space);
}
