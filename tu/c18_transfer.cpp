// instantiation driver (no logic): transfer operator classes, grid-transfer assemblers and the
// control-layer transfer assembly entry points (C18)
#include <kernel/geometry/conformal_mesh.hpp>
#include <kernel/geometry/mesh_node.hpp>
#include <kernel/trafo/standard/mapping.hpp>
#include <kernel/space/lagrange1/element.hpp>
#include <kernel/space/lagrange2/element.hpp>
#include <kernel/space/discontinuous/element.hpp>
#include <kernel/lafem/dense_vector.hpp>
#include <kernel/lafem/dense_vector_blocked.hpp>
#include <kernel/lafem/sparse_matrix_csr.hpp>
#include <kernel/lafem/sparse_matrix_bcsr.hpp>
#include <kernel/lafem/sparse_matrix_bwrappedcsr.hpp>
#include <kernel/lafem/vector_mirror.hpp>
#include <kernel/lafem/transfer.hpp>
#include <kernel/global/transfer.hpp>
#include <kernel/assembly/grid_transfer.hpp>
#include <control/domain/domain_level.hpp>
#include <control/scalar_basic.hpp>
#include <control/blocked_basic.hpp>
#include <control/stokes_power.hpp>
#include <control/stokes_blocked.hpp>
#include <control/stokes_3field.hpp>
#include <control/scalar_mixed.hpp>
#include <control/asm/transfer_asm.hpp>
#include <control/asm/transfer_voxel_asm.hpp>
#include <control/domain/voxel_domain_control.hpp>

using namespace FEAT;

#ifdef C18_ALT
typedef float DT;
typedef unsigned int IT;
#else
typedef double DT;
typedef Index IT;
#endif
typedef LAFEM::SparseMatrixCSR<DT, IT> ScalarMatrix;
typedef LAFEM::SparseMatrixBWrappedCSR<DT, IT, 2> BlockedMatrix;
typedef LAFEM::VectorMirror<DT, IT> Mirror;

// transfer operator classes
template class FEAT::LAFEM::Transfer<ScalarMatrix>;
template class FEAT::LAFEM::Transfer<BlockedMatrix>;
template class FEAT::Global::Transfer<LAFEM::Transfer<ScalarMatrix>, Mirror>;
template class FEAT::Global::Transfer<LAFEM::Transfer<BlockedMatrix>, Mirror>;

template<typename Mesh_, template<typename> class Elem_>
void inst_grid_transfer()
{
  typedef Trafo::Standard::Mapping<Mesh_> TrafoT;
  typedef Elem_<TrafoT> SpaceT;
  Mesh_* mesh = nullptr;
  TrafoT trafo(*mesh);
  SpaceT space_f(trafo), space_c(trafo);
  ScalarMatrix mat;
  LAFEM::DenseVector<DT, IT> vec_f, vec_w, vec_c;
  String cub("x");
  Assembly::GridTransfer::assemble_prolongation(mat, vec_w, space_f, space_c, cub);
  Assembly::GridTransfer::assemble_prolongation_direct(mat, space_f, space_c, cub);
  Assembly::GridTransfer::assemble_truncation(mat, vec_w, space_f, space_c, cub);
  Assembly::GridTransfer::assemble_truncation_direct(mat, space_f, space_c, cub);
  Assembly::GridTransfer::prolongate_vector(vec_f, vec_w, vec_c, space_f, space_c, cub);
  Assembly::GridTransfer::prolongate_vector_direct(vec_f, vec_c, space_f, space_c, cub);
}

template<typename T_> using ElemP0 = Space::Discontinuous::ElementP0<T_>;

void inst_grid_transfer_all()
{
  inst_grid_transfer<Geometry::ConformalMesh<Shape::Hypercube<2>>, Space::Lagrange1::Element>();
  inst_grid_transfer<Geometry::ConformalMesh<Shape::Simplex<3>>, Space::Lagrange2::Element>();
  inst_grid_transfer<Geometry::ConformalMesh<Shape::Hypercube<3>>, ElemP0>();
}

// control layer: every transfer assembly entry point
typedef Geometry::ConformalMesh<Shape::Hypercube<2>> MeshQ2;
typedef Trafo::Standard::Mapping<MeshQ2> TrafoQ2;
typedef Space::Lagrange1::Element<TrafoQ2> SpaceQ1;
typedef Space::Lagrange2::Element<TrafoQ2> SpaceQ2;
typedef Space::Discontinuous::ElementP1<TrafoQ2> SpaceP1dc;
typedef Control::Domain::SimpleDomainLevel<MeshQ2, TrafoQ2, SpaceQ1> DomLvl;
typedef Control::Domain::VoxelDomainLevelWrapper<DomLvl> VoxDomLvl;
typedef Control::Domain::StokesDomainLevel<MeshQ2, TrafoQ2, SpaceQ2, SpaceP1dc> StokesDomLvl;

void inst_control(
  Control::ScalarBasicSystemLevel<DT, IT>& ss, Control::BlockedBasicSystemLevel<2, DT, IT>& bs,
  Control::StokesPowerSystemLevel<2, DT, IT>& ps,
  const Control::Domain::VirtualLevel<DomLvl>& vf, const Control::Domain::VirtualLevel<DomLvl>& vc,
  const Control::Domain::VirtualLevel<VoxDomLvl>& xf, const Control::Domain::VirtualLevel<VoxDomLvl>& xc,
  const Control::Domain::VirtualLevel<StokesDomLvl>& sf, const Control::Domain::VirtualLevel<StokesDomLvl>& sc)
{
  String cub("x");
  ss.assemble_transfer(ss, vf, vc, cub, true, true);
  ss.assemble_transfer(vf, vc, cub, true, true);
  ss.assemble_transfer_voxel(ss, xf, xc, cub, true, true);
  ss.assemble_transfer_voxel(xf, xc, cub, true, true);
  bs.assemble_transfer(bs, vf, vc, cub, true, true);
  bs.assemble_transfer(vf, vc, cub, true, true);
  ps.assemble_velocity_transfer(sf, sc, cub);
  ps.assemble_pressure_transfer(sf, sc, cub);
}

typedef Control::Domain::VoxelDomainLevelWrapper<StokesDomLvl> VoxStokesDomLvl;

void inst_control_composite(
  Control::StokesBlockedSystemLevel<2, DT, IT>& sb, Control::Stokes3FieldSystemLevel<2, 3, DT, IT>& s3,
  Control::ScalarMixedSystemLevel<2, DT, IT>& sm, Control::StokesPowerSystemLevel<2, DT, IT>& ps,
  const Control::Domain::VirtualLevel<StokesDomLvl>& sf, const Control::Domain::VirtualLevel<StokesDomLvl>& sc,
  const Control::Domain::VirtualLevel<VoxStokesDomLvl>& xf, const Control::Domain::VirtualLevel<VoxStokesDomLvl>& xc)
{
  String cub("x");
  sb.assemble_transfers(sb, sf, sc, cub, true, true, true);
  sb.assemble_transfers(sf, sc, cub, true, true, true);
  sb.assemble_transfers_voxel(sb, xf, xc, cub, true, true, true);
  sb.assemble_transfers_voxel(xf, xc, cub, true, true, true);
  sb.compile_system_transfer();
  sb.compile_scalar_transfer();
  s3.compile_system_transfer();
  sm.assemble_transfers(sm, sf, sc, cub, true, true, true);
  sm.compile_system_transfer();
  ps.compile_system_transfer();
}

// member templates: conversion between precisions / index types
void inst_convert(LAFEM::Transfer<LAFEM::SparseMatrixCSR<double, Index>>& td, const LAFEM::Transfer<LAFEM::SparseMatrixCSR<float, unsigned int>>& tf,
  Global::Transfer<LAFEM::Transfer<LAFEM::SparseMatrixCSR<double, Index>>, LAFEM::VectorMirror<double, Index>>& gd,
  const Global::Transfer<LAFEM::Transfer<LAFEM::SparseMatrixCSR<float, unsigned int>>, LAFEM::VectorMirror<float, unsigned int>>& gf,
  Global::Muxer<LAFEM::DenseVector<double, Index>, LAFEM::VectorMirror<double, Index>>* mux)
{
  td.convert(tf);
  gd.convert(mux, gf);
}

// generic inter-mesh transfer (assembled and matrix-free)
#include <kernel/adjacency/graph.hpp>
template<typename Mesh_, template<typename> class Elem_>
void inst_intermesh()
{
  typedef Trafo::Standard::Mapping<Mesh_> TrafoT;
  typedef Elem_<TrafoT> SpaceT;
  Mesh_* mesh = nullptr;
  TrafoT trafo(*mesh);
  SpaceT space_t(trafo), space_s(trafo);
  ScalarMatrix mat;
  LAFEM::DenseVector<DT, IT> vec_t, vec_w, vec_s;
  Adjacency::Graph trg2src;
  String cub("x");
  (void)Assembly::GridTransfer::assemble_intermesh_transfer(mat, vec_w, space_t, space_s, trg2src, cub);
  (void)Assembly::GridTransfer::assemble_intermesh_transfer_direct(mat, space_t, space_s, trg2src, cub);
  (void)Assembly::GridTransfer::transfer_intermesh_vector(vec_t, vec_w, vec_s, space_t, space_s, trg2src, cub);
  (void)Assembly::GridTransfer::transfer_intermesh_vector_direct(vec_t, vec_s, space_t, space_s, trg2src, cub);
}

void inst_intermesh_all()
{
#ifndef C18_ALT
  // (the inter-mesh transfer needs Trafo::InverseMapping<Trafo, DataType>, which does not instantiate for DataType = float on a
  //  double-precision mesh: kernel/trafo/inverse_mapping.hpp:261, outside C18's anchors, not a documented-supported combination)
  inst_intermesh<Geometry::ConformalMesh<Shape::Hypercube<2>>, Space::Lagrange1::Element>();
  inst_intermesh<Geometry::ConformalMesh<Shape::Simplex<3>>, Space::Lagrange2::Element>();
#endif
}

// mesh permutations (kernel/geometry/mesh_permutation.hpp): GridTransfer reads get_perm() / get_inv_perm() of both meshes, so every member that fills
// or copies the per-dimension permutation arrays belongs to the fact base (rule E2.mesh-permutation-dims)
#include <kernel/geometry/mesh_permutation.hpp>
template class FEAT::Geometry::MeshPermutation<FEAT::Shape::Hypercube<2>>;
template class FEAT::Geometry::MeshPermutation<FEAT::Shape::Simplex<3>>;
