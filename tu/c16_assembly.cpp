// instantiation driver (no logic): operators of common_operators.hpp, the classic cell-loop assemblers, the
// domain-assembler jobs (tasks), linear functionals, scatter/gather helpers and the symbolic assembler.
// Convention relied upon by checks/c16.py: every two-space route is instantiated with
//   TEST space  = Lagrange2 element,   TRIAL space = Lagrange1 element
// in the API's (test, trial) argument positions.
#include <kernel/geometry/conformal_mesh.hpp>
#include <kernel/trafo/standard/mapping.hpp>
#include <kernel/space/lagrange1/element.hpp>
#include <kernel/space/lagrange2/element.hpp>
#include <kernel/cubature/dynamic_factory.hpp>
#include <kernel/lafem/sparse_matrix_csr.hpp>
#include <kernel/lafem/sparse_matrix_bcsr.hpp>
#include <kernel/lafem/dense_vector.hpp>
#include <kernel/lafem/dense_vector_blocked.hpp>
#include <kernel/analytic/common.hpp>
#include <kernel/assembly/asm_traits.hpp>
#include <kernel/assembly/bilinear_operator_assembler.hpp>
#include <kernel/assembly/linear_functional_assembler.hpp>
#include <kernel/assembly/common_operators.hpp>
#include <kernel/assembly/common_functionals.hpp>
#include <kernel/assembly/basic_assembly_jobs.hpp>
#include <kernel/assembly/symbolic_assembler.hpp>
using namespace FEAT;

#ifndef C16_DT
#define C16_DT double
#endif
typedef C16_DT DT;
typedef Index IT;

template<int dim_> struct Types
{
  typedef Shape::Hypercube<dim_> ShapeType;
  typedef Geometry::ConformalMesh<ShapeType, dim_, DT> MeshType;
  typedef Trafo::Standard::Mapping<MeshType> TrafoType;
  typedef Space::Lagrange2::Element<TrafoType> TestSpace;   // TEST  := Lagrange2
  typedef Space::Lagrange1::Element<TrafoType> TrialSpace;  // TRIAL := Lagrange1
};

// one operator: configs as values + the evaluator exactly as the assemblers build it
template<typename Op_, int dim_>
void inst_operator(Op_& op)
{
  typedef Types<dim_> T;
  typedef Assembly::AsmTraits2<DT, typename T::TestSpace, typename T::TrialSpace, Op_::trafo_config, Op_::test_config, Op_::trial_config> AsmTraits;
  volatile int c_test = int(Op_::test_config), c_trial = int(Op_::trial_config), c_trafo = int(Op_::trafo_config);
  (void)c_test; (void)c_trial; (void)c_trafo;
  typename Op_::template Evaluator<AsmTraits> oper_eval(op);
  typename AsmTraits::TrafoEvalData trafo_data;
  typename AsmTraits::TestEvalData test_data;
  typename AsmTraits::TrialEvalData trial_data;
  oper_eval.set_point(trafo_data);
  auto v = oper_eval.eval(trial_data.phi[0], test_data.phi[0]);
  (void)v;
}

template<typename Fun_, int dim_>
void inst_functional(Fun_& fun)
{
  typedef Types<dim_> T;
  typedef Assembly::AsmTraits1<DT, typename T::TestSpace, Fun_::trafo_config, Fun_::test_config> AsmTraits;
  volatile int c_test = int(Fun_::test_config), c_trafo = int(Fun_::trafo_config);
  (void)c_test; (void)c_trafo;
  typename Fun_::template Evaluator<AsmTraits> func_eval(fun);
  typename AsmTraits::TrafoEvalData trafo_data;
  typename AsmTraits::TestEvalData test_data;
  func_eval.set_point(trafo_data);
  auto v = func_eval.eval(test_data.phi[0]);
  (void)v;
  // number of components of the functional's value (1 = scalar): the compile-time truth the check compares shapes with
  static constexpr int n_comps = int(sizeof(v) / sizeof(DT));
  volatile int c_comps = n_comps;
  (void)c_comps;
}

// the tag values the checks decode configs with
void inst_tags()
{
  volatile int s[] = {int(SpaceTags::value), int(SpaceTags::grad), int(SpaceTags::hess), int(SpaceTags::ref_value), int(SpaceTags::ref_grad), int(SpaceTags::ref_hess)};
  volatile int t[] = {int(TrafoTags::dom_point), int(TrafoTags::img_point), int(TrafoTags::jac_mat), int(TrafoTags::jac_inv), int(TrafoTags::jac_det), int(TrafoTags::hess_ten), int(TrafoTags::hess_inv)};
  (void)s; (void)t;
}

template<typename Job_>
void inst_task(Job_& job)
{
  typename Job_::Task task(job);
  task.prepare(Index(0));
  task.assemble();
  task.scatter();
  task.finish();
  task.combine();
}

void inst_all(Types<2>::TestSpace& test2, Types<2>::TrialSpace& trial2, Types<3>::TestSpace& test3, Types<3>::TrialSpace& trial3)
{
  using namespace Assembly::Common;
  inst_tags();
  Cubature::DynamicFactory cubature("auto-degree:5");
  String cubature_name("auto-degree:5");

  // ---- operators (2D and 3D) -------------------------------------------------------------------
  { LaplaceOperator op; inst_operator<LaplaceOperator, 2>(op); inst_operator<LaplaceOperator, 3>(op); }
  { LaplaceOperatorBlocked<2> op; inst_operator<LaplaceOperatorBlocked<2>, 2>(op); }
  { LaplaceOperatorBlocked<3> op; inst_operator<LaplaceOperatorBlocked<3>, 3>(op); }
  { LaplaceBeltramiOperator op; inst_operator<LaplaceBeltramiOperator, 2>(op); }
  { IdentityOperator op; inst_operator<IdentityOperator, 2>(op); }
  { IdentityOperatorBlocked<2> op; inst_operator<IdentityOperatorBlocked<2>, 2>(op); }
  { TrialDerivativeOperator op(0); inst_operator<TrialDerivativeOperator, 2>(op); }
  { TestDerivativeOperator op(0); inst_operator<TestDerivativeOperator, 2>(op); }
  { DivDivOperator op(0, 1); inst_operator<DivDivOperator, 2>(op); inst_operator<DivDivOperator, 3>(op); }
  { DuDvOperator op(0, 1); inst_operator<DuDvOperator, 2>(op); inst_operator<DuDvOperator, 3>(op); }
  { DuDvOperatorBlocked<2> op; inst_operator<DuDvOperatorBlocked<2>, 2>(op); }
  { DuDvOperatorBlocked<3> op; inst_operator<DuDvOperatorBlocked<3>, 3>(op); }
  { GradientTrialOperatorBlocked<2> op; inst_operator<GradientTrialOperatorBlocked<2>, 2>(op); }
  { GradientTestOperatorBlocked<2> op; inst_operator<GradientTestOperatorBlocked<2>, 2>(op); }
  { GradientTrialOperatorBlocked<3> op; inst_operator<GradientTrialOperatorBlocked<3>, 3>(op); }
  { GradientTestOperatorBlocked<3> op; inst_operator<GradientTestOperatorBlocked<3>, 3>(op); }
  { StressDivergenceOperator<2,3> op; inst_operator<StressDivergenceOperator<2,3>, 2>(op); }
  { StressDivergenceOperator<2,4> op; inst_operator<StressDivergenceOperator<2,4>, 2>(op); }
  { StressDivergenceOperator<3,6> op; inst_operator<StressDivergenceOperator<3,6>, 3>(op); }
  { StressDivergenceOperator<3,9> op; inst_operator<StressDivergenceOperator<3,9>, 3>(op); }
  { StrainRateTensorOperator<2,3> op; inst_operator<StrainRateTensorOperator<2,3>, 2>(op); }
  { StrainRateTensorOperator<2,4> op; inst_operator<StrainRateTensorOperator<2,4>, 2>(op); }
  { StrainRateTensorOperator<3,6> op; inst_operator<StrainRateTensorOperator<3,6>, 3>(op); }
  { StrainRateTensorOperator<3,9> op; inst_operator<StrainRateTensorOperator<3,9>, 3>(op); }

  // ---- functionals -------------------------------------------------------------------------------
  typedef Analytic::Common::SineBubbleFunction<2> Fun2;
  Fun2 fun2;
  { ForceFunctional<Fun2> f(fun2); inst_functional<ForceFunctional<Fun2>, 2>(f); }
  { LaplaceFunctional<Fun2> f(fun2); inst_functional<LaplaceFunctional<Fun2>, 2>(f); }
  // scalar 3D and vector-valued (blocked) variants: the vector-valued overloads of the evaluators' helpers
  typedef Analytic::Common::SineBubbleFunction<3> Fun3;
  Fun3 fun3;
  { ForceFunctional<Fun3> f(fun3); inst_functional<ForceFunctional<Fun3>, 3>(f); }
  { LaplaceFunctional<Fun3> f(fun3); inst_functional<LaplaceFunctional<Fun3>, 3>(f); }
  typedef Analytic::Common::ParProfileVector<DT> VFun2;
  VFun2 vfun2;
  { ForceFunctional<VFun2> f(vfun2); inst_functional<ForceFunctional<VFun2>, 2>(f); }
  { LaplaceFunctional<VFun2> f(vfun2); inst_functional<LaplaceFunctional<VFun2>, 2>(f); }
  typedef Analytic::Common::XYPlaneRotation<DT, 3> VFun3;
  VFun3 vfun3(DT(1), VFun3::PointType(DT(0)));
  { ForceFunctional<VFun3> f(vfun3); inst_functional<ForceFunctional<VFun3>, 3>(f); }
  { LaplaceFunctional<VFun3> f(vfun3); inst_functional<LaplaceFunctional<VFun3>, 3>(f); }

  // ---- classic cell-loop assemblers ----------------------------------------------------------------
  typedef LAFEM::SparseMatrixCSR<DT, IT> ScalarMatrix;
  typedef LAFEM::SparseMatrixBCSR<DT, IT, 2, 2> BlockedMatrix;
  typedef LAFEM::DenseVector<DT, IT> ScalarVector;
  typedef LAFEM::DenseVectorBlocked<DT, IT, 2> BlockedVector;
  ScalarMatrix mat_s, mat_s2; BlockedMatrix mat_b, mat_b2; ScalarVector vec_s, vec_s2, vec_t; BlockedVector vec_b, vec_b2;
  LaplaceOperator laplace; LaplaceOperatorBlocked<2> laplace_b;
  Assembly::BilinearOperatorAssembler::assemble_matrix2(mat_s2, laplace, test2, trial2, cubature, DT(1));
  Assembly::BilinearOperatorAssembler::assemble_matrix1(mat_s, laplace, test2, cubature, DT(1));
  Assembly::BilinearOperatorAssembler::assemble_matrix2(mat_b2, laplace_b, test2, trial2, cubature, DT(1));
  Assembly::BilinearOperatorAssembler::assemble_matrix1(mat_b, laplace_b, test2, cubature, DT(1));
  Assembly::BilinearOperatorAssembler::apply1(vec_s, vec_s2, laplace, test2, cubature, DT(1));
  Assembly::BilinearOperatorAssembler::apply2(vec_s, vec_t, laplace, test2, trial2, cubature, DT(1));
  ForceFunctional<Fun2> force(fun2);
  Assembly::LinearFunctionalAssembler::assemble_vector(vec_s, force, test2, cubature, DT(1));

  // ---- domain assembler jobs (tasks) -------------------------------------------------------------------
  { Assembly::BilinearOperatorMatrixAssemblyJob1<LaplaceOperator, ScalarMatrix, Types<2>::TestSpace> job(laplace, mat_s, test2, cubature_name, DT(1)); inst_task(job); }
  { Assembly::BilinearOperatorMatrixAssemblyJob2<LaplaceOperator, ScalarMatrix, Types<2>::TestSpace, Types<2>::TrialSpace> job(laplace, mat_s2, test2, trial2, cubature_name, DT(1)); inst_task(job); }
  { Assembly::BilinearOperatorMatrixAssemblyJob1<LaplaceOperatorBlocked<2>, BlockedMatrix, Types<2>::TestSpace> job(laplace_b, mat_b, test2, cubature_name, DT(1)); inst_task(job); }
  { Assembly::BilinearOperatorMatrixAssemblyJob2<LaplaceOperatorBlocked<2>, BlockedMatrix, Types<2>::TestSpace, Types<2>::TrialSpace> job(laplace_b, mat_b2, test2, trial2, cubature_name, DT(1)); inst_task(job); }
  { Assembly::LinearFunctionalAssemblyJob<ForceFunctional<Fun2>, ScalarVector, Types<2>::TestSpace> job(force, vec_s, test2, cubature_name, DT(1)); inst_task(job); }
  // operators whose test and trial configurations differ: the role of every forwarded configuration constant is visible
  { TrialDerivativeOperator op(0); Assembly::BilinearOperatorMatrixAssemblyJob2<TrialDerivativeOperator, ScalarMatrix, Types<2>::TestSpace, Types<2>::TrialSpace> job(op, mat_s2, test2, trial2, cubature_name, DT(1)); inst_task(job); }
  { TestDerivativeOperator op(0); Assembly::BilinearOperatorMatrixAssemblyJob2<TestDerivativeOperator, ScalarMatrix, Types<2>::TestSpace, Types<2>::TrialSpace> job(op, mat_s2, test2, trial2, cubature_name, DT(1)); inst_task(job); }
  { TrialDerivativeOperator op(0); Assembly::BilinearOperatorMatrixAssemblyJob1<TrialDerivativeOperator, ScalarMatrix, Types<2>::TestSpace> job(op, mat_s, test2, cubature_name, DT(1)); inst_task(job); }
  { LaplaceFunctional<Fun2> lf(fun2); Assembly::LinearFunctionalAssemblyJob<LaplaceFunctional<Fun2>, ScalarVector, Types<2>::TestSpace> job(lf, vec_s, test2, cubature_name, DT(1)); inst_task(job); }
  { Assembly::ForceFunctionalAssemblyJob<Fun2, ScalarVector, Types<2>::TestSpace> job(fun2, vec_s, test2, cubature_name, DT(1)); inst_task(job); }

  // ---- gather helpers ---------------------------------------------------------------------------------
  {
    Tiny::Matrix<DT, 9, 4> lm; Tiny::Matrix<Tiny::Matrix<DT,2,2>, 9, 4> lmb; Tiny::Vector<DT, 9> lv; Tiny::Vector<Tiny::Vector<DT,2>, 9> lvb;
    Types<2>::TestSpace::DofMappingType row_map(test2); Types<2>::TrialSpace::DofMappingType col_map(trial2);
    ScalarMatrix::GatherAxpy gm(mat_s2); gm(lm, row_map, col_map, DT(1));
    BlockedMatrix::ScatterAxpy smb(mat_b2); smb(lmb, row_map, col_map, DT(1));
    ScalarVector::GatherAxpy gv(vec_s); gv(lv, row_map, DT(1));
    BlockedVector::GatherAxpy gvb(vec_b); gvb(lvb, row_map, DT(1));
    BlockedVector::ScatterAxpy svb(vec_b2); svb(lvb, row_map, DT(1));
  }

  // ---- symbolic assembler ----------------------------------------------------------------------------------
  Adjacency::Graph g1(Assembly::SymbolicAssembler::assemble_graph_std1(test2));
  Adjacency::Graph g2(Assembly::SymbolicAssembler::assemble_graph_std2(test2, trial2));
  Adjacency::Graph g3(Assembly::SymbolicAssembler::assemble_graph_ext_facet1(test2));
  Adjacency::Graph g4(Assembly::SymbolicAssembler::assemble_graph_ext_facet2(test2, trial2));
  Adjacency::Graph g5(Assembly::SymbolicAssembler::assemble_graph_ext_node1(test2));
  Adjacency::Graph g6(Assembly::SymbolicAssembler::assemble_graph_ext_node2(test2, trial2));
  Adjacency::Graph g7(Assembly::SymbolicAssembler::assemble_graph_diag(test2));
  Adjacency::Graph g8(Assembly::SymbolicAssembler::assemble_graph_2lvl(test2, trial2));   // -> assemble_graph_intermesh
  Assembly::SymbolicAssembler::assemble_matrix_std1(mat_s, test2);
  Assembly::SymbolicAssembler::assemble_matrix_std2(mat_s2, test2, trial2);
  (void)test3; (void)trial3;
}
