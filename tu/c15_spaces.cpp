// instantiation driver (no logic): every element family x every shape it declares, with the standard
// trafo evaluators of all six shapes.  Only forces instantiations; nothing here is analysed.
#include <kernel/shape.hpp>
#include <kernel/geometry/conformal_mesh.hpp>
#include <kernel/trafo/standard/mapping.hpp>
#include <kernel/space/lagrange1/element.hpp>
#include <kernel/space/lagrange2/element.hpp>
#include <kernel/space/lagrange3/element.hpp>
#include <kernel/space/discontinuous/element.hpp>
#include <kernel/space/cro_rav_ran_tur/element.hpp>
#include <kernel/space/bernstein2/element.hpp>
#include <kernel/space/p2bubble/element.hpp>
#include <kernel/space/hermite3/element.hpp>
#include <kernel/space/argyris/element.hpp>
#include <kernel/space/bogner_fox_schmit/element.hpp>
#include <kernel/space/cai_dou_san_she_ye/element.hpp>
#include <kernel/space/q1tbnp/element.hpp>
using namespace FEAT;

#ifndef C15_DT
#define C15_DT double
#endif
typedef C15_DT DT;

template<typename Shape_> using MeshT = Geometry::ConformalMesh<Shape_, Shape_::dimension, DT>;
template<typename Shape_> using TrafoT = Trafo::Standard::Mapping<MeshT<Shape_>>;

// trafo evaluator of one shape with everything it can compute
template<typename Shape_>
void inst_trafo(TrafoT<Shape_>& trafo)
{
  typedef typename TrafoT<Shape_>::template Evaluator<Shape_, DT>::Type TrafoEval;
  static constexpr TrafoTags cfg = TrafoEval::eval_caps;
  typename TrafoEval::template ConfigTraits<cfg>::EvalDataType trafo_data;
  typename TrafoEval::DomainPointType dom_point;
  TrafoEval trafo_eval(trafo);
  trafo_eval.prepare(Index(0));
  trafo_eval(trafo_data, dom_point);
  volatile DT v = trafo_eval.volume(); (void)v;
  trafo_eval.finish();
  volatile DT c = Shape::ReferenceCell<Shape_>::template vertex<DT>(0, 0); (void)c;
}

// space evaluator with all capabilities + node functionals + dof mapping
template<typename Space_>
void inst_space(Space_& space)
{
  typedef typename Space_::TrafoType TrafoType;
  typedef typename TrafoType::ShapeType ShapeType;
  typedef typename TrafoType::template Evaluator<ShapeType, DT>::Type TrafoEval;
  typedef typename Space_::template Evaluator<TrafoEval>::Type SpaceEval;
  static constexpr SpaceTags cfg = SpaceEval::eval_caps & (SpaceTags::value | SpaceTags::grad | SpaceTags::hess);
  typedef typename SpaceEval::template ConfigTraits<cfg> SpaceCfg;
  static constexpr TrafoTags tcfg = SpaceCfg::trafo_config | TrafoTags::jac_det;
  typename TrafoEval::template ConfigTraits<tcfg>::EvalDataType trafo_data;
  typename SpaceCfg::EvalDataType space_data;
  typename TrafoEval::DomainPointType dom_point;
  TrafoEval trafo_eval(space.get_trafo());
  SpaceEval space_eval(space);
  trafo_eval.prepare(Index(0));
  space_eval.prepare(trafo_eval);
  trafo_eval(trafo_data, dom_point);
  space_eval(space_data, trafo_data);
  volatile int n = space_eval.get_num_local_dofs(); (void)n;
  space_eval.finish();
  trafo_eval.finish();
  typename Space_::DofMappingType dof_mapping(space);
  dof_mapping.prepare(Index(0));
  volatile Index k = dof_mapping.get_index(0); (void)k;
  volatile int m = dof_mapping.get_num_local_dofs(); (void)m;
  dof_mapping.finish();
}

template<template<typename> class Element_, typename Shape_>
void inst_elem(TrafoT<Shape_>& trafo)
{
  Element_<TrafoT<Shape_>> space(trafo);
  inst_space(space);
}

template<typename Variant_, typename Shape_>
void inst_disc(TrafoT<Shape_>& trafo)
{
  Space::Discontinuous::Element<TrafoT<Shape_>, Variant_> space(trafo);
  inst_space(space);
}

typedef Shape::Simplex<1> S1; typedef Shape::Simplex<2> S2; typedef Shape::Simplex<3> S3;
typedef Shape::Hypercube<1> H1; typedef Shape::Hypercube<2> H2; typedef Shape::Hypercube<3> H3;

void inst_all(TrafoT<S1>& ts1, TrafoT<S2>& ts2, TrafoT<S3>& ts3, TrafoT<H1>& th1, TrafoT<H2>& th2, TrafoT<H3>& th3)
{
  inst_trafo<S1>(ts1); inst_trafo<S2>(ts2); inst_trafo<S3>(ts3);
  inst_trafo<H1>(th1); inst_trafo<H2>(th2); inst_trafo<H3>(th3);

  inst_elem<Space::Lagrange1::Element, S2>(ts2); inst_elem<Space::Lagrange1::Element, S3>(ts3);
  inst_elem<Space::Lagrange1::Element, H1>(th1); inst_elem<Space::Lagrange1::Element, H2>(th2); inst_elem<Space::Lagrange1::Element, H3>(th3);

  inst_elem<Space::Lagrange2::Element, S2>(ts2); inst_elem<Space::Lagrange2::Element, S3>(ts3);
  inst_elem<Space::Lagrange2::Element, H1>(th1); inst_elem<Space::Lagrange2::Element, H2>(th2); inst_elem<Space::Lagrange2::Element, H3>(th3);

  inst_elem<Space::Lagrange3::Element, S2>(ts2); inst_elem<Space::Lagrange3::Element, S3>(ts3);
  inst_elem<Space::Lagrange3::Element, H1>(th1); inst_elem<Space::Lagrange3::Element, H2>(th2); inst_elem<Space::Lagrange3::Element, H3>(th3);

  inst_disc<Space::Discontinuous::Variant::StdPolyP<0>, S2>(ts2); inst_disc<Space::Discontinuous::Variant::StdPolyP<0>, S3>(ts3);
  inst_disc<Space::Discontinuous::Variant::StdPolyP<0>, H1>(th1); inst_disc<Space::Discontinuous::Variant::StdPolyP<0>, H2>(th2); inst_disc<Space::Discontinuous::Variant::StdPolyP<0>, H3>(th3);
  inst_disc<Space::Discontinuous::Variant::StdPolyP<1>, S2>(ts2); inst_disc<Space::Discontinuous::Variant::StdPolyP<1>, S3>(ts3);
  inst_disc<Space::Discontinuous::Variant::StdPolyP<1>, H1>(th1); inst_disc<Space::Discontinuous::Variant::StdPolyP<1>, H2>(th2); inst_disc<Space::Discontinuous::Variant::StdPolyP<1>, H3>(th3);

  inst_elem<Space::CroRavRanTur::Element, S2>(ts2); inst_elem<Space::CroRavRanTur::Element, S3>(ts3);
  inst_elem<Space::CroRavRanTur::Element, H2>(th2); inst_elem<Space::CroRavRanTur::Element, H3>(th3);

  inst_elem<Space::Bernstein2::Element, H1>(th1); inst_elem<Space::Bernstein2::Element, H2>(th2); inst_elem<Space::Bernstein2::Element, H3>(th3);

  inst_elem<Space::P2Bubble::Element, S2>(ts2);

  inst_elem<Space::Hermite3::Element, H1>(th1); inst_elem<Space::Hermite3::Element, H2>(th2); inst_elem<Space::Hermite3::Element, S2>(ts2);

  inst_elem<Space::Argyris::Element, S2>(ts2);

  inst_elem<Space::BognerFoxSchmit::Element, H1>(th1); inst_elem<Space::BognerFoxSchmit::Element, H2>(th2);

  inst_elem<Space::CaiDouSanSheYe::Element, H2>(th2);

  inst_elem<Space::Q1TBNP::Element, H2>(th2); inst_elem<Space::Q1TBNP::Element, H3>(th3);
}
