// instantiation driver (no logic): every element family x every shape it declares, with the standard
// trafo evaluators of all six shapes.  Only forces instantiations; nothing here is analysed.
#include <kernel/shape.hpp>
#include <kernel/geometry/conformal_mesh.hpp>
#include <kernel/trafo/standard/mapping.hpp>
#include <kernel/trafo/inverse_mapping.hpp>
#include <kernel/space/lagrange1/element.hpp>
#include <kernel/space/lagrange2/element.hpp>
#include <kernel/space/lagrange3/element.hpp>
#include <kernel/space/discontinuous/element.hpp>
#include <kernel/space/cro_rav_ran_tur/element.hpp>
#include <kernel/space/bernstein2/element.hpp>
#include <kernel/space/p2bubble/element.hpp>
#include <kernel/space/hermite3/element.hpp>
#include <kernel/space/argyris/element.hpp>
#include <kernel/space/bogner_fox_schmit/element.hpp>
#include <kernel/space/cai_dou_san_she_ye/element.hpp>
#include <kernel/space/q1tbnp/element.hpp>
using namespace FEAT;

#ifndef C15_DT
#define C15_DT double
#endif
typedef C15_DT DT;

template<typename Shape_, int world_dim_ = Shape_::dimension> using MeshT = Geometry::ConformalMesh<Shape_, world_dim_, DT>;
template<typename Shape_, int world_dim_ = Shape_::dimension> using TrafoT = Trafo::Standard::Mapping<MeshT<Shape_, world_dim_>>;

// trafo evaluator of one shape with everything it can compute
template<typename Shape_, int world_dim_ = Shape_::dimension>
void inst_trafo(TrafoT<Shape_, world_dim_>& trafo)
{
  typedef typename TrafoT<Shape_, world_dim_>::template Evaluator<Shape_, DT>::Type TrafoEval;
  static constexpr TrafoTags cfg = TrafoEval::eval_caps;
  typename TrafoEval::template ConfigTraits<cfg>::EvalDataType trafo_data;
  typename TrafoEval::DomainPointType dom_point;
  TrafoEval trafo_eval(trafo);
  trafo_eval.prepare(Index(0));
  trafo_eval(trafo_data, dom_point);
  volatile DT v = trafo_eval.volume(); (void)v;
  trafo_eval.finish();
  volatile DT c = Shape::ReferenceCell<Shape_>::template vertex<DT>(0, 0); (void)c;
}

// reference-cell predicate of the inverse mapping (is_on_ref) of one shape
template<typename Shape_>
void inst_invmap(TrafoT<Shape_>& trafo)
{
  Trafo::InverseMapping<TrafoT<Shape_>, DT> inv_map(trafo);
  typename Trafo::InverseMapping<TrafoT<Shape_>, DT>::DomainPointType dom_point;
  volatile bool b = inv_map.test_domain_point(dom_point); (void)b;
}

// the capability set a family declares: parametric families state it as their namespace-level
// ref_caps constant (handed to ParametricEvaluator), non-parametric ones as Evaluator::eval_caps
constexpr SpaceTags caps_to_config(SpaceTags caps)
{
  return
    (*(caps & (SpaceTags::value | SpaceTags::ref_value)) ? SpaceTags::value : SpaceTags::none) |
    (*(caps & (SpaceTags::grad | SpaceTags::ref_grad)) ? SpaceTags::grad : SpaceTags::none) |
    (*(caps & (SpaceTags::hess | SpaceTags::ref_hess)) ? SpaceTags::hess : SpaceTags::none);
}

// space evaluator with all declared capabilities + dof mapping
template<SpaceTags caps_, typename Space_>
void inst_space(Space_& space)
{
  typedef typename Space_::TrafoType TrafoType;
  typedef typename TrafoType::ShapeType ShapeType;
  typedef typename TrafoType::template Evaluator<ShapeType, DT>::Type TrafoEval;
  typedef typename Space_::template Evaluator<TrafoEval>::Type SpaceEval;
  static constexpr SpaceTags cfg = caps_to_config(caps_ == SpaceTags::none ? SpaceEval::eval_caps : caps_);
  typedef typename SpaceEval::template ConfigTraits<cfg> SpaceCfg;
  static constexpr TrafoTags tcfg = SpaceCfg::trafo_config | TrafoTags::jac_det;
  typename TrafoEval::template ConfigTraits<tcfg>::EvalDataType trafo_data;
  typename SpaceCfg::EvalDataType space_data;
  typename TrafoEval::DomainPointType dom_point;
  TrafoEval trafo_eval(space.get_trafo());
  SpaceEval space_eval(space);
  trafo_eval.prepare(Index(0));
  space_eval.prepare(trafo_eval);
  trafo_eval(trafo_data, dom_point);
  space_eval(space_data, trafo_data);
  volatile int n = space_eval.get_num_local_dofs(); (void)n;
  space_eval.finish();
  trafo_eval.finish();
  typename Space_::DofMappingType dof_mapping(space);
  dof_mapping.prepare(Index(0));
  volatile Index k = dof_mapping.get_index(0); (void)k;
  volatile int m = dof_mapping.get_num_local_dofs(); (void)m;
  dof_mapping.finish();
}

// one single requested capability (value only / grad only / hess only): the evaluator's own ConfigTraits decides
// which reference data and trafo data are produced for it
template<SpaceTags cfg_, typename Space_>
void inst_space_cfg(Space_& space)
{
  typedef typename Space_::TrafoType TrafoType;
  typedef typename TrafoType::ShapeType ShapeType;
  typedef typename TrafoType::template Evaluator<ShapeType, DT>::Type TrafoEval;
  typedef typename Space_::template Evaluator<TrafoEval>::Type SpaceEval;
  typedef typename SpaceEval::template ConfigTraits<cfg_> SpaceCfg;
  typename TrafoEval::template ConfigTraits<SpaceCfg::trafo_config>::EvalDataType trafo_data;
  typename SpaceCfg::EvalDataType space_data;
  TrafoEval trafo_eval(space.get_trafo());
  SpaceEval space_eval(space);
  space_eval(space_data, trafo_data);
}

template<SpaceTags caps_, typename Space_>
void inst_space_single(Space_& space)
{
  static constexpr SpaceTags all = caps_to_config(caps_);
  if constexpr (*(all & SpaceTags::value)) inst_space_cfg<SpaceTags::value>(space);
  if constexpr (*(all & SpaceTags::grad)) inst_space_cfg<SpaceTags::grad>(space);
  if constexpr (*(all & SpaceTags::hess)) inst_space_cfg<SpaceTags::hess>(space);
}

template<template<typename> class Element_, SpaceTags caps_, typename Shape_>
void inst_elem(TrafoT<Shape_>& trafo)
{
  Element_<TrafoT<Shape_>> space(trafo);
  inst_space<caps_>(space);
  if constexpr (caps_ != SpaceTags::none) inst_space_single<caps_>(space);
}

template<typename Variant_, SpaceTags caps_, typename Shape_>
void inst_disc(TrafoT<Shape_>& trafo)
{
  Space::Discontinuous::Element<TrafoT<Shape_>, Variant_> space(trafo);
  inst_space<caps_>(space);
}

// reference cell tables used by the checks (folded from the facts, never executed)
template<typename Shape_, int cell_dim_>
void inst_fim()
{
  volatile int i = Geometry::Intern::FaceIndexMapping<Shape_, cell_dim_, 0>::map(0, 0); (void)i;
}

// the tag values the checks decode template arguments with
void inst_tags()
{
  volatile int s[] = {int(SpaceTags::value), int(SpaceTags::grad), int(SpaceTags::hess), int(SpaceTags::ref_value), int(SpaceTags::ref_grad), int(SpaceTags::ref_hess)};
  volatile int t[] = {int(TrafoTags::dom_point), int(TrafoTags::img_point), int(TrafoTags::jac_mat), int(TrafoTags::jac_inv), int(TrafoTags::jac_det), int(TrafoTags::hess_ten), int(TrafoTags::hess_inv)};
  (void)s; (void)t;
}

typedef Shape::Simplex<1> S1; typedef Shape::Simplex<2> S2; typedef Shape::Simplex<3> S3;
typedef Shape::Hypercube<1> H1; typedef Shape::Hypercube<2> H2; typedef Shape::Hypercube<3> H3;
namespace SP = FEAT::Space;
static constexpr SpaceTags NP = SpaceTags::none; // non-parametric: use Evaluator::eval_caps

void inst_all(TrafoT<S1>& ts1, TrafoT<S2>& ts2, TrafoT<S3>& ts3, TrafoT<H1>& th1, TrafoT<H2>& th2, TrafoT<H3>& th3,
  TrafoT<S1,2>& ts12, TrafoT<S2,3>& ts23, TrafoT<H1,2>& th12, TrafoT<H2,3>& th23)
{
  inst_trafo<S1>(ts1); inst_trafo<S2>(ts2); inst_trafo<S3>(ts3);
  inst_trafo<H1>(th1); inst_trafo<H2>(th2); inst_trafo<H3>(th3);
  // facet trafos embedded in a higher-dimensional world (trace assembly, node functionals)
  inst_trafo<S1,2>(ts12); inst_trafo<S2,3>(ts23); inst_trafo<H1,2>(th12); inst_trafo<H2,3>(th23);

  inst_invmap<S1>(ts1); inst_invmap<S2>(ts2); inst_invmap<S3>(ts3);
  inst_invmap<H1>(th1); inst_invmap<H2>(th2); inst_invmap<H3>(th3);

  inst_fim<S2,1>(); inst_fim<S3,1>(); inst_fim<S3,2>(); inst_fim<H2,1>(); inst_fim<H3,1>(); inst_fim<H3,2>();

  inst_elem<SP::Lagrange1::Element, SP::Lagrange1::ref_caps, S2>(ts2); inst_elem<SP::Lagrange1::Element, SP::Lagrange1::ref_caps, S3>(ts3);
  inst_elem<SP::Lagrange1::Element, SP::Lagrange1::ref_caps, H1>(th1); inst_elem<SP::Lagrange1::Element, SP::Lagrange1::ref_caps, H2>(th2);
  inst_elem<SP::Lagrange1::Element, SP::Lagrange1::ref_caps, H3>(th3);

  inst_elem<SP::Lagrange2::Element, SP::Lagrange2::ref_caps, S2>(ts2); inst_elem<SP::Lagrange2::Element, SP::Lagrange2::ref_caps, S3>(ts3);
  inst_elem<SP::Lagrange2::Element, SP::Lagrange2::ref_caps, H1>(th1); inst_elem<SP::Lagrange2::Element, SP::Lagrange2::ref_caps, H2>(th2);
  inst_elem<SP::Lagrange2::Element, SP::Lagrange2::ref_caps, H3>(th3);

  inst_elem<SP::Lagrange3::Element, SP::Lagrange3::ref_caps, S2>(ts2); inst_elem<SP::Lagrange3::Element, SP::Lagrange3::ref_caps_3d, S3>(ts3);
  inst_elem<SP::Lagrange3::Element, SP::Lagrange3::ref_caps, H1>(th1); inst_elem<SP::Lagrange3::Element, SP::Lagrange3::ref_caps, H2>(th2);
  inst_elem<SP::Lagrange3::Element, SP::Lagrange3::ref_caps, H3>(th3);

  typedef SP::Discontinuous::Variant::StdPolyP<0> P0; typedef SP::Discontinuous::Variant::StdPolyP<1> P1;
  inst_disc<P0, NP, S2>(ts2); inst_disc<P0, NP, S3>(ts3); inst_disc<P0, NP, H1>(th1); inst_disc<P0, NP, H2>(th2); inst_disc<P0, NP, H3>(th3);
  inst_disc<P1, SP::Discontinuous::ref_caps_p1, S2>(ts2); inst_disc<P1, SP::Discontinuous::ref_caps_p1, S3>(ts3);
  inst_disc<P1, NP, H1>(th1); inst_disc<P1, NP, H2>(th2); inst_disc<P1, NP, H3>(th3);

  inst_elem<SP::CroRavRanTur::Element, SP::CroRavRanTur::ref_caps, S2>(ts2); inst_elem<SP::CroRavRanTur::Element, SP::CroRavRanTur::ref_caps, S3>(ts3);
  inst_elem<SP::CroRavRanTur::Element, NP, H2>(th2); inst_elem<SP::CroRavRanTur::Element, NP, H3>(th3);

  inst_elem<SP::Bernstein2::Element, SP::Bernstein2::ref_caps, H1>(th1); inst_elem<SP::Bernstein2::Element, SP::Bernstein2::ref_caps, H2>(th2);
  inst_elem<SP::Bernstein2::Element, SP::Bernstein2::ref_caps, H3>(th3);

  inst_elem<SP::P2Bubble::Element, SP::P2Bubble::ref_caps, S2>(ts2);

  inst_elem<SP::Hermite3::Element, SP::Hermite3::ref_caps, H1>(th1); inst_elem<SP::Hermite3::Element, SP::Hermite3::ref_caps, H2>(th2);
  inst_elem<SP::Hermite3::Element, SP::Hermite3::ref_caps, S2>(ts2);

  inst_elem<SP::Argyris::Element, NP, S2>(ts2);

  inst_elem<SP::BognerFoxSchmit::Element, SP::BognerFoxSchmit::ref_caps, H1>(th1); inst_elem<SP::BognerFoxSchmit::Element, SP::BognerFoxSchmit::ref_caps, H2>(th2);

  inst_elem<SP::CaiDouSanSheYe::Element, SP::CaiDouSanSheYe::ref_caps, H2>(th2);

  inst_elem<SP::Q1TBNP::Element, NP, H2>(th2); inst_elem<SP::Q1TBNP::Element, NP, H3>(th3);
}
