// instantiation driver (no logic): the storage path behind UnitFilter::add / UnitFilterBlocked::add / SlipFilter::add,
// i.e. the "set element" operator of the sparse vectors the filters keep their entries in (rule C06.store-growth), and the permute() path (rule C06.permute-convention).
#include <kernel/lafem/sparse_vector.hpp>
#include <kernel/lafem/sparse_vector_blocked.hpp>
#include <kernel/lafem/unit_filter.hpp>
#include <kernel/lafem/unit_filter_blocked.hpp>
#include <kernel/lafem/slip_filter.hpp>
using namespace FEAT;

void c06_storage_driver()
{
  LAFEM::UnitFilter<double, Index> uf(Index(8));
  uf.add(Index(1), 1.0);
  LAFEM::UnitFilterBlocked<double, Index, 2> ub2(Index(8));
  ub2.add(Index(1), Tiny::Vector<double, 2>(1.0));
  LAFEM::UnitFilterBlocked<double, Index, 3> ub3(Index(8));
  ub3.add(Index(1), Tiny::Vector<double, 3>(1.0));
  LAFEM::SlipFilter<double, Index, 2> sf2(Index(8), Index(8));
  sf2.add(Index(1), Tiny::Vector<double, 2>(1.0));
  LAFEM::SlipFilter<double, Index, 3> sf3(Index(8), Index(8));
  sf3.add(Index(1), Tiny::Vector<double, 3>(1.0));
  // renumbering: the permute() members of the filters and the sparse-vector permute() they forward to (rule C06.permute-convention)
  Adjacency::Permutation perm(Index(8));
  uf.permute(perm);
  ub2.permute(perm);
  ub3.permute(perm);
}
