// instantiation driver (no logic): every documented new_*_precond factory overload, one call per line.
// A line tagged "@factory <name>" is one obligation of rule E0.factory-instantiable.
#include <kernel/lafem/sparse_matrix_csr.hpp>
#include <kernel/lafem/sparse_matrix_bcsr.hpp>
#include <kernel/lafem/dense_vector.hpp>
#include <kernel/lafem/dense_vector_blocked.hpp>
#include <kernel/lafem/unit_filter.hpp>
#include <kernel/lafem/unit_filter_blocked.hpp>
#include <kernel/util/property_map.hpp>
#include <kernel/solver/jacobi_precond.hpp>
#include <kernel/solver/sor_precond.hpp>
#include <kernel/solver/ssor_precond.hpp>
#include <kernel/solver/ilu_precond.hpp>
#include <kernel/solver/polynomial_precond.hpp>
#include <kernel/solver/scale_precond.hpp>
#include <kernel/solver/diagonal_precond.hpp>
#include <kernel/solver/matrix_precond.hpp>
using namespace FEAT;
typedef LAFEM::SparseMatrixCSR<double, Index> Mat;
typedef LAFEM::UnitFilter<double, Index> Fil;
typedef LAFEM::DenseVector<double, Index> Vec;
const PreferredBackend gen = PreferredBackend::generic;
void f01(const Mat& m, const Fil& f) { auto s = Solver::new_jacobi_precond(m, f, 0.7); }  // @factory new_jacobi_precond(matrix, filter, omega)
void f02(const Mat& m, const Fil& f, PropertyMap* p) { auto s = Solver::new_jacobi_precond("s", p, m, f); }  // @factory new_jacobi_precond(section_name, section, matrix, filter)
void f03(const Mat& m, const Fil& f) { auto s = Solver::new_sor_precond(gen, m, f, 1.2); }  // @factory new_sor_precond(backend, matrix, filter, omega)
void f04(const Mat& m, const Fil& f, PropertyMap* p) { auto s = Solver::new_sor_precond("s", p, gen, m, f); }  // @factory new_sor_precond(section_name, section, backend, matrix, filter)
void f05(const Mat& m, const Fil& f) { auto s = Solver::new_ssor_precond(gen, m, f, 1.2); }  // @factory new_ssor_precond(backend, matrix, filter, omega)
void f06(const Mat& m, const Fil& f, PropertyMap* p) { auto s = Solver::new_ssor_precond("s", p, gen, m, f); }  // @factory new_ssor_precond(section_name, section, backend, matrix, filter)
void f07(const Mat& m, const Fil& f) { auto s = Solver::new_ilu_precond(gen, m, f, 1); }  // @factory new_ilu_precond(backend, matrix, filter, p)
void f08(const Mat& m, const Fil& f, PropertyMap* p) { auto s = Solver::new_ilu_precond("s", p, gen, m, f); }  // @factory new_ilu_precond(section_name, section, backend, matrix, filter)
void f09(const Mat& m, const Fil& f) { auto s = Solver::new_polynomial_precond(m, f, Index(3), 0.8); }  // @factory new_polynomial_precond(matrix, filter, m, omega)
void f10(const Mat& m, const Fil& f, PropertyMap* p) { auto s = Solver::new_polynomial_precond("s", p, m, f); }  // @factory new_polynomial_precond(section_name, section, matrix, filter)
void f11(const Fil& f) { auto s = Solver::new_scale_precond(f, 0.5); }  // @factory new_scale_precond(filter, omega)
void f12(const Fil& f, PropertyMap* p) { auto s = Solver::new_scale_precond("s", p, f); }  // @factory new_scale_precond(section_name, section, filter)
void f13(const Vec& d, const Fil& f) { auto s = Solver::new_diagonal_precond(d, f); }  // @factory new_diagonal_precond(diag, filter)
void f14(const Mat& m, const Fil& f) { auto s = Solver::new_matrix_precond(m, f); }  // @factory new_matrix_precond(matrix, filter)
