// instantiation driver for C01 (no logic): takes the address of every apply / apply_transposed
// overload of every LAFEM matrix container for documented-supported template arguments, so that the
// front end type-checks (E0) and the fact extractor sees (E1/E4/E7) members the build never touches.
//
// One driver function per container instantiation; one static_cast per curated overload.  The cast
// states the exact documented signature: a missing/renamed overload is an error located *here*
// (analysis-broken), an overload whose body does not instantiate is an error located in /repo (E0).
//
// -DC01_THOROUGH adds float / unsigned int and further block shapes.
#include <kernel/lafem/dense_vector.hpp>
#include <kernel/lafem/dense_vector_blocked.hpp>
#include <kernel/lafem/sparse_matrix_csr.hpp>
#include <kernel/lafem/sparse_matrix_bcsr.hpp>
#include <kernel/lafem/sparse_matrix_cscr.hpp>
#include <kernel/lafem/sparse_matrix_banded.hpp>
#include <kernel/lafem/dense_matrix.hpp>
#include <kernel/lafem/sparse_matrix_bwrappedcsr.hpp>
#include <kernel/lafem/saddle_point_matrix.hpp>
#include <kernel/lafem/tuple_matrix.hpp>
#include <kernel/lafem/tuple_diag_matrix.hpp>
#include <kernel/lafem/power_diag_matrix.hpp>
#include <kernel/lafem/power_full_matrix.hpp>
#include <kernel/lafem/power_row_matrix.hpp>
#include <kernel/lafem/power_col_matrix.hpp>

using namespace FEAT;
using namespace FEAT::LAFEM;

// r = A x   /   r = A^T x
#define OV2(M, NAME, R, X) \
  (void)static_cast<void (M::*)(R&, const X&) const>(&M::NAME)
// r = y + alpha A x   /   r = y + alpha A^T x
#define OV4(M, NAME, R, X, Y) \
  (void)static_cast<void (M::*)(R&, const X&, const Y&, typename M::DataType) const>(&M::NAME)

// ---- scalar containers: (DenseVector, DenseVector) forms -------------------------------------------
template<typename M_>
void c01_scalar()
{
  typedef DenseVector<typename M_::DataType, typename M_::IndexType> DV;
  OV2(M_, apply, DV, DV);
  OV2(M_, apply_transposed, DV, DV);
  OV4(M_, apply, DV, DV, DV);
  OV4(M_, apply_transposed, DV, DV, DV);
}

// ---- CSR with blocked vectors ("every element of each block is multiplied by the scalar entry") --
template<typename M_, int bs_>
void c01_csr_blocked()
{
  typedef DenseVectorBlocked<typename M_::DataType, typename M_::IndexType, bs_> DVB;
  OV2(M_, template apply<bs_>, DVB, DVB);
  OV4(M_, template apply<bs_>, DVB, DVB, DVB);
}

// ---- BCSR: every combination of flat / blocked operands ------------------------------------------
template<typename DT_, typename IT_, int bh_, int bw_>
void c01_bcsr()
{
  typedef SparseMatrixBCSR<DT_, IT_, bh_, bw_> M;
  typedef DenseVector<DT_, IT_> DV;
  typedef DenseVectorBlocked<DT_, IT_, bh_> BH;
  typedef DenseVectorBlocked<DT_, IT_, bw_> BW;
  OV2(M, apply, DV, DV);
  OV2(M, apply, BH, DV);
  OV2(M, apply, DV, BW);
  OV2(M, apply, BH, BW);
  OV2(M, apply_transposed, DV, DV);
  OV2(M, apply_transposed, BW, DV);
  OV2(M, apply_transposed, DV, BH);
  OV2(M, apply_transposed, BW, BH);
  OV4(M, apply, DV, DV, DV);
  OV4(M, apply, BH, DV, BH);
  OV4(M, apply, DV, BW, DV);
  OV4(M, apply, BH, BW, BH);
  OV4(M, apply, BH, BW, DV);
  OV4(M, apply_transposed, DV, DV, DV);
  OV4(M, apply_transposed, BW, DV, BW);
  OV4(M, apply_transposed, DV, BH, DV);
  OV4(M, apply_transposed, BW, BH, BW);
  OV4(M, apply_transposed, BW, BH, DV);
}

// ---- BWrappedCSR: a CSR that is multiplied with the vector types of BCSR<bs,bs> ------------------
template<typename DT_, typename IT_, int bs_>
void c01_bwrapped()
{
  typedef SparseMatrixBWrappedCSR<DT_, IT_, bs_> M;
  typedef SparseMatrixCSR<DT_, IT_> B;
  typedef typename M::VectorTypeL VL;
  typedef typename M::VectorTypeR VR;
  (void)static_cast<void (B::*)(VL&, const VR&) const>(&M::template apply<bs_>);
  (void)static_cast<void (B::*)(VL&, const VR&, const VL&, DT_) const>(&M::template apply<bs_>);
}

// ---- meta containers: typed (VectorTypeL/R) forms ------------------------------------------------
template<typename M_>
void c01_meta_typed()
{
  typedef typename M_::VectorTypeL VL;
  typedef typename M_::VectorTypeR VR;
  OV2(M_, apply, VL, VR);
  OV2(M_, apply_transposed, VR, VL);
  OV4(M_, apply, VL, VR, VL);
  OV4(M_, apply_transposed, VR, VL, VR);
}

// ---- meta containers: flat DenseVector forms -----------------------------------------------------
template<typename M_>
void c01_meta_flat()
{
  typedef DenseVector<typename M_::DataType, typename M_::IndexType> DV;
  OV2(M_, apply, DV, DV);
  OV2(M_, apply_transposed, DV, DV);
  OV4(M_, apply, DV, DV, DV);
  OV4(M_, apply_transposed, DV, DV, DV);
}

template<typename DT_, typename IT_>
void c01_all()
{
  typedef SparseMatrixCSR<DT_, IT_> CSR;
  typedef SparseMatrixBCSR<DT_, IT_, 2, 2> B22;
  typedef SparseMatrixBCSR<DT_, IT_, 2, 1> B21;
  typedef SparseMatrixBCSR<DT_, IT_, 1, 2> B12;

  c01_scalar<CSR>();
  c01_csr_blocked<CSR, 2>();
  c01_csr_blocked<CSR, 3>();
  c01_scalar<SparseMatrixCSCR<DT_, IT_>>();
  c01_scalar<SparseMatrixBanded<DT_, IT_>>();
  c01_scalar<DenseMatrix<DT_, IT_>>();
  c01_bcsr<DT_, IT_, 2, 3>();
  c01_bcsr<DT_, IT_, 3, 3>();
  c01_bwrapped<DT_, IT_, 2>();

  // saddle point systems: scalar blocks and the Stokes layout (velocity blocked, pressure scalar)
  c01_meta_typed<SaddlePointMatrix<CSR, CSR, CSR>>();
  c01_meta_flat <SaddlePointMatrix<CSR, CSR, CSR>>();
  c01_meta_typed<SaddlePointMatrix<B22, B21, B12>>();
  c01_meta_flat <SaddlePointMatrix<B22, B21, B12>>();

  // tuple rows / tuple matrices (recursive case and the one-element specialisations)
  c01_meta_typed<TupleMatrixRow<CSR, CSR>>();
  c01_meta_typed<TupleMatrixRow<CSR>>();
  c01_meta_typed<TupleMatrixRow<B22, B21>>();
  c01_meta_typed<TupleMatrix<TupleMatrixRow<CSR, CSR>, TupleMatrixRow<CSR, CSR>>>();
  c01_meta_typed<TupleMatrix<TupleMatrixRow<CSR, CSR>>>();
  c01_meta_typed<TupleMatrix<TupleMatrixRow<B22, B21>, TupleMatrixRow<B12, CSR>>>();

  c01_meta_typed<TupleDiagMatrix<CSR, CSR>>();
  c01_meta_typed<TupleDiagMatrix<CSR>>();
  c01_meta_typed<TupleDiagMatrix<B22, CSR>>();
  c01_meta_flat <TupleDiagMatrix<CSR, CSR>>();
  c01_meta_flat <TupleDiagMatrix<CSR>>();

  // power containers (recursive case and the <.,1> specialisations)
  c01_meta_typed<PowerDiagMatrix<CSR, 2>>();
  c01_meta_flat <PowerDiagMatrix<CSR, 2>>();
  c01_meta_typed<PowerDiagMatrix<CSR, 1>>();
  c01_meta_flat <PowerDiagMatrix<CSR, 1>>();
  c01_meta_typed<PowerRowMatrix<CSR, 2>>();
  c01_meta_flat <PowerRowMatrix<CSR, 2>>();
  c01_meta_typed<PowerRowMatrix<CSR, 1>>();
  c01_meta_flat <PowerRowMatrix<CSR, 1>>();
  c01_meta_typed<PowerColMatrix<CSR, 2>>();
  c01_meta_flat <PowerColMatrix<CSR, 2>>();
  c01_meta_typed<PowerColMatrix<CSR, 1>>();
  c01_meta_flat <PowerColMatrix<CSR, 1>>();
  c01_meta_typed<PowerFullMatrix<CSR, 2, 3>>();
  c01_meta_flat <PowerFullMatrix<CSR, 2, 3>>();
}

void c01_instantiate()
{
  c01_all<double, Index>();
#ifdef C01_THOROUGH
  c01_all<float, unsigned int>();
  c01_all<double, unsigned int>();
  c01_all<float, Index>();
  c01_bcsr<double, Index, 1, 1>();
  c01_bcsr<double, Index, 3, 2>();
  c01_bcsr<double, Index, 1, 3>();
  c01_csr_blocked<SparseMatrixCSR<double, Index>, 1>();
  c01_meta_typed<PowerDiagMatrix<SparseMatrixBCSR<double, Index, 2, 2>, 3>>();
  c01_meta_typed<PowerFullMatrix<SparseMatrixBCSR<double, Index, 2, 2>, 3, 2>>();
  c01_meta_typed<PowerRowMatrix<SparseMatrixCSR<double, Index>, 3>>();
  c01_meta_flat <PowerRowMatrix<SparseMatrixCSR<double, Index>, 3>>();
  c01_meta_typed<PowerColMatrix<SparseMatrixCSR<double, Index>, 3>>();
  c01_meta_flat <PowerColMatrix<SparseMatrixCSR<double, Index>, 3>>();
  c01_meta_typed<TupleDiagMatrix<SparseMatrixCSR<double, Index>, SparseMatrixCSR<double, Index>, SparseMatrixCSR<double, Index>>>();
  c01_meta_typed<TupleMatrixRow<SparseMatrixCSR<double, Index>, SparseMatrixCSR<double, Index>, SparseMatrixCSR<double, Index>>>();
#endif
}
