// instantiation driver (no logic): the node functionals of the Argyris element (vertex and edge functionals) applied to
// an analytic function with values, gradients and Hessians.  Only forces instantiations; nothing here is analysed.
#include <kernel/geometry/conformal_mesh.hpp>
#include <kernel/trafo/standard/mapping.hpp>
#include <kernel/space/argyris/element.hpp>
#include <kernel/analytic/common.hpp>
using namespace FEAT;

#ifndef C15_DT
#define C15_DT double
#endif
typedef C15_DT DT;
typedef Geometry::ConformalMesh<Shape::Simplex<2>, 2, DT> MeshType;
typedef Trafo::Standard::Mapping<MeshType> TrafoType;
typedef Space::Argyris::Element<TrafoType> SpaceType;

template<int dim_>
void inst_node_functional(SpaceType& space)
{
  typedef typename SpaceType::template NodeFunctional<dim_, DT>::Type NodeFunc;
  NodeFunc node_func(space);
  node_func.prepare(Index(0));
  Tiny::Vector<DT, NodeFunc::max_assigned_dofs> node_data;
  Analytic::Common::SineBubbleFunction<2> function;
  node_func(node_data, function);
  node_func.finish();
}

void inst_all(SpaceType& space)
{
  inst_node_functional<0>(space);
  inst_node_functional<1>(space);
}
