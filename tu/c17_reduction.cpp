// instantiation driver (no logic): the reduction side of the combining jobs - FunctionIntegralInfo
// for scalar and for vector-valued functions with all accumulation members (add_value / add_grad /
// add_hess) and push(), and the Task classes (combine()) of the four jobs with need_combine, for
// scalar and blocked coefficient vectors and max_der = 2
#include <kernel/assembly/domain_assembler.hpp>
#include <kernel/assembly/function_integral_jobs.hpp>
#include <kernel/assembly/basic_assembly_jobs.hpp>
#include <kernel/assembly/common_operators.hpp>
#include <kernel/assembly/common_functionals.hpp>
#include <kernel/lafem/sparse_matrix_csr.hpp>
#include <kernel/space/lagrange1/element.hpp>
#include <kernel/analytic/common.hpp>
#include <kernel/geometry/conformal_mesh.hpp>
#include <kernel/lafem/dense_vector.hpp>
#include <kernel/lafem/dense_vector_blocked.hpp>
#include <kernel/space/lagrange2/element.hpp>
#include <kernel/trafo/standard/mapping.hpp>
using namespace FEAT;

#ifdef C17_FLOAT
typedef float DT;
typedef std::uint32_t IT;
typedef Shape::Simplex<3> ShapeT;
#else
typedef double DT;
typedef Index IT;
typedef Shape::Hypercube<2> ShapeT;
#endif
static constexpr int dim = ShapeT::dimension;

typedef Geometry::ConformalMesh<ShapeT> MeshT;
typedef Trafo::Standard::Mapping<MeshT> TrafoT;
typedef Space::Lagrange2::Element<TrafoT> SpaceT;
typedef LAFEM::DenseVector<DT, IT> VectorT;
typedef LAFEM::DenseVectorBlocked<DT, IT, dim> VectorBT;
typedef Analytic::Common::SineBubbleFunction<dim> FuncT;

typedef Assembly::DiscreteFunctionIntegral<VectorT, SpaceT>::Type ScalInfoT;
typedef Assembly::DiscreteFunctionIntegral<VectorBT, SpaceT>::Type VecInfoT;

void c17_red_info(ScalInfoT& s, const ScalInfoT& s2, VecInfoT& v, const VecInfoT& v2, DT w,
  const ScalInfoT::ValueType& sv, const ScalInfoT::GradientType& sg, const ScalInfoT::HessianType& sh,
  const VecInfoT::ValueType& vv, const VecInfoT::GradientType& vg, const VecInfoT::HessianType& vh)
{
  s.add_value(w, sv);
  s.add_grad(w, sg);
  s.add_hess(w, sh);
  s.push(s2);
  v.add_value(w, vv);
  v.add_grad(w, vg);
  v.add_hess(w, vh);
  v.push(v2);
}

// the tasks (assemble() accumulates, combine() reduces)
template class Assembly::AnalyticFunctionIntegralJob<DT, FuncT, TrafoT, 2>::Task;
template class Assembly::DiscreteFunctionIntegralJob<VectorT, SpaceT, 2>::Task;
template class Assembly::DiscreteFunctionIntegralJob<VectorBT, SpaceT, 2>::Task;
template class Assembly::ErrorFunctionIntegralJob<FuncT, VectorT, SpaceT, 2>::Task;
template class Assembly::CellErrorFunctionIntegralJob<FuncT, VectorT, SpaceT, 2>::Task;

// the scattering tasks of basic_assembly_jobs.hpp (shared-write discipline: E14.shared-writes-in-scatter)
typedef LAFEM::SparseMatrixCSR<DT, IT> MatrixT;
typedef Space::Lagrange1::Element<TrafoT> Space1T;
template class Assembly::LinearFunctionalAssemblyJob<Assembly::Common::ForceFunctional<FuncT>, VectorT, SpaceT>::Task;
template class Assembly::ForceFunctionalAssemblyJob<FuncT, VectorT, SpaceT>::Task;
template class Assembly::BilinearOperatorMatrixAssemblyJob1<Assembly::Common::LaplaceOperator, MatrixT, SpaceT>::Task;
template class Assembly::BilinearOperatorMatrixAssemblyJob2<Assembly::Common::IdentityOperator, MatrixT, SpaceT, Space1T>::Task;

// every interface member the workers call, for every task (members of the CRTP bases are only
// instantiated when used)
template<typename Task_> void c17_use_task(Task_& t)
{
  t.prepare(Index(0));
  t.assemble();
  t.scatter();
  t.finish();
  t.combine();
}
template void c17_use_task(Assembly::LinearFunctionalAssemblyJob<Assembly::Common::ForceFunctional<FuncT>, VectorT, SpaceT>::Task&);
template void c17_use_task(Assembly::ForceFunctionalAssemblyJob<FuncT, VectorT, SpaceT>::Task&);
template void c17_use_task(Assembly::BilinearOperatorMatrixAssemblyJob1<Assembly::Common::LaplaceOperator, MatrixT, SpaceT>::Task&);
template void c17_use_task(Assembly::BilinearOperatorMatrixAssemblyJob2<Assembly::Common::IdentityOperator, MatrixT, SpaceT, Space1T>::Task&);

// exposes the tasks' compile-time flags as evaluated constants
template<typename Task_> void c17_red_flags()
{
  constexpr bool need_scatter = Task_::need_scatter;
  constexpr bool need_combine = Task_::need_combine;
  (void)need_scatter; (void)need_combine;
}

void c17_red_flag_inst()
{
  c17_red_flags<Assembly::AnalyticFunctionIntegralJob<DT, FuncT, TrafoT, 2>::Task>();
  c17_red_flags<Assembly::DiscreteFunctionIntegralJob<VectorT, SpaceT, 2>::Task>();
  c17_red_flags<Assembly::DiscreteFunctionIntegralJob<VectorBT, SpaceT, 2>::Task>();
  c17_red_flags<Assembly::ErrorFunctionIntegralJob<FuncT, VectorT, SpaceT, 2>::Task>();
  c17_red_flags<Assembly::CellErrorFunctionIntegralJob<FuncT, VectorT, SpaceT, 2>::Task>();
}
