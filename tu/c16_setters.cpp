// instantiation driver (no logic): the parameter setters (set_sd_v_norm) of the three Burgers assembly routes
// (classic BurgersAssembler, the domain-assembler job base, the voxel assembler).  Only forces instantiations.
#include <kernel/geometry/conformal_mesh.hpp>
#include <kernel/trafo/standard/mapping.hpp>
#include <kernel/space/lagrange2/element.hpp>
#include <kernel/lafem/sparse_matrix_bcsr.hpp>
#include <kernel/lafem/dense_vector_blocked.hpp>
#include <kernel/lafem/vector_mirror.hpp>
#include <kernel/global/vector.hpp>
#include <kernel/assembly/burgers_assembler.hpp>
#include <kernel/assembly/burgers_assembly_job.hpp>
#include <kernel/voxel_assembly/burgers_assembler.hpp>
using namespace FEAT;

typedef double DT;
typedef Index IT;
typedef VoxelAssembly::Q2StandardHyperCube<2> SpaceVelo;
typedef LAFEM::SparseMatrixBCSR<DT, IT, 2, 2> MatrixA;
typedef LAFEM::DenseVectorBlocked<DT, IT, 2> VectorV;
typedef Global::Vector<VectorV, LAFEM::VectorMirror<DT, IT>> GlobalVectorV;

void inst_setters(
  Assembly::BurgersAssembler<DT, IT, 2>& classic,
  Assembly::BurgersBlockedMatrixAssemblyJob<MatrixA, SpaceVelo, VectorV>& job,
  VoxelAssembly::VoxelBurgersAssembler<SpaceVelo, DT, IT>& voxel,
  const VectorV& convect, const GlobalVectorV& global_convect)
{
  classic.set_sd_v_norm(convect);
  classic.set_sd_v_norm(global_convect);
  job.set_sd_v_norm(convect);
  job.set_sd_v_norm(global_convect);
  voxel.set_sd_v_norm(convect);
  voxel.set_sd_v_norm(global_convect);
}
