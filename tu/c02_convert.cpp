// instantiation driver (no logic) for C02: everything of tu/c20_containers.cpp (all Container-derived
// classes with their non-template members: constructors, transpose, permute, layout sharing, and the
// same-type / fully cross-type clone+convert members) plus the mixed conversions (same data type with
// another index type and vice versa) that decide the two `if constexpr` branches of Container::assign
// independently.
#include "c20_containers.cpp"

// banded apply kernels (state the band-offset relation col = row + offset + 1 - rows): instantiate by address
void c02_inst_banded_kernels()
{
  auto k1 = &Arch::Apply::template banded_generic<DT, IT>;
  auto k2 = &Arch::Apply::template banded_transposed_generic<DT, IT>;
  (void)k1; (void)k2;
}

void c02_inst_mixed()
{
  {
    DenseVector<DT, IT> a; DenseVector<DT, IT2> b; DenseVector<DT2, IT> c;
    a.convert(b);   // elements shared, (no) indices converted
    a.convert(c);   // elements converted
    a.clone(b, CloneMode::Weak);   // cross-type clone: same data type, other index type
    a.clone(c, CloneMode::Weak);   // cross-type clone: other data type, same index type
  }
  {
    SparseMatrixCSR<DT, IT> a; SparseMatrixCSR<DT, IT2> b; SparseMatrixCSR<DT2, IT> c;
    a.convert(b);   // val shared, col_ind/row_ptr converted
    a.convert(c);   // val converted, col_ind/row_ptr shared
    SparseMatrixBCSR<DT, IT, 2, 3> ra; SparseMatrixBCSR<DT, IT2, 2, 3> rb; SparseMatrixBCSR<DT2, IT, 2, 3> rc;
    ra.convert(rb);
    ra.convert(rc);
    SparseVector<DT, IT> sa; SparseVector<DT, IT2> sb;
    sa.convert(sb);
  }
}
