// instantiation driver (no logic): cubature factories for all shapes
#include <kernel/cubature/dynamic_factory.hpp>
#include <kernel/cubature/scalar/dynamic_factory.hpp>
using namespace FEAT;
template<typename Shape_> void inst()
{
  Cubature::Rule<Shape_, double, double, Tiny::Vector<double, Shape_::dimension>> rule;
  Cubature::DynamicFactory::create(rule, String("x"));
  Cubature::DynamicFactory(String("x")).create_throw(rule);
  volatile int max_auto_degree = Cubature::AutoAlias<Shape_>::max_auto_degree; (void)max_auto_degree;
}
void inst_all()
{
  inst<Shape::Simplex<1>>(); inst<Shape::Simplex<2>>(); inst<Shape::Simplex<3>>();
  inst<Shape::Hypercube<1>>(); inst<Shape::Hypercube<2>>(); inst<Shape::Hypercube<3>>();
  Cubature::Scalar::Rule<double,double> sr;
  Cubature::Scalar::DynamicFactory::create(sr, String("x"));
}
