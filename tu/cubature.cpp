// instantiation driver (no logic): cubature factories for all shapes
#include <kernel/cubature/dynamic_factory.hpp>
#include <kernel/cubature/scalar/dynamic_factory.hpp>
using namespace FEAT;
template<typename Shape_> void inst()
{
  Cubature::Rule<Shape_, double, double, Tiny::Vector<double, Shape_::dimension>> rule;
  Cubature::DynamicFactory::create(rule, String("x"));
  Cubature::DynamicFactory(String("x")).create_throw(rule);
  volatile int max_auto_degree = Cubature::AutoAlias<Shape_>::max_auto_degree; (void)max_auto_degree;
}
void inst_all()
{
  inst<Shape::Simplex<1>>(); inst<Shape::Simplex<2>>(); inst<Shape::Simplex<3>>();
  inst<Shape::Hypercube<1>>(); inst<Shape::Hypercube<2>>(); inst<Shape::Hypercube<3>>();
  Cubature::Scalar::Rule<double,double> sr;
  Cubature::Scalar::DynamicFactory::create(sr, String("x"));
  // copy-like operations of the rule classes (all members of the natively modelled classes)
  Cubature::Scalar::Rule<double,double> sr2(std::move(sr)); Cubature::Scalar::Rule<double,double> sr3(sr2.clone()); sr2 = std::move(sr3);
  const Cubature::Scalar::Rule<double,double>& csr = sr2; (void)csr.get_weight(0); (void)csr.get_coord(0); (void)csr.get_name(); (void)csr.get_num_points();
}
template<typename Shape_> void inst_rule_ops()
{
  typedef Cubature::Rule<Shape_, double, double, Tiny::Vector<double, Shape_::dimension>> R;
  R r(1, String("x")); R r2(std::move(r)); R r3(r2.clone()); r2 = std::move(r3);
  const R& cr = r2; (void)cr.get_weight(0); (void)cr.get_point(0); (void)cr.get_coord(0, 0); (void)r2.get_point(0); (void)cr.get_name(); (void)cr.get_num_points();
}
void inst_rule_ops_all()
{
  inst_rule_ops<Shape::Simplex<1>>(); inst_rule_ops<Shape::Simplex<2>>(); inst_rule_ops<Shape::Simplex<3>>();
  inst_rule_ops<Shape::Hypercube<1>>(); inst_rule_ops<Shape::Hypercube<2>>(); inst_rule_ops<Shape::Hypercube<3>>();
}
