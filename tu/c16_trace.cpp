// instantiation driver (no logic): every route of Assembly::TraceAssembler (facet integrals, jump operators)
// on a quadrilateral and a triangle mesh (2D) and a hexahedral mesh (3D)
#include <kernel/geometry/conformal_mesh.hpp>
#include <kernel/geometry/mesh_part.hpp>
#include <kernel/trafo/standard/mapping.hpp>
#include <kernel/space/lagrange1/element.hpp>
#include <kernel/space/lagrange2/element.hpp>
#include <kernel/cubature/dynamic_factory.hpp>
#include <kernel/lafem/sparse_matrix_csr.hpp>
#include <kernel/lafem/dense_vector.hpp>
#include <kernel/lafem/dense_vector_blocked.hpp>
#include <kernel/analytic/common.hpp>
#include <kernel/assembly/common_operators.hpp>
#include <kernel/assembly/common_functionals.hpp>
#include <kernel/assembly/trace_assembler.hpp>
using namespace FEAT;

#ifndef C16_DT
#define C16_DT double
#endif
typedef C16_DT DT;
typedef Index IT;

template<int dim_>
struct FlowAccum
{
  DT sum;
  template<typename P_, typename J_, typename V_, typename G_>
  void operator()(const DT omega, const P_& /*img_point*/, const J_& /*jac*/, const V_& /*val_v*/, const G_& /*grad_v*/, const DT val_p)
  {
    sum += omega * val_p;
  }
};

template<typename Shape_>
void inst_trace(Geometry::ConformalMesh<Shape_, Shape_::dimension, DT>& mesh, Geometry::MeshPart<Geometry::ConformalMesh<Shape_, Shape_::dimension, DT>>& part)
{
  static constexpr int dim = Shape_::dimension;
  typedef Geometry::ConformalMesh<Shape_, dim, DT> MeshType;
  typedef Trafo::Standard::Mapping<MeshType> TrafoType;
  typedef Space::Lagrange2::Element<TrafoType> TestSpace;   // TEST  := Lagrange2
  typedef Space::Lagrange1::Element<TrafoType> TrialSpace;  // TRIAL := Lagrange1
  TrafoType trafo(mesh);
  TestSpace test_space(trafo);
  TrialSpace trial_space(trafo);
  Cubature::DynamicFactory cubature("gauss-legendre:3");

  Assembly::TraceAssembler<TrafoType> trace_asm(trafo);
  trace_asm.add_facet(Index(0));
  trace_asm.add_mesh_part(part);
  trace_asm.compile();
  trace_asm.clear();
  trace_asm.compile_all_facets(true, true);

  LAFEM::SparseMatrixCSR<DT, IT> matrix;
  LAFEM::DenseVector<DT, IT> vector, vector_p;
  LAFEM::DenseVectorBlocked<DT, IT, dim> vector_v;
  Assembly::Common::LaplaceOperator laplace;
  Analytic::Common::ConstantFunction<dim, DT> one(DT(1));
  Assembly::Common::ForceFunctional<Analytic::Common::ConstantFunction<dim, DT>> force(one);
  FlowAccum<dim> accum;

  trace_asm.assemble_operator_matrix1(matrix, laplace, test_space, cubature, DT(1));
  trace_asm.assemble_operator_matrix2(matrix, laplace, test_space, trial_space, cubature, DT(1));
  trace_asm.assemble_functional_vector(vector, force, test_space, cubature, DT(1));
  trace_asm.assemble_flow_accum(accum, vector_v, vector_p, test_space, trial_space, cubature);
  DT s = trace_asm.assemble_discrete_integral(vector, test_space, cubature);
  auto v = trace_asm.assemble_discrete_integral(vector_v, test_space, cubature);
  (void)s; (void)v;
  trace_asm.assemble_jump_stabil_operator_matrix(matrix, test_space, cubature, DT(1), DT(2), DT(2));
  trace_asm.assemble_jump_operator_matrix(matrix, test_space, cubature, DT(1));
}

template void inst_trace<Shape::Hypercube<2>>(Geometry::ConformalMesh<Shape::Hypercube<2>, 2, DT>&, Geometry::MeshPart<Geometry::ConformalMesh<Shape::Hypercube<2>, 2, DT>>&);
template void inst_trace<Shape::Simplex<2>>(Geometry::ConformalMesh<Shape::Simplex<2>, 2, DT>&, Geometry::MeshPart<Geometry::ConformalMesh<Shape::Simplex<2>, 2, DT>>&);
template void inst_trace<Shape::Hypercube<3>>(Geometry::ConformalMesh<Shape::Hypercube<3>, 3, DT>&, Geometry::MeshPart<Geometry::ConformalMesh<Shape::Hypercube<3>, 3, DT>>&);
