// instantiation driver (no logic): DomainAssembler<Trafo>::assemble / assemble_master / compile and
// Worker<Job> for the basic assembly jobs (scatter, no combine), the function integral jobs
// (no scatter, combine) and the cell error job (scatter and combine)
#include <kernel/assembly/domain_assembler.hpp>
#include <kernel/assembly/domain_assembler_helpers.hpp>
#include <kernel/assembly/basic_assembly_jobs.hpp>
#include <kernel/assembly/function_integral_jobs.hpp>
#include <kernel/assembly/common_operators.hpp>
#include <kernel/assembly/common_functionals.hpp>
#include <kernel/analytic/common.hpp>
#include <kernel/geometry/conformal_mesh.hpp>
#include <kernel/lafem/dense_vector.hpp>
#include <kernel/lafem/sparse_matrix_csr.hpp>
#include <kernel/space/lagrange1/element.hpp>
#include <kernel/trafo/standard/mapping.hpp>
#include <kernel/util/thread.hpp>
using namespace FEAT;

#ifdef C17_FLOAT
typedef float DT;
typedef std::uint32_t IT;
typedef Shape::Simplex<3> ShapeT;
#else
typedef double DT;
typedef Index IT;
typedef Shape::Hypercube<2> ShapeT;
#endif

typedef Geometry::ConformalMesh<ShapeT> MeshT;
typedef Trafo::Standard::Mapping<MeshT> TrafoT;
typedef Space::Lagrange1::Element<TrafoT> SpaceT;
typedef LAFEM::DenseVector<DT, IT> VectorT;
typedef LAFEM::SparseMatrixCSR<DT, IT> MatrixT;
typedef Analytic::Common::SineBubbleFunction<ShapeT::dimension> FuncT;
typedef Assembly::DomainAssembler<TrafoT> AsmT;

// exposes the Task's compile-time flags as evaluated constants (the repo reads them through
// `task->need_scatter`, a member access the fact extractor does not fold)
template<typename Job_> void c17_flags()
{
  constexpr bool need_scatter = Job_::Task::need_scatter;
  constexpr bool need_combine = Job_::Task::need_combine;
  (void)need_scatter; (void)need_combine;
}

void c17_inst(AsmT& dom_asm, MatrixT& matrix, VectorT& vector, const SpaceT& space, const FuncT& func, const Geometry::MeshPart<MeshT>& part)
{
  Assembly::Common::LaplaceOperator oper;
  String cub("auto-degree:2");
  // scatter, no combine
  Assembly::BilinearOperatorMatrixAssemblyJob1<Assembly::Common::LaplaceOperator, MatrixT, SpaceT> job_m(oper, matrix, space, cub, DT(1));
  dom_asm.assemble(job_m);
  c17_flags<decltype(job_m)>();
  dom_asm.assemble_master(job_m);
  Assembly::ForceFunctionalAssemblyJob<FuncT, VectorT, SpaceT> job_f(func, vector, space, cub, DT(1));
  dom_asm.assemble(job_f);
  c17_flags<decltype(job_f)>();
  dom_asm.assemble_master(job_f);
  // no scatter, combine
  Assembly::AnalyticFunctionIntegralJob<DT, FuncT, TrafoT, 1> job_a(func, dom_asm.get_trafo(), cub);
  dom_asm.assemble(job_a);
  c17_flags<decltype(job_a)>();
  dom_asm.assemble_master(job_a);
  Assembly::ErrorFunctionIntegralJob<FuncT, VectorT, SpaceT, 1> job_e(func, vector, space, cub);
  dom_asm.assemble(job_e);
  c17_flags<decltype(job_e)>();
  dom_asm.assemble_master(job_e);
  // scatter and combine
  Assembly::CellErrorFunctionIntegralJob<FuncT, VectorT, SpaceT, 0> job_c(func, vector, space, cub);
  dom_asm.assemble(job_c);
  c17_flags<decltype(job_c)>();
  dom_asm.assemble_master(job_c);
  // set-up path
  dom_asm.set_threading_strategy(Assembly::ThreadingStrategy::layered);
  dom_asm.set_max_worker_threads(4);
  dom_asm.add_element(0);
  dom_asm.add_mesh_part(part);
  dom_asm.compile();
  dom_asm.compile_all_elements();
  dom_asm.clear();
  AsmT second_asm(dom_asm.get_trafo());   // constructor (member sizes)
  second_asm.compile_all_elements();
  ThreadFence fence;
  fence.close();
  fence.open(fence.wait());
}
