// instantiation driver (no logic): additive macro-wise Vanka (AmaVanka) over a scalar CSR matrix and over saddle-point
// matrices (scalar CSR blocks, BCSR blocks): C08 rule E8.scratch-reset
#include <kernel/lafem/sparse_matrix_csr.hpp>
#include <kernel/lafem/sparse_matrix_bcsr.hpp>
#include <kernel/lafem/saddle_point_matrix.hpp>
#include <kernel/lafem/tuple_filter.hpp>
#include <kernel/lafem/none_filter.hpp>
#include <kernel/lafem/unit_filter.hpp>
#include <kernel/lafem/unit_filter_blocked.hpp>
#include <kernel/solver/amavanka.hpp>
using namespace FEAT;
typedef LAFEM::SparseMatrixCSR<double, Index> Csr;
template class Solver::AmaVanka<Csr, LAFEM::UnitFilter<double, Index>>;
typedef LAFEM::SaddlePointMatrix<LAFEM::SparseMatrixBCSR<double, Index, 2, 2>, LAFEM::SparseMatrixBCSR<double, Index, 2, 1>, LAFEM::SparseMatrixBCSR<double, Index, 1, 2>> SadBcsr;
typedef LAFEM::TupleFilter<LAFEM::UnitFilterBlocked<double, Index, 2>, LAFEM::NoneFilter<double, Index>> FilBcsr;
template class Solver::AmaVanka<SadBcsr, FilBcsr>;
#ifdef C08_THOROUGH
typedef LAFEM::SparseMatrixCSR<float, unsigned int> Csrf;
template class Solver::AmaVanka<Csrf, LAFEM::NoneFilter<float, unsigned int>>;
typedef LAFEM::SparseMatrixBCSR<double, Index, 3, 3> Bcsr3;
template class Solver::AmaVanka<Bcsr3, LAFEM::UnitFilterBlocked<double, Index, 3>>;
#endif
