// instantiation driver (no logic): the eight Graph::_render_* templates through the public render
// constructors, for Graph / DynamicGraph / CompositeAdjactor / IndexSet adjactors
#include <kernel/adjacency/graph.hpp>
#include <kernel/adjacency/dynamic_graph.hpp>
#include <kernel/adjacency/adjactor.hpp>
#include <kernel/adjacency/permutation.hpp>
#include <kernel/adjacency/coloring.hpp>
#include <kernel/adjacency/cuthill_mckee.hpp>
#ifdef C19_THOROUGH
#include <kernel/geometry/index_set.hpp>
#endif
using namespace FEAT;
using namespace FEAT::Adjacency;

template Graph::Graph(RenderType, const Graph&);
template Graph::Graph(RenderType, const Graph&, const Graph&);

// the composite adjactor's image iterator (constructors, increment, dereference)
template class FEAT::Adjacency::CompositeAdjactor<Graph, Graph>;

// render constructors of the dynamic graph (plain / transposed, single / composite)
template DynamicGraph::DynamicGraph(RenderType, const Graph&);
template DynamicGraph::DynamicGraph(RenderType, const Graph&, const Graph&);

// in-situ composition of a dynamic graph with an adjactor
template void DynamicGraph::compose<Graph>(const Graph&);

// in-situ and out-of-place permutation application
template void Permutation::apply<double>(double*, bool) const;
template void Permutation::apply<Index>(Index*, bool) const;
template void Permutation::apply<double, double>(double*, const double*, bool) const;

#ifdef C19_THOROUGH
template Graph::Graph(RenderType, const DynamicGraph&);
template Graph::Graph(RenderType, const DynamicGraph&, const Graph&);
template Graph::Graph(RenderType, const CompositeAdjactor<Graph, Graph>&);
template Graph::Graph(RenderType, const Graph&, const CompositeAdjactor<Graph, Graph>&);
template Graph::Graph(RenderType, const Geometry::IndexSet<4>&);
template Graph::Graph(RenderType, const Geometry::IndexSet<4>&, const Graph&);
template void Permutation::apply<float>(float*, bool) const;
template void Permutation::apply<float, double>(float*, const double*, bool) const;
#endif
