// fact source (no instantiation): the Uzawa preconditioner class templates are analysed as written (pattern functions):
// C08 rule E13.case-exclusive only needs the statement structure of the type switches
#include <kernel/solver/uzawa_precond.hpp>
