// instantiation driver (no logic): patch extraction, halo construction/splitting and the built-in
// partitioners for conformal meshes
#include <kernel/geometry/conformal_mesh.hpp>
#include <kernel/geometry/mesh_part.hpp>
#include <kernel/geometry/mesh_node.hpp>
#include <kernel/geometry/patch_halo_factory.hpp>
#include <kernel/geometry/patch_halo_splitter.hpp>
#include <kernel/geometry/patch_mesh_factory.hpp>
#include <kernel/geometry/patch_meshpart_factory.hpp>
#include <kernel/geometry/patch_meshpart_splitter.hpp>
#include <kernel/geometry/parti_2lvl.hpp>
#include <kernel/geometry/parti_iterative.hpp>
#include <kernel/geometry/partition_set.hpp>
using namespace FEAT;
using namespace FEAT::Geometry;

template<typename Mesh_>
void c12_inst(RootMeshNode<Mesh_>& node, Mesh_& mesh, MeshPart<Mesh_>& part, const Adjacency::Graph& g, std::vector<int>& ranks, const Dist::Comm& comm)
{
  node.extract_patch(ranks, g, 0);
  node.extract_patch(std::vector<Index>(), true, true, true);
  node.create_patch_meshpart(g, 1);
  node.refine_unique();
  node.rename_halos(std::map<int,int>());
  PatchHaloFactory<Mesh_> hf(g, mesh, part);
  hf.build(Index(0));
  hf.make_unique();
  PatchHaloSplitter<Mesh_> hs(mesh, part);
  hs.add_halo(0, part);
  std::vector<Index> buf = hs.serialize_split_halo(0, 0);
  hs.intersect_split_halo(0, buf, Index(0));
  hs.make_unique();
  PatchMeshPartSplitter<Mesh_> ps(mesh, part);
  ps.build(part);
  ps.make_unique();
  PatchMeshFactory<Mesh_> mf(mesh, part);
  mf.make_unique();
  PatchMeshPartFactory<Mesh_> pf(Index(0), g);
  pf.make_unique();
  Parti2Lvl<Mesh_> p2(mesh, Index(4));
  p2.success(); p2.parti_level(); p2.build_elems_at_rank();
  PartiIterative<Mesh_> pi(mesh, comm, Index(4), 1.0, 1.0);
  pi.build_elems_at_rank();
}

typedef ConformalMesh<Shape::Hypercube<2>, 2, double> C12MeshQ2;
template void c12_inst<C12MeshQ2>(RootMeshNode<C12MeshQ2>&, C12MeshQ2&, MeshPart<C12MeshQ2>&, const Adjacency::Graph&, std::vector<int>&, const Dist::Comm&);
// joint refinement of a 3D root node (halo / patch mesh parts): dimension dependent code paths differ from 2D
typedef ConformalMesh<Shape::Hypercube<3>, 3, double> C12MeshH3;
template std::unique_ptr<RootMeshNode<C12MeshH3>> RootMeshNode<C12MeshH3>::refine_unique(AdaptMode) const;
#ifdef C12_THOROUGH
typedef ConformalMesh<Shape::Simplex<3>, 3, double> C12MeshS3;
typedef ConformalMesh<Shape::Hypercube<3>, 3, double> C12MeshQ3;
typedef ConformalMesh<Shape::Simplex<2>, 2, double> C12MeshS2;
template void c12_inst<C12MeshS3>(RootMeshNode<C12MeshS3>&, C12MeshS3&, MeshPart<C12MeshS3>&, const Adjacency::Graph&, std::vector<int>&, const Dist::Comm&);
template void c12_inst<C12MeshQ3>(RootMeshNode<C12MeshQ3>&, C12MeshQ3&, MeshPart<C12MeshQ3>&, const Adjacency::Graph&, std::vector<int>&, const Dist::Comm&);
template void c12_inst<C12MeshS2>(RootMeshNode<C12MeshS2>&, C12MeshS2&, MeshPart<C12MeshS2>&, const Adjacency::Graph&, std::vector<int>&, const Dist::Comm&);
#endif
