// instantiation driver (no logic): every Container-derived LAFEM class with its lifetime members
// (constructors, move, clear, clone in all forms, convert same-type / cross-type, layout sharing,
// transpose, permute).  Used by C20 (lifetimes) and C02 (conversion / cloning / transposition).
#include <kernel/lafem/container.hpp>
#include <kernel/lafem/dense_vector.hpp>
#include <kernel/lafem/dense_vector_blocked.hpp>
#include <kernel/lafem/sparse_vector.hpp>
#include <kernel/lafem/sparse_vector_blocked.hpp>
#include <kernel/lafem/dense_matrix.hpp>
#include <kernel/lafem/sparse_matrix_csr.hpp>
#include <kernel/lafem/sparse_matrix_bcsr.hpp>
#include <kernel/lafem/sparse_matrix_cscr.hpp>
#include <kernel/lafem/sparse_matrix_banded.hpp>
#include <kernel/lafem/sparse_layout.hpp>
#include <kernel/lafem/vector_mirror.hpp>
#include <kernel/lafem/matrix_mirror_buffer.hpp>
#include <kernel/adjacency/graph.hpp>
#include <kernel/adjacency/permutation.hpp>
#include <kernel/util/memory_pool.hpp>

using namespace FEAT;
using namespace FEAT::LAFEM;

#ifndef C20_DT
#define C20_DT double
#define C20_IT std::uint64_t
#define C20_DT2 float
#define C20_IT2 std::uint32_t
#endif

typedef C20_DT DT;
typedef C20_IT IT;
typedef C20_DT2 DT2;
typedef C20_IT2 IT2;

// whole-class instantiation: all non-template members (ctors, dtor, clear, move, operator=, clone(), ...)
template class FEAT::LAFEM::Container<DT, IT>;
template class FEAT::LAFEM::DenseVector<DT, IT>;
template class FEAT::LAFEM::DenseVectorBlocked<DT, IT, 2>;
template class FEAT::LAFEM::SparseVector<DT, IT>;
template class FEAT::LAFEM::SparseVectorBlocked<DT, IT, 2>;
template class FEAT::LAFEM::DenseMatrix<DT, IT>;
template class FEAT::LAFEM::SparseMatrixCSR<DT, IT>;
template class FEAT::LAFEM::SparseMatrixBCSR<DT, IT, 2, 3>;
template class FEAT::LAFEM::SparseMatrixBCSR<DT, IT, 3, 3>;
template class FEAT::LAFEM::SparseMatrixCSCR<DT, IT>;
template class FEAT::LAFEM::SparseMatrixBanded<DT, IT>;
template class FEAT::LAFEM::SparseLayout<IT, SparseLayoutId::lt_csr>;
template class FEAT::LAFEM::SparseLayout<IT, SparseLayoutId::lt_cscr>;
template class FEAT::LAFEM::SparseLayout<IT, SparseLayoutId::lt_banded>;
template class FEAT::LAFEM::VectorMirror<DT, IT>;
template class FEAT::LAFEM::MatrixMirrorBuffer<DT, IT>;

// member templates: same-type and cross-type clone / convert, converting constructors
template<typename A_, typename B_>
void inst_clone_convert(A_& a, const A_& a2, const B_& b)
{
  a.clone(a2, CloneMode::Shallow);
  a.clone(b, CloneMode::Deep);
  a.convert(a2);
  a.convert(b);
}

void c20_inst_all()
{
  {
    DenseVector<DT, IT> a, a2; DenseVector<DT2, IT2> b;
    inst_clone_convert(a, a2, b);
    DenseVectorBlocked<DT, IT, 2> ab, ab2; DenseVectorBlocked<DT2, IT2, 2> bb;
    inst_clone_convert(ab, ab2, bb);
    a.convert(ab);            // DenseVector <- DenseVectorBlocked (shares the array)
    ab.convert(a);            // DenseVectorBlocked <- DenseVector (shares the array)
    DenseVector<DT, IT> c(ab);
    DenseVectorBlocked<DT, IT, 2> cb(a);
    a.template deserialize<DT2, IT2>(std::vector<char>());
    // cross-type clones where only one of the two types changes (Container::assign shares the unchanged arrays)
    DenseVector<DT, IT2> m1; DenseVector<DT2, IT> m2;
    a.clone(m1, CloneMode::Deep);
    a.clone(m2, CloneMode::Deep);
  }
  {
    SparseVector<DT, IT> a, a2; SparseVector<DT2, IT2> b;
    inst_clone_convert(a, a2, b);
    SparseVectorBlocked<DT, IT, 2> ab, ab2; SparseVectorBlocked<DT2, IT2, 2> bb;
    inst_clone_convert(ab, ab2, bb);
  }
  {
    DenseMatrix<DT, IT> a, a2; DenseMatrix<DT2, IT2> b;
    inst_clone_convert(a, a2, b);
  }
  {
    SparseMatrixCSR<DT, IT> a, a2; SparseMatrixCSR<DT2, IT2> b;
    inst_clone_convert(a, a2, b);
    SparseMatrixBanded<DT, IT> ba, ba2; SparseMatrixBanded<DT2, IT2> bb;
    inst_clone_convert(ba, ba2, bb);
    SparseMatrixBCSR<DT, IT, 2, 3> ra, ra2; SparseMatrixBCSR<DT2, IT2, 2, 3> rb;
    inst_clone_convert(ra, ra2, rb);
    SparseMatrixBCSR<DT, IT, 3, 3> qa, qa2; SparseMatrixBCSR<DT2, IT2, 3, 3> qb;
    inst_clone_convert(qa, qa2, qb);
    SparseMatrixCSCR<DT, IT> ca, ca2; SparseMatrixCSCR<DT2, IT2> cb;
    inst_clone_convert(ca, ca2, cb);

    // cross-format conversions offered by the classes
    a.convert(ba);                      // CSR <- Banded (same DT/IT only: body reads other.val() as DT_*)
    a.convert(ra); a.convert(rb);       // CSR <- BCSR 2x3
    a.convert(qa);                      // CSR <- BCSR 3x3
    a.convert(ca);                      // CSR <- CSCR (generic MT_)
    ba.convert(a); ba.convert(b);       // Banded <- CSR
    ca.convert(a);                      // CSCR <- CSR (generic MT_)
    SparseMatrixCSR<DT, IT> x1(ba), x2(ra), x3(ca);
    SparseMatrixBanded<DT, IT> x4(a);
    SparseMatrixCSCR<DT, IT> x5(a);
  }
  {
    VectorMirror<DT, IT> a, a2; VectorMirror<DT2, IT2> b;
    a.clone(a2, CloneMode::Shallow);
    a.convert(a2);
    a.convert(b);
    MatrixMirrorBuffer<DT, IT> ma, ma2; MatrixMirrorBuffer<DT2, IT2> mb;
    ma.clone(ma2, CloneMode::Shallow);
    ma.convert(ma2);
    ma.convert(mb);
  }
}

// cross-type clones where exactly one of the two types changes, for every class that offers a templated clone:
// Container::assign / convert share the arrays of the unchanged type, so these are the instantiations in which a clone
// overload that delegates to convert/assign can alias its source (clone-cross-type rules of C02 / C20)
template<typename A_, typename B_, typename C_>
void inst_mixed_clone(A_& a, const B_& same_dt_other_it, const C_& other_dt_same_it)
{
  a.clone(same_dt_other_it, CloneMode::Deep);
  a.clone(other_dt_same_it, CloneMode::Deep);
}

void c20_inst_mixed_clones()
{
  { DenseVectorBlocked<DT, IT, 2> a; DenseVectorBlocked<DT, IT2, 2> b; DenseVectorBlocked<DT2, IT, 2> c; inst_mixed_clone(a, b, c); }
  { SparseVector<DT, IT> a; SparseVector<DT, IT2> b; SparseVector<DT2, IT> c; inst_mixed_clone(a, b, c); }
  { SparseVectorBlocked<DT, IT, 2> a; SparseVectorBlocked<DT, IT2, 2> b; SparseVectorBlocked<DT2, IT, 2> c; inst_mixed_clone(a, b, c); }
  { DenseMatrix<DT, IT> a; DenseMatrix<DT, IT2> b; DenseMatrix<DT2, IT> c; inst_mixed_clone(a, b, c); }
  { SparseMatrixCSR<DT, IT> a; SparseMatrixCSR<DT, IT2> b; SparseMatrixCSR<DT2, IT> c; inst_mixed_clone(a, b, c); }
  { SparseMatrixBCSR<DT, IT, 2, 3> a; SparseMatrixBCSR<DT, IT2, 2, 3> b; SparseMatrixBCSR<DT2, IT, 2, 3> c; inst_mixed_clone(a, b, c); }
  { SparseMatrixCSCR<DT, IT> a; SparseMatrixCSCR<DT, IT2> b; SparseMatrixCSCR<DT2, IT> c; inst_mixed_clone(a, b, c); }
  { SparseMatrixBanded<DT, IT> a; SparseMatrixBanded<DT, IT2> b; SparseMatrixBanded<DT2, IT> c; inst_mixed_clone(a, b, c); }
  { MatrixMirrorBuffer<DT, IT> a; MatrixMirrorBuffer<DT, IT2> b; MatrixMirrorBuffer<DT2, IT> c; inst_mixed_clone(a, b, c); }
}
