// instantiation driver (no logic): MultiGrid + MultiGridHierarchy over LAFEM matrices, filters, transfers
#include <kernel/lafem/sparse_matrix_csr.hpp>
#include <kernel/lafem/sparse_matrix_bcsr.hpp>
#include <kernel/lafem/sparse_matrix_bwrappedcsr.hpp>
#include <kernel/lafem/dense_vector.hpp>
#include <kernel/lafem/dense_vector_blocked.hpp>
#include <kernel/lafem/unit_filter.hpp>
#include <kernel/lafem/unit_filter_blocked.hpp>
#include <kernel/lafem/none_filter.hpp>
#include <kernel/lafem/transfer.hpp>
#include <kernel/solver/multigrid.hpp>
using namespace FEAT;

typedef LAFEM::SparseMatrixCSR<double, Index> MatCSR;
typedef LAFEM::UnitFilter<double, Index> FilCSR;
typedef LAFEM::Transfer<MatCSR> TraCSR;
template class Solver::MultiGridLevelStd<MatCSR, FilCSR, TraCSR>;
template class Solver::MultiGridHierarchy<MatCSR, FilCSR, TraCSR>;
template class Solver::MultiGrid<MatCSR, FilCSR, TraCSR>;
// factory (function template): instantiated by a never-called function (rule E1.factory-forwards)
inline void c09_inst_factory(std::shared_ptr<Solver::MultiGridHierarchy<MatCSR, FilCSR, TraCSR>> h)
{
  auto mg = Solver::new_multigrid(h, Solver::MultiGridCycle::W, 1, 2);
  (void)mg;
}

#ifdef C09_THOROUGH
typedef LAFEM::SparseMatrixBCSR<double, Index, 2, 2> MatBCSR;
typedef LAFEM::SparseMatrixBCSR<double, Index, 2, 1> TMatBCSR;
typedef LAFEM::UnitFilterBlocked<double, Index, 2> FilBCSR;
typedef LAFEM::Transfer<LAFEM::SparseMatrixBWrappedCSR<double, Index, 2>> TraBCSR;
template class Solver::MultiGridLevelStd<MatBCSR, FilBCSR, TraBCSR>;
template class Solver::MultiGridHierarchy<MatBCSR, FilBCSR, TraBCSR>;
template class Solver::MultiGrid<MatBCSR, FilBCSR, TraBCSR>;
typedef LAFEM::SparseMatrixCSR<float, unsigned int> MatCSRf;
typedef LAFEM::NoneFilter<float, unsigned int> FilCSRf;
typedef LAFEM::Transfer<MatCSRf> TraCSRf;
template class Solver::MultiGridLevelStd<MatCSRf, FilCSRf, TraCSRf>;
template class Solver::MultiGridHierarchy<MatCSRf, FilCSRf, TraCSRf>;
template class Solver::MultiGrid<MatCSRf, FilCSRf, TraCSRf>;
#endif
