// instantiation driver (no logic), parsed with -DFEAT_HAVE_MPI: the tuple-gate builders of control/asm/gate_asm.hpp (C13).
#include <kernel/lafem/dense_vector.hpp>
#include <kernel/lafem/dense_vector_blocked.hpp>
#include <kernel/lafem/tuple_vector.hpp>
#include <kernel/lafem/tuple_mirror.hpp>
#include <kernel/lafem/vector_mirror.hpp>
#include <kernel/global/gate.hpp>
#include <control/asm/gate_asm.hpp>

using namespace FEAT;

typedef double DT;
typedef Index IT;
typedef LAFEM::DenseVector<DT, IT> VecS;
typedef LAFEM::DenseVectorBlocked<DT, IT, 2> VecB;
typedef LAFEM::VectorMirror<DT, IT> Mir;
typedef LAFEM::TupleVector<VecB, VecS> Vec2;
typedef LAFEM::TupleMirror<Mir, Mir> Mir2;
typedef LAFEM::TupleVector<VecB, VecS, VecS> Vec3;
typedef LAFEM::TupleMirror<Mir, Mir, Mir> Mir3;

void inst_gate_tuple(Global::Gate<Vec2, Mir2>& sys2, Global::Gate<Vec3, Mir3>& sys3,
  const Global::Gate<VecB, Mir>& g0, const Global::Gate<VecS, Mir>& g1, const Global::Gate<VecS, Mir>& g2)
{
  Control::Asm::build_gate_tuple(sys2, g0, g1);
  Control::Asm::build_gate_tuple(sys3, g0, g1, g2);
}

// gather / scatter_axpy / buffer_size member templates of the tuple mirrors (rule E2.tuple-mirror-layout)
void inst_tuple_mirror(const Mir2& m2, const Mir3& m3, Vec2& v2, Vec3& v3, VecS& buf)
{
  m2.gather(buf, v2); m2.scatter_axpy(v2, buf); (void)m2.buffer_size(v2);
  m3.gather(buf, v3); m3.scatter_axpy(v3, buf); (void)m3.buffer_size(v3);
}

// two-pass dof mirror assembly (rule E3.mirror-two-pass): count / fill recursion over the entity dimensions
#include <kernel/geometry/conformal_mesh.hpp>
#include <kernel/geometry/mesh_part.hpp>
#include <kernel/trafo/standard/mapping.hpp>
#include <kernel/space/lagrange1/element.hpp>
#include <kernel/assembly/mirror_assembler.hpp>
typedef Geometry::ConformalMesh<Shape::Hypercube<2>> MeshQ2;
typedef Space::Lagrange1::Element<Trafo::Standard::Mapping<MeshQ2>> SpaceQ1;
void inst_mirror_asm(Mir& mirror, const SpaceQ1& space, const Geometry::MeshPart<MeshQ2>& halo)
{
  Assembly::MirrorAssembler::assemble_mirror(mirror, space, halo);
}

// FunctionIntegralInfo::synchronize packs its members into a buffer, all-reduces it and unpacks it (rule E2.pack-unpack-agree);
// non-square operand types so that a row / column mix-up is visible in the instantiated loop bounds
#include <kernel/assembly/function_integral_jobs.hpp>
typedef Assembly::FunctionIntegralInfo<DT, Tiny::Vector<DT, 2>, Tiny::Matrix<DT, 2, 3>, Tiny::Tensor3<DT, 2, 3, 4>> FuncIntInfo;
void inst_function_integral_sync(FuncIntInfo& info, const Dist::Comm& comm)
{
  info.synchronize(comm);
}
