// instantiation driver (no logic): the transfer operator classes a Solver::MultiGrid can be built on — the local
// LAFEM::Transfer and the Global::Transfer wrapper that routes the coarse side through a muxer (C09, rule E1.transfer-method-chain)
#include <kernel/lafem/dense_vector.hpp>
#include <kernel/lafem/sparse_matrix_csr.hpp>
#include <kernel/lafem/vector_mirror.hpp>
#include <kernel/lafem/transfer.hpp>
#include <kernel/global/transfer.hpp>

using namespace FEAT;

#ifdef C09_THOROUGH
typedef float DT2;
typedef unsigned int IT2;
template class FEAT::LAFEM::Transfer<LAFEM::SparseMatrixCSR<DT2, IT2>>;
template class FEAT::Global::Transfer<LAFEM::Transfer<LAFEM::SparseMatrixCSR<DT2, IT2>>, LAFEM::VectorMirror<DT2, IT2>>;
#endif
typedef LAFEM::SparseMatrixCSR<double, Index> ScalarMatrix;
typedef LAFEM::VectorMirror<double, Index> Mirror;

template class FEAT::LAFEM::Transfer<ScalarMatrix>;
template class FEAT::Global::Transfer<LAFEM::Transfer<ScalarMatrix>, Mirror>;

// the forwarding constructor Global::Transfer(const MuxerType*, Args&&...) is a member template: instantiated by a never-called function
typedef FEAT::Global::Transfer<LAFEM::Transfer<ScalarMatrix>, Mirror> GlobTransfer;
inline void c09_inst_ctor(const GlobTransfer::MuxerType* muxer, LAFEM::Transfer<ScalarMatrix>&& loc)
{
  GlobTransfer t(muxer, std::move(loc));
  (void)t;
}

// convert(other) is a member template of both transfer classes: instantiated by a never-called function (rule E1.transfer-clone-mode,
// member-wise agreement of the copy-like members)
typedef LAFEM::SparseMatrixCSR<float, unsigned int> ScalarMatrixF;
typedef FEAT::Global::Transfer<LAFEM::Transfer<ScalarMatrixF>, LAFEM::VectorMirror<float, unsigned int>> GlobTransferF;
inline void c09_inst_convert(LAFEM::Transfer<ScalarMatrix>& t, const LAFEM::Transfer<ScalarMatrixF>& o, GlobTransfer& g, const GlobTransferF& go, GlobTransfer::MuxerType* muxer)
{
  t.convert(o);
  g.convert(muxer, go);
}
