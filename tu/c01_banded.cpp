// instantiation driver for C01 (no logic): the banded product kernels, parsed twice by checks/c01.py —
// default build and with the documented build option -DFEAT_UNROLL_BANDED (doxy_in/preproc_macros.dox), which
// routes 3/5/9/25 offsets to the template-unrolled Intern::ApplyBanded::Iteration_Right/Iteration_Left kernels.
#include <kernel/base_header.hpp>
#include <kernel/lafem/arch/apply.hpp>

using namespace FEAT;
using namespace FEAT::LAFEM;

void c01_banded_instantiate()
{
  (void)static_cast<void (*)(double*, const double, const double* const, const double, const double* const, const double* const,
    const std::uint64_t* const, const Index, const Index, const Index)>(&Arch::Apply::banded);
  (void)static_cast<void (*)(float*, const float, const float* const, const float, const float* const, const float* const,
    const std::uint32_t* const, const Index, const Index, const Index)>(&Arch::Apply::banded);
}
