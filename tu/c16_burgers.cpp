// instantiation driver (no logic): Burgers assembler + Burgers assembly jobs, GradPresDivVelo and grad-operator assemblers
#include <kernel/geometry/conformal_mesh.hpp>
#include <kernel/trafo/standard/mapping.hpp>
#include <kernel/space/lagrange1/element.hpp>
#include <kernel/space/lagrange2/element.hpp>
#include <kernel/cubature/dynamic_factory.hpp>
#include <kernel/lafem/sparse_matrix_csr.hpp>
#include <kernel/lafem/sparse_matrix_bcsr.hpp>
#include <kernel/lafem/dense_vector.hpp>
#include <kernel/lafem/dense_vector_blocked.hpp>
#include <kernel/assembly/burgers_assembler.hpp>
#include <kernel/assembly/burgers_assembly_job.hpp>
#include <kernel/assembly/gpdv_assembler.hpp>
#include <kernel/assembly/grad_operator_assembler.hpp>
using namespace FEAT;

#ifndef C16_DT
#define C16_DT double
#endif
typedef C16_DT DT;
typedef Index IT;
typedef Shape::Hypercube<2> ShapeType;
typedef Geometry::ConformalMesh<ShapeType, 2, DT> MeshType;
typedef Trafo::Standard::Mapping<MeshType> TrafoType;
typedef Space::Lagrange2::Element<TrafoType> SpaceVelo;
typedef Space::Lagrange1::Element<TrafoType> SpacePres;

template<typename Job_>
void inst_task(Job_& job)
{
  typename Job_::Task task(job);
  task.prepare(Index(0));
  task.assemble();
  task.scatter();
  task.finish();
  task.combine();
}

void inst_all(SpaceVelo& space_velo, SpacePres& space_pres)
{
  Cubature::DynamicFactory cubature("auto-degree:5");
  String cubature_name("auto-degree:5");
  typedef LAFEM::SparseMatrixBCSR<DT, IT, 2, 2> MatrixA;
  typedef LAFEM::SparseMatrixCSR<DT, IT> MatrixS;
  typedef LAFEM::SparseMatrixBCSR<DT, IT, 2, 1> MatrixB;
  typedef LAFEM::SparseMatrixBCSR<DT, IT, 1, 2> MatrixD;
  typedef LAFEM::DenseVectorBlocked<DT, IT, 2> VectorV;
  typedef LAFEM::DenseVector<DT, IT> VectorS;
  MatrixA mat_a; MatrixS mat_s; MatrixB mat_b, mat_g; MatrixD mat_d; VectorV vec_conv, vec_prim, vec_rhs; VectorS vec_s_rhs, vec_s_sol;

  Assembly::BurgersAssembler<DT, IT, 2> burgers;
  burgers.assemble_matrix(mat_a, vec_conv, space_velo, cubature, DT(1));
  burgers.assemble_scalar_matrix(mat_s, vec_conv, space_velo, cubature, DT(1));
  burgers.assemble_vector(vec_rhs, vec_conv, vec_prim, space_velo, cubature, DT(1));

  { Assembly::BurgersBlockedMatrixAssemblyJob<MatrixA, SpaceVelo, VectorV> job(mat_a, vec_conv, space_velo, cubature_name); inst_task(job); }
  { Assembly::BurgersBlockedVectorAssemblyJob<VectorV, SpaceVelo, VectorV> job(vec_rhs, vec_prim, vec_conv, space_velo, cubature_name); inst_task(job); }
  { Assembly::BurgersScalarMatrixAssemblyJob<MatrixS, SpaceVelo, VectorV> job(mat_s, vec_conv, space_velo, cubature_name); inst_task(job); }
  { Assembly::BurgersScalarVectorAssemblyJob<VectorS, SpaceVelo, VectorV> job(vec_s_rhs, vec_s_sol, vec_conv, space_velo, cubature_name); inst_task(job); }

  Assembly::GradPresDivVeloAssembler::assemble(mat_b, mat_d, space_velo, space_pres, cubature, DT(-1), DT(-1));
  Assembly::GradOperatorAssembler::assemble(mat_g, space_velo, space_pres, cubature, DT(1));
}
