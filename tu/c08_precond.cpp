// instantiation driver (no logic): stationary preconditioners over LAFEM CSR / BCSR matrices
#include <kernel/lafem/sparse_matrix_csr.hpp>
#include <kernel/lafem/sparse_matrix_bcsr.hpp>
#include <kernel/lafem/dense_vector.hpp>
#include <kernel/lafem/dense_vector_blocked.hpp>
#include <kernel/lafem/unit_filter.hpp>
#include <kernel/lafem/unit_filter_blocked.hpp>
#include <kernel/lafem/none_filter.hpp>
#include <kernel/solver/jacobi_precond.hpp>
#include <kernel/solver/sor_precond.hpp>
#include <kernel/solver/ssor_precond.hpp>
#include <kernel/solver/ilu_precond.hpp>
#include <kernel/solver/polynomial_precond.hpp>
#include <kernel/solver/scale_precond.hpp>
#include <kernel/solver/diagonal_precond.hpp>
#include <kernel/solver/matrix_precond.hpp>
using namespace FEAT;

template<typename Mat_, typename Fil_>
struct InstAll
{
  typedef typename Mat_::VectorTypeL Vec;
  static void inst(const Mat_& m, const Fil_& f, PropertyMap* pm, const Vec& v)
  {
    // the factory functions are the documented way to create the solvers
    auto j = Solver::new_jacobi_precond(m, f, typename Mat_::DataType(0.7));
    auto s = Solver::new_sor_precond(PreferredBackend::generic, m, f);
    auto ss = Solver::new_ssor_precond(PreferredBackend::generic, m, f);
    auto i = Solver::new_ilu_precond(PreferredBackend::generic, m, f);
    auto sc = Solver::new_scale_precond(f, typename Mat_::DataType(0.5));
    auto d = Solver::new_diagonal_precond(v, f);
    auto mp = Solver::new_matrix_precond(m, f);
    (void)pm;
  }
};
typedef LAFEM::SparseMatrixCSR<double, Index> MatCSR;
typedef LAFEM::UnitFilter<double, Index> FilCSR;
typedef LAFEM::SparseMatrixBCSR<double, Index, 2, 2> MatBCSR;
typedef LAFEM::UnitFilterBlocked<double, Index, 2> FilBCSR;
template struct InstAll<MatCSR, FilCSR>;
template struct InstAll<MatBCSR, FilBCSR>;
template class Solver::JacobiPrecond<MatCSR, FilCSR>;
template class Solver::JacobiPrecond<MatBCSR, FilBCSR>;
template class Solver::PolynomialPrecond<MatCSR, FilCSR>;
template class Solver::ScalePrecond<LAFEM::DenseVector<double, Index>, FilCSR>;
template class Solver::DiagonalPrecond<LAFEM::DenseVector<double, Index>, FilCSR>;
template class Solver::MatrixPrecond<MatCSR, FilCSR>;
template class Solver::MatrixPrecond<MatBCSR, FilBCSR>;
template class Solver::SORPrecondWithBackend<PreferredBackend::generic, MatCSR, FilCSR>;
template class Solver::SORPrecondWithBackend<PreferredBackend::generic, MatBCSR, FilBCSR>;
template class Solver::SSORPrecondWithBackend<PreferredBackend::generic, MatCSR, FilCSR>;
template class Solver::SSORPrecondWithBackend<PreferredBackend::generic, MatBCSR, FilBCSR>;
template class Solver::ILUPrecondWithBackend<PreferredBackend::generic, MatCSR, FilCSR>;
template class Solver::ILUPrecondWithBackend<PreferredBackend::generic, MatBCSR, FilBCSR>;
template class Solver::Intern::ILUCoreScalar<double, Index>;
template class Solver::Intern::ILUCoreBlocked<double, Index, 2>;
#ifdef C08_THOROUGH
typedef LAFEM::SparseMatrixCSR<float, unsigned int> MatCSRf;
typedef LAFEM::NoneFilter<float, unsigned int> FilCSRf;
typedef LAFEM::SparseMatrixBCSR<double, Index, 3, 3> MatBCSR3;
typedef LAFEM::NoneFilterBlocked<double, Index, 3> FilBCSR3;
template struct InstAll<MatCSRf, FilCSRf>;
template struct InstAll<MatBCSR3, FilBCSR3>;
template class Solver::JacobiPrecond<MatCSRf, FilCSRf>;
template class Solver::PolynomialPrecond<MatCSRf, FilCSRf>;
template class Solver::SORPrecondWithBackend<PreferredBackend::generic, MatCSRf, FilCSRf>;
template class Solver::SORPrecondWithBackend<PreferredBackend::generic, MatBCSR3, FilBCSR3>;
template class Solver::SSORPrecondWithBackend<PreferredBackend::generic, MatCSRf, FilCSRf>;
template class Solver::SSORPrecondWithBackend<PreferredBackend::generic, MatBCSR3, FilBCSR3>;
template class Solver::ILUPrecondWithBackend<PreferredBackend::generic, MatCSRf, FilCSRf>;
template class Solver::ILUPrecondWithBackend<PreferredBackend::generic, MatBCSR3, FilBCSR3>;
template class Solver::Intern::ILUCoreScalar<float, unsigned int>;
template class Solver::Intern::ILUCoreBlocked<double, Index, 3>;
#endif
