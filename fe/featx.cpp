// featx: clang-14 frontend plugin that dumps the *resolved* program (typed statement/expression
// trees with resolved callees, plus the clang CFG) of selected function definitions -- including
// template instantiations -- as JSON.  It contains no rule; all rules live in /verif/engines.
//
//   clang++ -fsyntax-only -fplugin=featx.so -Xclang -plugin-arg-featx -Xclang out=F.json
//           -Xclang -plugin-arg-featx -Xclang files=<regex> [names=<regex>] [patterns=1] [cfg=0]
//
#include "clang/AST/ASTConsumer.h"
#include "clang/AST/ASTContext.h"
#include "clang/AST/DeclCXX.h"
#include "clang/AST/DeclTemplate.h"
#include "clang/AST/ExprCXX.h"
#include "clang/AST/ExprOpenMP.h"
#include "clang/AST/StmtCXX.h"
#include "clang/AST/StmtOpenMP.h"
#include "clang/AST/RecursiveASTVisitor.h"
#include "clang/Analysis/CFG.h"
#include "clang/Frontend/CompilerInstance.h"
#include "clang/Frontend/FrontendPluginRegistry.h"
#include "clang/Lex/Lexer.h"
#include "llvm/Support/Regex.h"
#include "llvm/Support/raw_ostream.h"
#include <map>
#include <set>
#include <string>
#include <vector>
#include <fstream>

using namespace clang;

namespace {

struct Options {
  std::string out = "featx.json";
  std::string files = ".*";
  std::string names = "";
  bool patterns = false;
  bool cfg = true;
};

std::string jstr(llvm::StringRef s) {
  std::string r;
  r.reserve(s.size() + 2);
  r.push_back('"');
  for (unsigned char c : s) {
    switch (c) {
    case '"': r += "\\\""; break;
    case '\\': r += "\\\\"; break;
    case '\n': r += "\\n"; break;
    case '\r': r += "\\r"; break;
    case '\t': r += "\\t"; break;
    default:
      if (c < 0x20) { char b[8]; snprintf(b, sizeof b, "\\u%04x", c); r += b; }
      else r.push_back((char)c);
    }
  }
  r.push_back('"');
  return r;
}

class Dumper {
public:
  ASTContext &Ctx;
  SourceManager &SM;
  PrintingPolicy PP;
  std::map<std::string, int> typeIds;
  std::vector<std::string> types;
  std::map<const Decl *, int> declIds;
  std::map<const Stmt *, int> stmtIds;  // per function
  int nextStmt = 0;
  std::vector<const CXXMethodDecl *> lambdaQueue;
  std::set<const CXXMethodDecl *> lambdaSeen;
  std::set<const FunctionDecl *> lambdaSpecSeen;  // instantiated call operators of generic lambdas already dumped
  int specOf = -1;                                // decl id of the pattern while a specialisation is dumped
  std::string os; // output of current function

  Dumper(ASTContext &C) : Ctx(C), SM(C.getSourceManager()), PP(C.getLangOpts()) {
    PP.SuppressTagKeyword = true;
    PP.Bool = true;
    PP.FullyQualifiedName = true;
    PP.SuppressUnwrittenScope = false;
    PP.PrintCanonicalTypes = false;
  }

  int typeId(QualType T) {
    std::string s = T.isNull() ? std::string("<null>") : T.getAsString(PP);
    auto it = typeIds.find(s);
    if (it != typeIds.end()) return it->second;
    int id = (int)types.size();
    types.push_back(s);
    typeIds[s] = id;
    return id;
  }
  int declId(const Decl *D) {
    if (!D) return -1;
    D = D->getCanonicalDecl();
    auto it = declIds.find(D);
    if (it != declIds.end()) return it->second;
    int id = (int)declIds.size();
    declIds[D] = id;
    return id;
  }
  unsigned line(SourceLocation L) {
    if (L.isInvalid()) return 0;
    return SM.getExpansionLineNumber(L);
  }
  std::string fileOf(SourceLocation L) {
    if (L.isInvalid()) return "";
    PresumedLoc P = SM.getPresumedLoc(SM.getExpansionLoc(L));
    return P.isValid() ? std::string(P.getFilename()) : std::string();
  }
  std::string tokenText(SourceLocation L) {
    if (L.isInvalid()) return "";
    SourceLocation S = SM.getSpellingLoc(L);
    SmallString<64> buf;
    bool inv = false;
    llvm::StringRef t = Lexer::getSpelling(S, buf, SM, Ctx.getLangOpts(), &inv);
    return inv ? std::string() : t.str();
  }
  std::string qname(const NamedDecl *ND) {
    if (!ND) return "";
    std::string s;
    llvm::raw_string_ostream o(s);
    ND->printQualifiedName(o, PP);
    return o.str();
  }
  std::string fullName(const NamedDecl *ND) {
    if (!ND) return "";
    std::string s;
    llvm::raw_string_ostream o(s);
    ND->getNameForDiagnostic(o, PP, true);
    return o.str();
  }
  std::string recordName(const DeclContext *DC) {
    if (auto *RD = dyn_cast_or_null<CXXRecordDecl>(DC)) {
      if (RD->isLambda()) return "<lambda>";
      return fullName(RD);
    }
    return "";
  }

  // Instantiated specialisations (with a body, not dependent) of the call operator of a generic
  // lambda, in instantiation order.  Empty for a non-generic lambda.
  std::vector<const FunctionDecl *> lambdaSpecs(const CXXMethodDecl *Op) {
    std::vector<const FunctionDecl *> r;
    if (!Op) return r;
    FunctionTemplateDecl *FTD = Op->getDescribedFunctionTemplate();
    if (!FTD) return r;
    std::set<const FunctionDecl *> have;
    for (FunctionDecl *Spec : FTD->specializations()) {
      const FunctionDecl *Def = nullptr;
      if (!Spec || !Spec->hasBody(Def) || !Def || !Def->getBody()) continue;
      if (Def->isDependentContext()) continue;
      if (have.insert(Def->getCanonicalDecl()).second) r.push_back(Def);
    }
    return r;
  }

  // ---- expression / statement skipping --------------------------------------------------------
  const Stmt *strip(const Stmt *S) {
    while (S) {
      if (auto *E = dyn_cast<ImplicitCastExpr>(S)) { S = E->getSubExpr(); continue; }
      if (auto *E = dyn_cast<ParenExpr>(S)) { S = E->getSubExpr(); continue; }
      if (auto *E = dyn_cast<MaterializeTemporaryExpr>(S)) { S = E->getSubExpr(); continue; }
      if (auto *E = dyn_cast<ExprWithCleanups>(S)) { S = E->getSubExpr(); continue; }
      if (auto *E = dyn_cast<CXXBindTemporaryExpr>(S)) { S = E->getSubExpr(); continue; }
      if (auto *E = dyn_cast<ConstantExpr>(S)) { S = E->getSubExpr(); continue; }
      if (auto *E = dyn_cast<SubstNonTypeTemplateParmExpr>(S)) { S = E->getReplacement(); continue; }
      if (auto *E = dyn_cast<CXXDefaultArgExpr>(S)) { S = E->getExpr(); continue; }
      if (auto *E = dyn_cast<CXXDefaultInitExpr>(S)) { S = E->getExpr(); continue; }
      if (auto *E = dyn_cast<FullExpr>(S)) { S = E->getSubExpr(); continue; }
      if (auto *E = dyn_cast<CXXConstructExpr>(S)) {
        // elidable copy/move construction from a temporary: look through
        if (E->isElidable() && E->getNumArgs() == 1) { S = E->getArg(0); continue; }
      }
      break;
    }
    return S;
  }

  void regStmt(const Stmt *Outer, int id) {
    // map outer wrappers to the same id
    const Stmt *S = Outer;
    while (S) {
      stmtIds[S] = id;
      const Stmt *N = nullptr;
      if (auto *E = dyn_cast<ImplicitCastExpr>(S)) N = E->getSubExpr();
      else if (auto *E = dyn_cast<ParenExpr>(S)) N = E->getSubExpr();
      else if (auto *E = dyn_cast<MaterializeTemporaryExpr>(S)) N = E->getSubExpr();
      else if (auto *E = dyn_cast<ExprWithCleanups>(S)) N = E->getSubExpr();
      else if (auto *E = dyn_cast<CXXBindTemporaryExpr>(S)) N = E->getSubExpr();
      else if (auto *E = dyn_cast<ConstantExpr>(S)) N = E->getSubExpr();
      else if (auto *E = dyn_cast<CXXConstructExpr>(S)) { if (E->isElidable() && E->getNumArgs() == 1) N = E->getArg(0); }
      if (!N) break;
      S = N;
    }
  }

  void kv(const char *k, const std::string &v) { os += ",\""; os += k; os += "\":"; os += v; }
  void kvs(const char *k, llvm::StringRef v) { kv(k, jstr(v)); }
  void kvi(const char *k, long v) { kv(k, std::to_string(v)); }
  void kvb(const char *k, bool v) { kv(k, v ? "true" : "false"); }
  void kvn(const char *k, const Stmt *S) { os += ",\""; os += k; os += "\":"; node(S); }
  void kvl(const char *k, llvm::ArrayRef<const Stmt *> L) {
    os += ",\""; os += k; os += "\":[";
    bool f = true;
    for (auto *S : L) { if (!f) os += ","; f = false; node(S); }
    os += "]";
  }

  void calleeInfo(const FunctionDecl *FD) {
    if (!FD) return;
    kvs("callee", qname(FD));
    kvs("cfull", fullName(FD));
    kvi("cdecl", declId(FD));
    if (auto *MD = dyn_cast<CXXMethodDecl>(FD)) {
      kvs("ccls", recordName(MD->getParent()));
      if (MD->isConst()) kvb("cconst", true);
      if (MD->isStatic()) kvb("cstatic", true);
    }
    if (FD->isNoReturn()) kvb("noreturn", true);
    os += ",\"pn\":[";
    for (unsigned i = 0; i < FD->getNumParams(); ++i) {
      if (i) os += ",";
      os += jstr(FD->getParamDecl(i)->getName());
    }
    os += "]";
    os += ",\"pt\":[";
    for (unsigned i = 0; i < FD->getNumParams(); ++i) {
      if (i) os += ",";
      os += std::to_string(typeId(FD->getParamDecl(i)->getType()));
    }
    os += "]";
    kvs("cfile", fileOf(FD->getLocation()));
  }

  void varDecl(const VarDecl *VD) {
    os += "{\"k\":\"Var\"";
    kvs("n", VD->getName());
    kvi("d", declId(VD));
    kvi("t", typeId(VD->getType()));
    kvi("l", line(VD->getLocation()));
    if (VD->isStaticLocal()) kvb("static", true);
    if (VD->getType().isConstQualified()) kvb("const", true);
    if (VD->getType()->isReferenceType()) kvb("ref", true);
    if (VD->hasInit()) {
      kvs("istyle", VD->getInitStyle() == VarDecl::CInit ? "c" : VD->getInitStyle() == VarDecl::CallInit ? "call" : "list");
      kvn("init", VD->getInit());
    }
    os += "}";
  }

  void node(const Stmt *Outer) {
    if (!Outer) { os += "null"; return; }
    const Stmt *S = strip(Outer);
    if (!S) { os += "null"; return; }
    int id = nextStmt++;
    regStmt(Outer, id);
    stmtIds[S] = id;
    os += "{\"k\":";
    const Expr *E = dyn_cast<Expr>(S);
    auto head = [&](const char *k) {
      os += "\""; os += k; os += "\"";
      kvi("i", id);
      kvi("l", line(S->getBeginLoc()));
      if (E) kvi("t", typeId(E->getType()));
    };

    if (auto *X = dyn_cast<IntegerLiteral>(S)) {
      head("Int");
      llvm::SmallString<32> b; X->getValue().toString(b, 10, X->getType()->isSignedIntegerType());
      kvs("v", b);
    } else if (auto *X = dyn_cast<FloatingLiteral>(S)) {
      head("Float");
      kvs("text", tokenText(X->getBeginLoc()));
      llvm::SmallString<64> b; X->getValue().toString(b, 40, 0);
      kvs("v", b);
    } else if (auto *X = dyn_cast<CXXBoolLiteralExpr>(S)) {
      head("Bool"); kvb("v", X->getValue());
    } else if (auto *X = dyn_cast<StringLiteral>(S)) {
      head("Str");
      if (X->getCharByteWidth() == 1) kvs("v", X->getString()); else kvs("v", "<wide>");
    } else if (auto *X = dyn_cast<CharacterLiteral>(S)) {
      head("Char"); kvi("v", X->getValue());
    } else if (isa<CXXNullPtrLiteralExpr>(S) || isa<GNUNullExpr>(S)) {
      head("Null");
    } else if (isa<CXXThisExpr>(S)) {
      head("This");
    } else if (auto *X = dyn_cast<DeclRefExpr>(S)) {
      head("Ref");
      const ValueDecl *D = X->getDecl();
      kvs("n", D->getDeclName().getAsString());
      kvi("d", declId(D));
      const char *dk = "other";
      if (isa<ParmVarDecl>(D)) dk = "param";
      else if (auto *VD = dyn_cast<VarDecl>(D)) dk = VD->isLocalVarDecl() ? "local" : (VD->isStaticDataMember() ? "smember" : "global");
      else if (isa<FunctionDecl>(D)) dk = "func";
      else if (isa<EnumConstantDecl>(D)) dk = "enum";
      else if (isa<NonTypeTemplateParmDecl>(D)) dk = "tparam";
      else if (isa<FieldDecl>(D)) dk = "field";
      else if (isa<BindingDecl>(D)) dk = "binding";
      kvs("dk", dk);
      if (!isa<ParmVarDecl>(D) && !(isa<VarDecl>(D) && cast<VarDecl>(D)->isLocalVarDecl())) kvs("qn", qname(D));
      if (auto *EC = dyn_cast<EnumConstantDecl>(D)) {
        llvm::SmallString<32> b; EC->getInitVal().toString(b, 10);
        kvs("v", b);
      }
      if (auto *VD = dyn_cast<VarDecl>(D)) {
        // constant-evaluable static/constexpr values (e.g. static constexpr int dim)
        if (!X->isValueDependent() && !X->isTypeDependent() && !X->isInstantiationDependent() &&
            VD->getType().isConstQualified() && VD->getType()->isIntegralOrEnumerationType() &&
            VD->getInit() && !VD->getInit()->isValueDependent() && !VD->getDeclContext()->isDependentContext()) {
          Expr::EvalResult R;
          if (X->EvaluateAsInt(R, Ctx)) { llvm::SmallString<32> b; R.Val.getInt().toString(b, 10); kvs("v", b); }
        }
      }
    } else if (auto *X = dyn_cast<MemberExpr>(S)) {
      head("Member");
      kvs("n", X->getMemberDecl()->getDeclName().getAsString());
      kvi("d", declId(X->getMemberDecl()));
      kvs("qn", qname(X->getMemberDecl()));
      if (X->isArrow()) kvb("arrow", true);
      if (isa<FieldDecl>(X->getMemberDecl())) kvb("field", true);
      if (X->isImplicitAccess()) kvb("implicit_this", true);
      kvn("b", X->getBase());
    } else if (auto *X = dyn_cast<CXXDependentScopeMemberExpr>(S)) {
      head("DepMember");
      kvs("n", X->getMember().getAsString());
      if (!X->isImplicitAccess()) kvn("b", X->getBase());
    } else if (auto *X = dyn_cast<UnresolvedMemberExpr>(S)) {
      head("DepMember");
      kvs("n", X->getMemberName().getAsString());
      if (!X->isImplicitAccess()) kvn("b", X->getBase());
    } else if (auto *X = dyn_cast<UnresolvedLookupExpr>(S)) {
      head("DepRef");
      kvs("n", X->getName().getAsString());
      std::string q;
      if (X->getQualifier()) { llvm::raw_string_ostream o(q); X->getQualifier()->print(o, PP); }
      kvs("qual", q);
    } else if (auto *X = dyn_cast<DependentScopeDeclRefExpr>(S)) {
      head("DepRef");
      kvs("n", X->getDeclName().getAsString());
      std::string q;
      if (X->getQualifier()) { llvm::raw_string_ostream o(q); X->getQualifier()->print(o, PP); }
      kvs("qual", q);
    } else if (auto *X = dyn_cast<CXXOperatorCallExpr>(S)) {
      head("OpCall");
      kvs("op", getOperatorSpelling(X->getOperator()));
      calleeInfo(X->getDirectCallee());
      std::vector<const Stmt *> a(X->arg_begin(), X->arg_end());
      kvl("a", a);
    } else if (auto *X = dyn_cast<CXXMemberCallExpr>(S)) {
      head("MCall");
      const CXXMethodDecl *MD = X->getMethodDecl();
      calleeInfo(MD);
      if (auto *ME = dyn_cast<MemberExpr>(X->getCallee()->IgnoreParens())) {
        if (ME->isArrow()) kvb("arrow", true);
        if (ME->hasQualifier()) kvb("qualified", true);
        kvs("n", ME->getMemberDecl()->getDeclName().getAsString());
      }
      if (X->getImplicitObjectArgument()) kvn("obj", X->getImplicitObjectArgument());
      else if (auto *ME = dyn_cast<MemberExpr>(X->getCallee()->IgnoreParens())) kvn("obj", ME->getBase());
      std::vector<const Stmt *> a(X->arg_begin(), X->arg_end());
      kvl("a", a);
    } else if (auto *X = dyn_cast<CallExpr>(S)) {
      head("Call");
      const FunctionDecl *FD = X->getDirectCallee();
      if (FD) calleeInfo(FD);
      else kvn("fn", X->getCallee());
      std::vector<const Stmt *> a(X->arg_begin(), X->arg_end());
      kvl("a", a);
    } else if (auto *X = dyn_cast<CXXConstructExpr>(S)) {
      head(isa<CXXTemporaryObjectExpr>(S) ? "TempObj" : "Construct");
      calleeInfo(X->getConstructor());
      if (X->getConstructor()->isCopyConstructor()) kvb("copy", true);
      if (X->getConstructor()->isMoveConstructor()) kvb("move", true);
      std::vector<const Stmt *> a(X->arg_begin(), X->arg_end());
      kvl("a", a);
    } else if (auto *X = dyn_cast<CXXUnresolvedConstructExpr>(S)) {
      head("DepConstruct");
      kvs("type", X->getTypeAsWritten().getAsString(PP));
      std::vector<const Stmt *> a(X->arg_begin(), X->arg_end());
      kvl("a", a);
    } else if (auto *X = dyn_cast<CompoundAssignOperator>(S)) {
      head("Assign");
      kvs("op", X->getOpcodeStr());
      kvn("lhs", X->getLHS());
      kvn("rhs", X->getRHS());
    } else if (auto *X = dyn_cast<BinaryOperator>(S)) {
      head(X->isAssignmentOp() ? "Assign" : "Bin");
      kvs("op", X->getOpcodeStr());
      kvn("lhs", X->getLHS());
      kvn("rhs", X->getRHS());
    } else if (auto *X = dyn_cast<UnaryOperator>(S)) {
      head("Un");
      kvs("op", UnaryOperator::getOpcodeStr(X->getOpcode()));
      if (X->isPostfix()) kvb("post", true);
      kvn("e", X->getSubExpr());
    } else if (auto *X = dyn_cast<ArraySubscriptExpr>(S)) {
      head("Index");
      kvn("b", X->getBase());
      kvn("idx", X->getIdx());
    } else if (auto *X = dyn_cast<ConditionalOperator>(S)) {
      head("Cond");
      kvn("c", X->getCond());
      kvn("then", X->getTrueExpr());
      kvn("else", X->getFalseExpr());
    } else if (auto *X = dyn_cast<ExplicitCastExpr>(S)) {
      head("Cast");
      const char *ck = "cstyle";
      if (isa<CXXStaticCastExpr>(S)) ck = "static";
      else if (isa<CXXConstCastExpr>(S)) ck = "const";
      else if (isa<CXXReinterpretCastExpr>(S)) ck = "reinterpret";
      else if (isa<CXXDynamicCastExpr>(S)) ck = "dynamic";
      else if (isa<CXXFunctionalCastExpr>(S)) ck = "functional";
      kvs("ck", ck);
      kvs("to", X->getTypeAsWritten().getAsString(PP));
      kvn("e", X->getSubExpr());
    } else if (auto *X = dyn_cast<InitListExpr>(S)) {
      head("InitList");
      const InitListExpr *Sem = X->isSemanticForm() ? X : (X->getSemanticForm() ? X->getSemanticForm() : X);
      std::vector<const Stmt *> a;
      for (auto *I : Sem->inits()) a.push_back(I);
      kvl("a", a);
    } else if (auto *X = dyn_cast<CXXStdInitializerListExpr>(S)) {
      head("StdInitList");
      kvn("e", X->getSubExpr());
    } else if (auto *X = dyn_cast<CXXNewExpr>(S)) {
      head("New");
      kvs("type", X->getAllocatedType().getAsString(PP));
      if (X->isArray() && X->getArraySize()) kvn("size", *X->getArraySize());
      if (X->getInitializer()) kvn("init", X->getInitializer());
    } else if (auto *X = dyn_cast<CXXDeleteExpr>(S)) {
      head("Delete");
      if (X->isArrayForm()) kvb("array", true);
      kvn("e", X->getArgument());
    } else if (auto *X = dyn_cast<CXXThrowExpr>(S)) {
      head("Throw");
      if (X->getSubExpr()) kvn("e", X->getSubExpr());
    } else if (auto *X = dyn_cast<UnaryExprOrTypeTraitExpr>(S)) {
      head("SizeOf");
      kvs("what", X->getKind() == UETT_SizeOf ? "sizeof" : "other");
      if (X->isArgumentType()) kvs("type", X->getArgumentType().getAsString(PP));
      else kvn("e", X->getArgumentExpr());
      if (!X->isValueDependent()) {
        Expr::EvalResult R;
        if (X->EvaluateAsInt(R, Ctx)) { llvm::SmallString<32> b; R.Val.getInt().toString(b, 10); kvs("v", b); }
      }
    } else if (auto *X = dyn_cast<LambdaExpr>(S)) {
      head("Lambda");
      const CXXMethodDecl *Op = X->getCallOperator();
      kvi("op_decl", declId(Op));
      if (lambdaSeen.insert(Op).second) lambdaQueue.push_back(Op);
      if (Op && Op->getDescribedFunctionTemplate()) {
        // generic lambda: op_decl is the dependent pattern; list the instantiated call operators
        kvb("generic", true);
        os += ",\"op_specs\":[";
        bool fs = true;
        for (const FunctionDecl *Sp : lambdaSpecs(Op)) {
          if (!fs) os += ",";
          fs = false;
          os += std::to_string(declId(Sp));
        }
        os += "]";
      }
      os += ",\"captures\":[";
      bool f = true;
      for (auto &C : X->captures()) {
        if (!f) os += ",";
        f = false;
        os += "{\"byref\":"; os += (C.getCaptureKind() == LCK_ByRef ? "true" : "false");
        if (C.capturesVariable()) { os += ",\"n\":" + jstr(C.getCapturedVar()->getName()) + ",\"d\":" + std::to_string(declId(C.getCapturedVar())); }
        else if (C.capturesThis()) os += ",\"n\":\"this\"";
        os += "}";
      }
      os += "]";
      kvn("body", X->getBody());
    } else if (auto *X = dyn_cast<CXXScalarValueInitExpr>(S)) {
      (void)X; head("ValueInit");
    } else if (auto *X = dyn_cast<CXXPseudoDestructorExpr>(S)) {
      head("PseudoDtor"); kvn("b", X->getBase());
    } else if (auto *X = dyn_cast<CXXTypeidExpr>(S)) {
      (void)X; head("Typeid");
    } else if (auto *X = dyn_cast<OpaqueValueExpr>(S)) {
      head("Opaque"); if (X->getSourceExpr()) kvn("e", X->getSourceExpr());
    } else if (auto *X = dyn_cast<PackExpansionExpr>(S)) {
      head("PackExpansion"); kvn("e", X->getPattern());
    } else if (auto *X = dyn_cast<CXXFoldExpr>(S)) {
      head("Fold");
      kvs("op", BinaryOperator::getOpcodeStr(X->getOperator()));
      if (X->getLHS()) kvn("lhs", X->getLHS());
      if (X->getRHS()) kvn("rhs", X->getRHS());
    } else if (auto *X = dyn_cast<SizeOfPackExpr>(S)) {
      head("SizeOfPack");
      if (!X->isValueDependent()) kvi("v", X->getPackLength());
    }
    // ---------------- statements -------------------------------------------------------------
    else if (auto *X = dyn_cast<CompoundStmt>(S)) {
      head("Block");
      std::vector<const Stmt *> a(X->body_begin(), X->body_end());
      kvl("s", a);
    } else if (auto *X = dyn_cast<DeclStmt>(S)) {
      head("Decl");
      os += ",\"vars\":[";
      bool f = true;
      for (auto *D : X->decls()) {
        if (auto *VD = dyn_cast<VarDecl>(D)) {
          if (!f) os += ",";
          f = false;
          varDecl(VD);
        }
      }
      os += "]";
    } else if (auto *X = dyn_cast<IfStmt>(S)) {
      head("If");
      if (X->isConstexpr()) kvb("constexpr", true);
      if (X->getInit()) kvn("init", X->getInit());
      if (X->getConditionVariableDeclStmt()) kvn("cvar", X->getConditionVariableDeclStmt());
      kvn("c", X->getCond());
      kvn("then", X->getThen());
      if (X->getElse()) kvn("else", X->getElse());
    } else if (auto *X = dyn_cast<ForStmt>(S)) {
      head("For");
      if (X->getInit()) kvn("init", X->getInit());
      if (X->getCond()) kvn("c", X->getCond());
      if (X->getInc()) kvn("inc", X->getInc());
      kvn("body", X->getBody());
    } else if (auto *X = dyn_cast<CXXForRangeStmt>(S)) {
      head("ForRange");
      os += ",\"var\":"; varDecl(X->getLoopVariable());
      kvn("range", X->getRangeInit());
      kvn("body", X->getBody());
    } else if (auto *X = dyn_cast<WhileStmt>(S)) {
      head("While");
      kvn("c", X->getCond());
      kvn("body", X->getBody());
    } else if (auto *X = dyn_cast<DoStmt>(S)) {
      head("Do");
      kvn("body", X->getBody());
      kvn("c", X->getCond());
    } else if (auto *X = dyn_cast<SwitchStmt>(S)) {
      head("Switch");
      kvn("c", X->getCond());
      kvn("body", X->getBody());
    } else if (auto *X = dyn_cast<CaseStmt>(S)) {
      head("Case");
      kvn("v", X->getLHS());
      kvn("s", X->getSubStmt());
    } else if (auto *X = dyn_cast<DefaultStmt>(S)) {
      head("Default");
      kvn("s", X->getSubStmt());
    } else if (isa<BreakStmt>(S)) {
      head("Break");
    } else if (isa<ContinueStmt>(S)) {
      head("Continue");
    } else if (isa<NullStmt>(S)) {
      head("Null_");
    } else if (auto *X = dyn_cast<ReturnStmt>(S)) {
      head("Return");
      if (X->getRetValue()) kvn("e", X->getRetValue());
    } else if (auto *X = dyn_cast<CXXTryStmt>(S)) {
      head("Try");
      kvn("body", X->getTryBlock());
      std::vector<const Stmt *> a;
      for (unsigned i = 0; i < X->getNumHandlers(); ++i) a.push_back(X->getHandler(i)->getHandlerBlock());
      kvl("handlers", a);
    } else if (auto *X = dyn_cast<OMPExecutableDirective>(S)) {
      head("OMP");
      kvs("dir", S->getStmtClassName());
      if (X->hasAssociatedStmt()) {
        const Stmt *A = X->getAssociatedStmt();
        while (auto *CS = dyn_cast_or_null<CapturedStmt>(A)) A = CS->getCapturedStmt();
        kvn("body", A);
      }
    } else if (auto *X = dyn_cast<AttributedStmt>(S)) {
      head("Attributed"); kvn("s", X->getSubStmt());
    } else if (auto *X = dyn_cast<LabelStmt>(S)) {
      head("Label"); kvs("n", X->getName()); kvn("s", X->getSubStmt());
    } else if (auto *X = dyn_cast<GotoStmt>(S)) {
      head("Goto"); kvs("n", X->getLabel()->getName());
    } else {
      head(S->getStmtClassName());
      std::vector<const Stmt *> a;
      for (auto *C : S->children()) if (C) a.push_back(C);
      kvl("ch", a);
    }
    os += "}";
  }

  // ---- CFG --------------------------------------------------------------------------------
  static bool interesting(const Stmt *S) {
    if (isa<CallExpr>(S) || isa<CXXConstructExpr>(S) || isa<DeclStmt>(S) || isa<ReturnStmt>(S) ||
        isa<CXXThrowExpr>(S) || isa<CXXNewExpr>(S) || isa<CXXDeleteExpr>(S) || isa<CompoundAssignOperator>(S) ||
        isa<LambdaExpr>(S))
      return true;
    if (auto *B = dyn_cast<BinaryOperator>(S)) return B->isAssignmentOp();
    if (auto *U = dyn_cast<UnaryOperator>(S)) return U->isIncrementDecrementOp();
    return false;
  }

  void dumpCFG(const FunctionDecl *FD) {
    CFG::BuildOptions BO;
    BO.setAllAlwaysAdd();
    BO.AddImplicitDtors = false;
    BO.AddTemporaryDtors = false;
    BO.AddInitializers = true;
    BO.PruneTriviallyFalseEdges = false;
    std::unique_ptr<CFG> G = CFG::buildCFG(FD, FD->getBody(), &Ctx, BO);
    if (!G) { os += ",\"cfg\":null"; return; }
    os += ",\"cfg\":{\"entry\":" + std::to_string(G->getEntry().getBlockID()) +
          ",\"exit\":" + std::to_string(G->getExit().getBlockID()) + ",\"blocks\":[";
    bool fb = true;
    for (const CFGBlock *B : *G) {
      if (!fb) os += ",";
      fb = false;
      os += "{\"id\":" + std::to_string(B->getBlockID());
      os += ",\"el\":[";
      bool fe = true;
      int last = -1;
      for (const CFGElement &El : *B) {
        if (auto CS = El.getAs<CFGStmt>()) {
          const Stmt *S = CS->getStmt();
          const Stmt *T = strip(S);
          if (!T || !interesting(T)) continue;
          auto it = stmtIds.find(T);
          if (it == stmtIds.end()) continue;
          if (it->second == last) continue;
          last = it->second;
          if (!fe) os += ",";
          fe = false;
          os += std::to_string(it->second);
        }
      }
      os += "],\"succ\":[";
      bool fs = true;
      for (auto I = B->succ_begin(); I != B->succ_end(); ++I) {
        if (!fs) os += ",";
        fs = false;
        const CFGBlock *Sx = I->getReachableBlock();
        if (!Sx) Sx = I->getPossiblyUnreachableBlock();
        os += Sx ? std::to_string(Sx->getBlockID()) : std::string("null");
      }
      os += "]";
      if (const Stmt *T = B->getTerminatorStmt()) {
        os += ",\"term\":" + jstr(T->getStmtClassName());
        auto it = stmtIds.find(T);
        if (it != stmtIds.end()) os += ",\"term_id\":" + std::to_string(it->second);
        if (const Stmt *C = B->getTerminatorCondition()) {
          auto ic = stmtIds.find(strip(C));
          if (ic != stmtIds.end()) os += ",\"cond\":" + std::to_string(ic->second);
        }
      }
      if (const Stmt *L = B->getLabel()) {
        auto it = stmtIds.find(L);
        if (it != stmtIds.end()) os += ",\"label\":" + std::to_string(it->second);
      }
      if (B->hasNoReturnElement()) os += ",\"noreturn\":true";
      os += "}";
    }
    os += "]}";
  }

  // ---- function -----------------------------------------------------------------------------
  std::string dumpFunction(const FunctionDecl *FD, const Options &Opt, bool dependent, const std::string &lambdaParent) {
    os.clear();
    stmtIds.clear();
    nextStmt = 0;
    os += "{\"qn\":" + jstr(lambdaParent.empty() ? qname(FD) : lambdaParent);
    kvs("full", lambdaParent.empty() ? fullName(FD) : lambdaParent);
    kvs("name", FD->getDeclName().getAsString());
    kvi("decl", declId(FD));
    if (auto *MD = dyn_cast<CXXMethodDecl>(FD)) {
      kvs("cls", recordName(MD->getParent()));
      if (MD->isConst()) kvb("const", true);
      if (MD->isStatic()) kvb("static", true);
      if (MD->isVirtual()) kvb("virtual", true);
      if (isa<CXXConstructorDecl>(MD)) kvb("ctor", true);
      if (isa<CXXDestructorDecl>(MD)) kvb("dtor", true);
    }
    const char *tk = "plain";
    if (dependent) tk = "pattern";
    else if (FD->isTemplateInstantiation()) tk = "inst";
    else if (FD->getTemplateSpecializationKind() == TSK_ExplicitSpecialization) tk = "spec";
    else if (auto *MD = dyn_cast<CXXMethodDecl>(FD)) {
      if (auto *SD = dyn_cast<ClassTemplateSpecializationDecl>(MD->getParent()))
        tk = SD->getSpecializationKind() == TSK_ExplicitSpecialization ? "spec" : "inst";
    }
    kvs("tk", tk);
    if (specOf >= 0) kvi("spec_of", specOf);
    kvs("file", fileOf(FD->getLocation()));
    kvi("line", line(FD->getBeginLoc()));
    kvi("end", line(FD->getEndLoc()));
    // file of the body (differs from "file" for out-of-line definitions of member templates, whose
    // instantiated declaration is located at the in-class declaration)
    if (FD->getBody()) kvs("bfile", fileOf(FD->getBody()->getBeginLoc()));
    kvi("ret", typeId(FD->getReturnType()));
    os += ",\"params\":[";
    for (unsigned i = 0; i < FD->getNumParams(); ++i) {
      const ParmVarDecl *P = FD->getParamDecl(i);
      if (i) os += ",";
      os += "{\"n\":" + jstr(P->getName()) + ",\"d\":" + std::to_string(declId(P)) + ",\"t\":" + std::to_string(typeId(P->getType())) + "}";
    }
    os += "]";
    if (auto *CD = dyn_cast<CXXConstructorDecl>(FD)) {
      os += ",\"inits\":[";
      bool f = true;
      for (auto *I : CD->inits()) {
        if (!I->isWritten()) continue;
        if (!f) os += ",";
        f = false;
        os += "{\"l\":" + std::to_string(line(I->getSourceLocation()));
        if (I->isAnyMemberInitializer()) { os += ",\"member\":" + jstr(I->getAnyMember()->getName()); }
        else if (I->isBaseInitializer()) { os += ",\"base\":" + jstr(QualType(I->getBaseClass(), 0).getAsString(PP)); }
        else if (I->isDelegatingInitializer()) { os += ",\"delegating\":true"; }
        os += ",\"init\":";
        node(I->getInit());
        os += "}";
      }
      os += "]";
    }
    kvn("body", FD->getBody());
    if (Opt.cfg && !dependent) dumpCFG(FD);
    os += "}";
    return os;
  }
};

class Consumer : public ASTConsumer, public RecursiveASTVisitor<Consumer> {
public:
  CompilerInstance &CI;
  Options Opt;
  std::vector<const FunctionDecl *> funcs;
  std::set<const FunctionDecl *> seen;
  llvm::Regex fileRe, nameRe;
  SourceManager *SM = nullptr;

  Consumer(CompilerInstance &CI, Options O) : CI(CI), Opt(O), fileRe(O.files), nameRe(O.names.empty() ? ".*" : O.names) {}

  bool shouldVisitTemplateInstantiations() const { return true; }
  bool shouldVisitImplicitCode() const { return false; }

  bool VisitFunctionDecl(FunctionDecl *FD) {
    if (!FD->doesThisDeclarationHaveABody()) return true;
    if (FD->isImplicit() || FD->isDefaulted() || FD->isDeleted()) return true;
    bool dep = FD->isDependentContext();
    if (dep && !Opt.patterns) return true;
    if (!seen.insert(FD).second) return true;
    SourceLocation L = SM->getExpansionLoc(FD->getLocation());
    PresumedLoc P = SM->getPresumedLoc(L);
    if (!P.isValid()) return true;
    if (!fileRe.match(P.getFilename())) return true;
    if (!Opt.names.empty()) {
      std::string q = FD->getQualifiedNameAsString();
      if (!nameRe.match(q)) return true;
    }
    funcs.push_back(FD);
    return true;
  }

  void HandleTranslationUnit(ASTContext &Ctx) override {
    SM = &Ctx.getSourceManager();
    TraverseDecl(Ctx.getTranslationUnitDecl());
    Dumper D(Ctx);
    std::ofstream out(Opt.out);
    out << "{\"main\":" << jstr(SM->getFileEntryForID(SM->getMainFileID()) ? SM->getFileEntryForID(SM->getMainFileID())->getName() : "")
        << ",\"errors\":" << CI.getDiagnostics().getClient()->getNumErrors()
        << ",\"functions\":[\n";
    bool first = true;
    size_t qi = 0;
    for (const FunctionDecl *FD : funcs) {
      if (FD->getBody() == nullptr) continue;
      bool dep = FD->isDependentContext();
      std::string s = D.dumpFunction(FD, Opt, dep, "");
      if (!first) out << ",\n";
      first = false;
      out << s;
      // lambdas found inside
      std::string parent = D.qname(FD);
      while (qi < D.lambdaQueue.size()) {
        const CXXMethodDecl *Op = D.lambdaQueue[qi++];
        if (!Op || !Op->getBody()) continue;
        std::string lname = parent + "::<lambda@" + std::to_string(D.line(Op->getBeginLoc())) + ">";
        std::string ls = D.dumpFunction(Op, Opt, Op->isDependentContext(), lname);
        // dumpFunction may have re-queued nested lambdas (already dumped as trees); keep queue monotone
        out << ",\n" << ls;
        // generic lambda: the instantiated call operators follow their pattern under the same name
        // (tk "inst", own decl id == cdecl of the closure calls, spec_of = decl id of the pattern);
        // lambdas nested in a specialisation are queued by dumpFunction and handled by this loop
        for (const FunctionDecl *Sp : D.lambdaSpecs(Op)) {
          if (!D.lambdaSpecSeen.insert(Sp->getCanonicalDecl()).second) continue;
          D.specOf = D.declId(Op);
          std::string ss = D.dumpFunction(Sp, Opt, false, lname);
          D.specOf = -1;
          out << ",\n" << ss;
        }
      }
    }
    out << "\n],\"types\":[";
    for (size_t i = 0; i < D.types.size(); ++i) { if (i) out << ","; out << jstr(D.types[i]); }
    out << "]}\n";
  }
};

class Action : public PluginASTAction {
  Options Opt;
protected:
  std::unique_ptr<ASTConsumer> CreateASTConsumer(CompilerInstance &CI, llvm::StringRef) override {
    return std::make_unique<Consumer>(CI, Opt);
  }
  bool ParseArgs(const CompilerInstance &, const std::vector<std::string> &args) override {
    for (auto &a : args) {
      auto eq = a.find('=');
      std::string k = a.substr(0, eq), v = eq == std::string::npos ? "" : a.substr(eq + 1);
      if (k == "out") Opt.out = v;
      else if (k == "files") Opt.files = v;
      else if (k == "names") Opt.names = v;
      else if (k == "patterns") Opt.patterns = (v != "0");
      else if (k == "cfg") Opt.cfg = (v != "0");
    }
    return true;
  }
  PluginASTAction::ActionType getActionType() override { return AddAfterMainAction; }
};

} // namespace

static FrontendPluginRegistry::Add<Action> X("featx", "dump resolved function bodies + CFG as JSON");
